// Command jrpcvet decides structural clauses of the jrpc2 properties by
// static analysis of the current source tree (see /verif/DESIGN.md).
package main

import (
	"flag"
	"fmt"
	"os"
	"path/filepath"
	"strconv"
	"syscall"
	"time"

	"jrpcvet/internal/chk"
	"jrpcvet/internal/load"
	"jrpcvet/internal/props"
)

func main() {
	prop := flag.String("property", "", "property id (C01..C20) or 'all'")
	tier := flag.String("tier", "quick", "quick | thorough")
	repo := flag.String("repo", "/repo", "tree to analyse")
	verif := flag.String("verif", "", "verification directory (default: parent of the binary's directory)")
	evidence := flag.String("evidence", "", "evidence file (default <verif>/evidence/<id>.json)")
	verbose := flag.Bool("v", false, "print every obligation")
	explain := flag.String("explain", "", "replay: print the obligations named in this violations file verbosely")
	noEvidence := flag.Bool("no-evidence", false, "do not write evidence (used for self-validation runs on variants)")
	list := flag.Bool("list", false, "print the registered property checks as JSON")
	variants := flag.Bool("variants", false, "development aid: treat the remaining arguments as patch files, apply each to a copy of -repo and run every property on it")
	anchorDeps := flag.Bool("anchor-deps", false, "development aid: print the property → anchor dependency table (Go source) computed on -repo")
	flag.Parse()
	if *anchorDeps {
		fmt.Print(props.AnchorDeps(load.Config{Dir: *repo}))
		return
	}
	if *variants {
		props.Variants(*repo, flag.Args(), *verbose)
		return
	}
	if *list {
		props.PrintList()
		return
	}
	if *verif == "" {
		exe, _ := os.Executable()
		*verif = filepath.Dir(filepath.Dir(exe))
	}
	if t := os.Getenv("VERIF_TIER"); t != "" && !isFlagSet("tier") {
		*tier = t
	}
	seed := 0
	if s := os.Getenv("VERIF_SEED"); s != "" {
		seed, _ = strconv.Atoi(s)
	}
	if *explain != "" {
		*verbose = true
	}
	props.VerifDir = *verif
	ids := []string{*prop}
	if *prop == "all" {
		ids = props.IDs()
	}
	known, err := chk.LoadKnown(filepath.Join(*verif, "known_findings.json"))
	if err != nil {
		fmt.Println("cannot read known_findings.json:", err)
		known = &chk.KnownFile{}
	}
	exit := 0
	for _, id := range ids {
		def := props.Lookup(id)
		if def == nil {
			fmt.Printf("unknown property %q\n", id)
			os.Exit(2)
		}
		ev := *evidence
		if ev == "" {
			ev = filepath.Join(*verif, "evidence", id+".json")
		}
		if *noEvidence {
			ev = ""
		}
		code := runOne(def, *tier, *repo, seed, ev, known, *verbose)
		if code > exit {
			exit = code
		}
	}
	os.Exit(exit)
}

func isFlagSet(name string) bool {
	set := false
	flag.Visit(func(f *flag.Flag) {
		if f.Name == name {
			set = true
		}
	})
	return set
}

func runOne(def *props.Def, tier, repo string, seed int, evidencePath string, known *chk.KnownFile, verbose bool) (code int) {
	start := time.Now()
	res := &chk.Result{Property: def.ID, Tier: tier, Seed: seed, Start: start, Explanation: def.Explanation,
		NotDecided: def.NotDecided, Assumptions: def.Assumptions, RuleText: def.RuleText, Extra: map[string]any{}}
	defer func() {
		if r := recover(); r != nil {
			res.Obs = append(res.Obs, chk.Obligation{Rule: "ENGINE", Func: "-", Construct: "panic", Site: "-", Status: chk.Undecided,
				Detail: fmt.Sprintf("analyzer panic: %v", r), Nontrivial: false})
			code = chk.Report(res, known, evidencePath, verbose)
			if code == 0 {
				code = 1
			}
		}
	}()
	configs := []load.Config{{Dir: repo}}
	if tier == "thorough" {
		// the thorough tier analyses several hundred variants of the tree and peaks at about
		// 5 GB: runs started side by side take turns
		if unlock := serialise(); unlock != nil {
			defer unlock()
		}
		configs = append(configs,
			load.Config{Dir: repo, Env: []string{"GOOS=darwin", "GOARCH=arm64"}},
			load.Config{Dir: repo, Env: []string{"GOOS=windows", "GOARCH=amd64"}},
			load.Config{Dir: repo, Env: []string{"GOOS=linux", "GOARCH=386"}},
			load.Config{Dir: repo, Tags: "verif"},
		)
	}
	for i, cfg := range configs {
		name := cfg.Name()
		res.Configs = append(res.Configs, name)
		obs, nfuncs := analyse(def, cfg, tier)
		if i == 0 {
			res.Obs = append(res.Obs, obs...)
			res.Funcs = nfuncs
			continue
		}
		// Other configurations: only report what differs from the host configuration.
		have := map[string]chk.Status{}
		for _, o := range res.Obs {
			have[o.Key()] = o.Status
		}
		for _, o := range obs {
			if st, ok := have[o.Key()]; !ok || st != o.Status {
				o.Construct += " [" + name + "]"
				res.Obs = append(res.Obs, o)
			}
		}
	}
	if tier == "thorough" {
		props.SelfTest(def, res, repo)
		if def.Thorough != nil {
			def.Thorough(res, repo)
		}
	}
	return chk.Report(res, known, evidencePath, verbose)
}

func analyse(def *props.Def, cfg load.Config, tier string) ([]chk.Obligation, int) {
	return props.Analyse(def, cfg, tier)
}

// serialise takes an exclusive advisory lock shared by all thorough-tier runs
// on this machine; it returns the function that releases it (nil if the lock
// file cannot be opened, in which case the run simply proceeds).
func serialise() func() {
	f, err := os.OpenFile(filepath.Join(os.TempDir(), "jrpcvet-thorough.lock"), os.O_CREATE|os.O_RDWR, 0o666)
	if err != nil {
		return nil
	}
	if err := syscall.Flock(int(f.Fd()), syscall.LOCK_EX); err != nil {
		f.Close()
		return nil
	}
	return func() {
		syscall.Flock(int(f.Fd()), syscall.LOCK_UN)
		f.Close()
	}
}
