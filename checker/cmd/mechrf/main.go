// Command mechrf is a development aid for the jrpcvet rules: it applies one
// mechanical, behaviour-preserving source transformation at a random subset of
// the eligible sites of a copy of the repository. The transformations are
// equivalences of the Go language (no knowledge of the library is used), so
// every variant that still compiles must leave every check silent.
//
//	mechrf -dir <copy> -t swapelse|flipcmp|reverse|outline|elsenest|unnest|rename -seed N -frac 0.5
package main

import (
	"flag"
	"fmt"
	"go/ast"
	"go/format"
	"go/parser"
	"go/token"
	"go/types"
	"hash/fnv"
	"os"
	"path/filepath"
	"sort"
	"strings"
	"unicode"

	"golang.org/x/tools/go/packages"
)

type edit struct {
	start, end int
	text       string
}

var (
	dir  = flag.String("dir", "", "repository copy to rewrite in place")
	tr   = flag.String("t", "", "transformation")
	seed = flag.Int("seed", 1, "site selection seed")
	frac = flag.Float64("frac", 0.5, "fraction of eligible sites to rewrite")
	only = flag.String("files", "", "comma-separated base names to restrict to")
)

func pick(key string) bool {
	h := fnv.New32a()
	fmt.Fprintf(h, "%d|%s", *seed, key)
	return float64(h.Sum32()%1000) < *frac*1000
}

func main() {
	flag.Parse()
	if *tr == "rename" {
		typed()
		return
	}
	if *tr == "lockwrap" || *tr == "getter" || *tr == "rangeidx" {
		typed2()
		return
	}
	var files []string
	filepath.Walk(*dir, func(p string, fi os.FileInfo, err error) error {
		if err != nil {
			return nil
		}
		if fi.IsDir() && (fi.Name() == ".git" || fi.Name() == "testdata") {
			return filepath.SkipDir
		}
		if fi.IsDir() && p != *dir {
			// nested modules (the repository's tools) are not part of the analysed program
			if _, err := os.Stat(filepath.Join(p, "go.mod")); err == nil {
				return filepath.SkipDir
			}
		}
		if strings.HasSuffix(p, ".go") && !strings.HasSuffix(p, "_test.go") {
			files = append(files, p)
		}
		return nil
	})
	sort.Strings(files)
	total := 0
	for _, p := range files {
		if *only != "" && !strings.Contains(","+*only+",", ","+filepath.Base(p)+",") {
			continue
		}
		src, err := os.ReadFile(p)
		if err != nil {
			continue
		}
		fset := token.NewFileSet()
		f, err := parser.ParseFile(fset, p, src, parser.ParseComments)
		if err != nil {
			continue
		}
		rel, _ := filepath.Rel(*dir, p)
		eds := sites(fset, f, src, rel)
		// drop overlapping edits (keep the earlier-starting, outer one)
		sort.Slice(eds, func(i, j int) bool {
			if eds[i].start != eds[j].start {
				return eds[i].start < eds[j].start
			}
			return eds[i].end > eds[j].end
		})
		var keep []edit
		last := -1
		for _, e := range eds {
			if e.start < last {
				continue
			}
			keep = append(keep, e)
			last = e.end
		}
		if len(keep) == 0 {
			continue
		}
		out := string(src)
		for i := len(keep) - 1; i >= 0; i-- {
			e := keep[i]
			out = out[:e.start] + e.text + out[e.end:]
		}
		fm, err := format.Source([]byte(out))
		if err != nil {
			fmt.Fprintf(os.Stderr, "mechrf: %s: result does not parse: %v\n", rel, err)
			continue
		}
		os.WriteFile(p, fm, 0o644)
		total += len(keep)
	}
	fmt.Printf("mechrf %s seed=%d: %d sites rewritten\n", *tr, *seed, total)
}

func sites(fset *token.FileSet, f *ast.File, src []byte, rel string) []edit {
	off := func(p token.Pos) int { return fset.Position(p).Offset }
	txt := func(n ast.Node) string { return string(src[off(n.Pos()):off(n.End())]) }
	var eds []edit
	key := func(n ast.Node) string { return fmt.Sprintf("%s:%d", rel, off(n.Pos())) }

	terminates := func(b *ast.BlockStmt) bool {
		if len(b.List) == 0 {
			return false
		}
		switch s := b.List[len(b.List)-1].(type) {
		case *ast.ReturnStmt:
			return true
		case *ast.BranchStmt:
			return s.Tok != token.FALLTHROUGH
		case *ast.ExprStmt:
			if c, ok := s.X.(*ast.CallExpr); ok {
				if id, ok := c.Fun.(*ast.Ident); ok && id.Name == "panic" {
					return true
				}
			}
		}
		return false
	}
	hasLabelOrGoto := func(n ast.Node) bool {
		found := false
		ast.Inspect(n, func(x ast.Node) bool {
			switch s := x.(type) {
			case *ast.LabeledStmt:
				found = true
			case *ast.BranchStmt:
				if s.Tok == token.GOTO {
					found = true
				}
			}
			return true
		})
		return found
	}
	declares := func(b *ast.BlockStmt) bool {
		for _, s := range b.List {
			switch s := s.(type) {
			case *ast.DeclStmt:
				return true
			case *ast.AssignStmt:
				if s.Tok == token.DEFINE {
					return true
				}
			case *ast.LabeledStmt:
				return true
			}
		}
		return false
	}
	var simple func(e ast.Expr) bool
	simple = func(e ast.Expr) bool {
		switch e := e.(type) {
		case *ast.Ident, *ast.BasicLit:
			return true
		case *ast.SelectorExpr:
			return simple(e.X)
		case *ast.ParenExpr:
			return simple(e.X)
		case *ast.StarExpr:
			return simple(e.X)
		case *ast.IndexExpr:
			return simple(e.X) && simple(e.Index)
		case *ast.CallExpr:
			if id, ok := e.Fun.(*ast.Ident); ok && (id.Name == "len" || id.Name == "cap") && len(e.Args) == 1 {
				return simple(e.Args[0])
			}
		}
		return false
	}
	lists := func(fn func(list []ast.Stmt)) {
		ast.Inspect(f, func(n ast.Node) bool {
			switch s := n.(type) {
			case *ast.BlockStmt:
				fn(s.List)
			case *ast.CaseClause:
				fn(s.Body)
			case *ast.CommClause:
				fn(s.Body)
			}
			return true
		})
	}

	switch *tr {
	case "swapelse":
		ast.Inspect(f, func(n ast.Node) bool {
			s, ok := n.(*ast.IfStmt)
			if !ok {
				return true
			}
			eb, ok := s.Else.(*ast.BlockStmt)
			if !ok || !pick(key(s)) {
				return true
			}
			head := "if "
			if s.Init != nil {
				head += txt(s.Init) + "; "
			}
			eds = append(eds, edit{off(s.Pos()), off(s.End()), head + "!(" + txt(s.Cond) + ") " + txt(eb) + " else " + txt(s.Body)})
			return true
		})
	case "flipcmp":
		flip := map[token.Token]string{token.EQL: "==", token.NEQ: "!=", token.LSS: ">", token.GTR: "<", token.LEQ: ">=", token.GEQ: "<="}
		ast.Inspect(f, func(n ast.Node) bool {
			b, ok := n.(*ast.BinaryExpr)
			if !ok {
				return true
			}
			op, isCmp := flip[b.Op]
			if !isCmp || !simple(b.X) || !simple(b.Y) || !pick(key(b)) {
				return true
			}
			eds = append(eds, edit{off(b.Pos()), off(b.End()), txt(b.Y) + " " + op + " " + txt(b.X)})
			return true
		})
	case "demorgan":
		// the top-most && / || of an expression: X && Y  →  !(!(X) || !(Y))
		inner := map[ast.Expr]bool{}
		ast.Inspect(f, func(n ast.Node) bool {
			b, ok := n.(*ast.BinaryExpr)
			if !ok || (b.Op != token.LAND && b.Op != token.LOR) {
				return true
			}
			for _, side := range []ast.Expr{b.X, b.Y} {
				e := side
				for {
					pe, isP := e.(*ast.ParenExpr)
					if !isP {
						break
					}
					e = pe.X
				}
				if sb, ok := e.(*ast.BinaryExpr); ok && (sb.Op == token.LAND || sb.Op == token.LOR) {
					inner[sb] = true
				}
			}
			if inner[b] || !pick(key(b)) {
				return true
			}
			op := "||"
			if b.Op == token.LOR {
				op = "&&"
			}
			eds = append(eds, edit{off(b.Pos()), off(b.End()), "!(!(" + txt(b.X) + ") " + op + " !(" + txt(b.Y) + "))"})
			return true
		})
	case "reverse":
		type span struct{ s, e int }
		var spans []span
		for _, d := range f.Decls {
			fd, ok := d.(*ast.FuncDecl)
			if !ok {
				continue
			}
			st := off(fd.Pos())
			if fd.Doc != nil {
				st = off(fd.Doc.Pos())
			}
			spans = append(spans, span{st, off(fd.End())})
		}
		if len(spans) > 1 && pick(rel) {
			for i, sp := range spans {
				o := spans[len(spans)-1-i]
				eds = append(eds, edit{sp.s, sp.e, string(src[o.s:o.e])})
			}
		}
	case "elsenest":
		lists(func(list []ast.Stmt) {
			for i, st := range list {
				s, ok := st.(*ast.IfStmt)
				if !ok || s.Else != nil || i == len(list)-1 || !terminates(s.Body) {
					continue
				}
				rest := list[i+1:]
				bad := false
				for _, r := range rest {
					if hasLabelOrGoto(r) {
						bad = true
					}
				}
				if bad || !pick(key(s)) {
					continue
				}
				last := rest[len(rest)-1]
				// keep trailing comments of the rest inside: take the text from the end of the if
				// to the end of the last statement
				eds = append(eds, edit{off(s.End()), off(last.End()), " else {\n" + string(src[off(s.End()):off(last.End())]) + "\n}"})
				break
			}
		})
	case "unnest":
		lists(func(list []ast.Stmt) {
			for _, st := range list {
				s, ok := st.(*ast.IfStmt)
				if !ok {
					continue
				}
				eb, ok := s.Else.(*ast.BlockStmt)
				if !ok || !terminates(s.Body) || declares(eb) || hasLabelOrGoto(eb) || !pick(key(s)) {
					continue
				}
				inner := string(src[off(eb.Lbrace)+1 : off(eb.Rbrace)])
				eds = append(eds, edit{off(s.Body.End()), off(s.End()), "\n" + inner})
			}
		})
	case "outline":
		used := map[string]bool{}
		ast.Inspect(f, func(n ast.Node) bool {
			if id, ok := n.(*ast.Ident); ok {
				used[id.Name] = true
			}
			return true
		})
		for _, d := range f.Decls {
			fd, ok := d.(*ast.FuncDecl)
			if !ok || fd.Body == nil || fd.Type.TypeParams != nil || fd.Name.Name == "init" || fd.Name.Name == "main" || len(fd.Body.List) < 2 {
				continue
			}
			okSig := true
			var args []string
			for _, p := range fd.Type.Params.List {
				if len(p.Names) == 0 {
					okSig = false
				}
				if _, isVar := p.Type.(*ast.Ellipsis); isVar {
					okSig = false
				}
				for _, nm := range p.Names {
					if nm.Name == "_" {
						okSig = false
					}
					args = append(args, nm.Name)
				}
			}
			recv := ""
			if fd.Recv != nil {
				if len(fd.Recv.List) != 1 || len(fd.Recv.List[0].Names) != 1 || fd.Recv.List[0].Names[0].Name == "_" {
					okSig = false
				} else {
					rt := fd.Recv.List[0].Type
					if st, isStar := rt.(*ast.StarExpr); isStar {
						rt = st.X
					}
					if _, plain := rt.(*ast.Ident); !plain {
						okSig = false
					}
					recv = fd.Recv.List[0].Names[0].Name
				}
			}
			if !okSig || !pick(key(fd)) {
				continue
			}
			r := []rune(fd.Name.Name)
			r[0] = unicode.ToLower(r[0])
			inner := string(r) + "Body"
			if fd.Recv != nil {
				// method sets are per type; the suffix keeps it clear of fields and methods alike
				inner += "M"
			}
			for used[inner] {
				inner += "x"
			}
			call := inner + "(" + strings.Join(args, ", ") + ")"
			if recv != "" {
				call = recv + "." + call
			}
			if fd.Type.Results != nil && len(fd.Type.Results.List) > 0 {
				call = "return " + call
			}
			sig := string(src[off(fd.Type.Params.Pos()):off(fd.Body.Lbrace)])
			head := "func "
			if fd.Recv != nil {
				head += txt(fd.Recv) + " "
			}
			body := txt(fd.Body)
			eds = append(eds, edit{off(fd.Body.Pos()), off(fd.Body.End()), "{\n" + call + "\n}\n\n" + head + inner + sig + body})
		}
	default:
		fmt.Fprintln(os.Stderr, "unknown transformation", *tr)
		os.Exit(2)
	}
	return eds
}

// typed transformations: renaming of unexported package-level functions,
// methods and fields (test files included, so that the suite still builds).
func typed() {
	cfg := &packages.Config{Mode: packages.LoadSyntax, Dir: *dir, Tests: true}
	pkgs, err := packages.Load(cfg, "./...")
	if err != nil {
		fmt.Fprintln(os.Stderr, err)
		os.Exit(2)
	}
	type loc struct {
		file string
		off  int
	}
	// definitions to rename, keyed by definition position
	chosen := map[loc]string{}
	ifaceNames := map[string]bool{}
	for _, p := range pkgs {
		for _, f := range p.Syntax {
			ast.Inspect(f, func(n ast.Node) bool {
				if it, ok := n.(*ast.InterfaceType); ok && it.Methods != nil {
					for _, m := range it.Methods.List {
						for _, nm := range m.Names {
							ifaceNames[nm.Name] = true
						}
					}
				}
				return true
			})
		}
	}
	posOf := func(p *packages.Package, pos token.Pos) loc {
		ps := p.Fset.Position(pos)
		return loc{ps.Filename, ps.Offset}
	}
	for _, p := range pkgs {
		for id, obj := range p.TypesInfo.Defs {
			if obj == nil || obj.Pkg() == nil || ast.IsExported(id.Name) || id.Name == "_" || id.Name == "init" || id.Name == "main" {
				continue
			}
			if strings.HasSuffix(p.Fset.Position(id.Pos()).Filename, "_test.go") {
				continue
			}
			okKind := false
			switch o := obj.(type) {
			case *types.Func:
				okKind = !ifaceNames[id.Name]
				if strings.HasPrefix(id.Name, "Test") {
					okKind = false
				}
				_ = o
			case *types.Var:
				okKind = o.IsField() && !o.Embedded()
			}
			if !okKind || !pick(fmt.Sprintf("%s.%s", obj.Pkg().Path(), id.Name)) {
				continue
			}
			chosen[posOf(p, obj.Pos())] = id.Name + "Q"
		}
	}
	edits := map[string]map[int]edit{}
	add := func(l loc, oldLen int, text string) {
		if edits[l.file] == nil {
			edits[l.file] = map[int]edit{}
		}
		edits[l.file][l.off] = edit{l.off, l.off + oldLen, text}
	}
	for _, p := range pkgs {
		for id, obj := range p.TypesInfo.Defs {
			if obj == nil {
				continue
			}
			if nn, ok := chosen[posOf(p, obj.Pos())]; ok {
				add(posOf(p, id.Pos()), len(id.Name), nn)
			}
		}
		for id, obj := range p.TypesInfo.Uses {
			o := obj
			if f, ok := o.(*types.Func); ok && f.Origin() != nil {
				o = f.Origin()
			}
			if v, ok := o.(*types.Var); ok && v.Origin() != nil {
				o = v.Origin()
			}
			if nn, ok := chosen[posOf(p, o.Pos())]; ok {
				add(posOf(p, id.Pos()), len(id.Name), nn)
			}
		}
		// keyed composite literals of struct types record the field in Uses as well
	}
	total := 0
	for file, m := range edits {
		src, err := os.ReadFile(file)
		if err != nil {
			continue
		}
		var es []edit
		for _, e := range m {
			es = append(es, e)
		}
		sort.Slice(es, func(i, j int) bool { return es[i].start > es[j].start })
		out := string(src)
		for _, e := range es {
			out = out[:e.start] + e.text + out[e.end:]
		}
		fm, err := format.Source([]byte(out))
		if err != nil {
			fmt.Fprintf(os.Stderr, "mechrf: %s: %v\n", file, err)
			continue
		}
		os.WriteFile(file, fm, 0o644)
		total += len(es)
	}
	fmt.Printf("mechrf rename seed=%d: %d definitions, %d identifiers rewritten\n", *seed, len(chosen), total)
}

// typed2: transformations that introduce small methods: lockwrap replaces
// x.mu.Lock() / x.mu.Unlock() by x.lockMuQ() / x.unlockMuQ(); getter replaces
// reads of an unexported field x.f (pointer, interface, map, slice, channel,
// function or basic type) by x.getFQ().
func typed2() {
	cfg := &packages.Config{Mode: packages.LoadSyntax, Dir: *dir, Tests: false}
	pkgs, err := packages.Load(cfg, "./...")
	if err != nil {
		fmt.Fprintln(os.Stderr, err)
		os.Exit(2)
	}
	total := 0
	for _, p := range pkgs {
		if len(p.Errors) > 0 {
			continue
		}
		type need struct {
			named *types.Named
			field *types.Var
			kind  string // lock, unlock, get
		}
		needs := map[string]need{}
		edits := map[string][]edit{}
		declFile := map[*types.Named]string{}
		for _, f := range p.Syntax {
			fn := p.Fset.Position(f.Pos()).Filename
			for _, d := range f.Decls {
				gd, ok := d.(*ast.GenDecl)
				if !ok {
					continue
				}
				for _, sp := range gd.Specs {
					if ts, ok := sp.(*ast.TypeSpec); ok && ts.TypeParams == nil {
						if o := p.TypesInfo.Defs[ts.Name]; o != nil {
							if n, ok := o.Type().(*types.Named); ok {
								declFile[n] = fn
							}
						}
					}
				}
			}
		}
		ownerOf := func(e ast.Expr) *types.Named {
			t := p.TypesInfo.TypeOf(e)
			if t == nil {
				return nil
			}
			if pt, ok := t.(*types.Pointer); ok {
				t = pt.Elem()
			}
			n, ok := types.Unalias(t).(*types.Named)
			if !ok || n.Obj().Pkg() != p.Types || declFile[n] == "" || n.TypeParams().Len() != 0 {
				return nil
			}
			if _, isStruct := n.Underlying().(*types.Struct); !isStruct {
				return nil
			}
			return n
		}
		addressable := func(e ast.Expr) bool {
			// x.f with x a pointer, or an addressable variable
			t := p.TypesInfo.TypeOf(e)
			if _, ok := t.(*types.Pointer); ok {
				return true
			}
			if id, ok := e.(*ast.Ident); ok {
				_, isVar := p.TypesInfo.Uses[id].(*types.Var)
				return isVar
			}
			return false
		}
		up := func(s string) string { return strings.ToUpper(s[:1]) + s[1:] }
		for _, f := range p.Syntax {
			fn := p.Fset.Position(f.Pos()).Filename
			if strings.HasSuffix(fn, "_test.go") {
				continue
			}
			off := func(ps token.Pos) int { return p.Fset.Position(ps).Offset }
			var stack []ast.Node
			ast.Inspect(f, func(n ast.Node) bool {
				if n == nil {
					stack = stack[:len(stack)-1]
					return true
				}
				stack = append(stack, n)
				switch *tr {
				case "lockwrap":
					call, ok := n.(*ast.CallExpr)
					if !ok || len(call.Args) != 0 {
						return true
					}
					sel, ok := call.Fun.(*ast.SelectorExpr)
					if !ok || (sel.Sel.Name != "Lock" && sel.Sel.Name != "Unlock") {
						return true
					}
					inner, ok := sel.X.(*ast.SelectorExpr)
					if !ok {
						return true
					}
					fv, ok := p.TypesInfo.Uses[inner.Sel].(*types.Var)
					if !ok || !fv.IsField() || (fv.Type().String() != "sync.Mutex" && fv.Type().String() != "*sync.Mutex") {
						return true
					}
					owner := ownerOf(inner.X)
					if owner == nil || !addressable(inner.X) {
						return true
					}
					if !pick(fmt.Sprintf("%s:%d", fn, off(call.Pos()))) {
						return true
					}
					kind := strings.ToLower(sel.Sel.Name)
					name := kind + up(fv.Name()) + "Q"
					needs[owner.Obj().Name()+"."+name] = need{owner, fv, kind}
					edits[fn] = append(edits[fn], edit{off(inner.X.End()), off(sel.End()), "." + name})
				case "rangeidx":
					rs, ok := n.(*ast.RangeStmt)
					if !ok || rs.Tok != token.DEFINE || rs.Key == nil {
						return true
					}
					xid, ok := rs.X.(*ast.Ident)
					if !ok {
						return true
					}
					if _, isSlice := p.TypesInfo.TypeOf(rs.X).Underlying().(*types.Slice); !isSlice {
						return true
					}
					xobj := p.TypesInfo.Uses[xid]
					if _, isVar := xobj.(*types.Var); !isVar || xobj.Parent() == p.Types.Scope() {
						return true
					}
					kid, _ := rs.Key.(*ast.Ident)
					if kid == nil {
						return true
					}
					var vid *ast.Ident
					if rs.Value != nil {
						vid, _ = rs.Value.(*ast.Ident)
						if vid == nil {
							return true
						}
					}
					// the sliced variable and the key must not be written (or have their address
					// taken) in the body
					bad := false
					keyObj := p.TypesInfo.Defs[kid]
					ast.Inspect(rs.Body, func(m ast.Node) bool {
						touch := func(e ast.Expr) {
							if id, ok := e.(*ast.Ident); ok {
								if o := p.TypesInfo.Uses[id]; o != nil && (o == xobj || (keyObj != nil && o == keyObj)) {
									bad = true
								}
							}
						}
						switch st := m.(type) {
						case *ast.AssignStmt:
							for _, l := range st.Lhs {
								touch(l)
							}
						case *ast.IncDecStmt:
							touch(st.X)
						case *ast.UnaryExpr:
							if st.Op == token.AND {
								touch(st.X)
							}
						}
						return true
					})
					// (the value variable must not be declared again at the top of the body: `t := t`)
					for _, st := range rs.Body.List {
						if as, ok := st.(*ast.AssignStmt); ok && as.Tok == token.DEFINE {
							for _, l := range as.Lhs {
								if id, ok := l.(*ast.Ident); ok && ((vid != nil && id.Name == vid.Name) || id.Name == kid.Name) {
									bad = true
								}
							}
						}
					}
					if bad || !pick(fmt.Sprintf("%s:%d", fn, off(rs.Pos()))) {
						return true
					}
					key := kid.Name
					if key == "_" {
						key = fmt.Sprintf("iQ%d", off(rs.Pos()))
					}
					head := fmt.Sprintf("for %s := 0; %s < len(%s); %s++ {", key, key, xid.Name, key)
					if vid != nil && vid.Name != "_" {
						head += fmt.Sprintf("\n%s := %s[%s]", vid.Name, xid.Name, key)
					}
					edits[fn] = append(edits[fn], edit{off(rs.Pos()), off(rs.Body.Lbrace) + 1, head})
				case "getter":
					sel, ok := n.(*ast.SelectorExpr)
					if !ok {
						return true
					}
					fv, ok := p.TypesInfo.Uses[sel.Sel].(*types.Var)
					if !ok || !fv.IsField() || fv.Exported() || fv.Embedded() {
						return true
					}
					switch u := fv.Type().(type) {
					case *types.Pointer, *types.Map, *types.Slice, *types.Chan, *types.Signature, *types.Basic:
					case *types.Named:
						if _, isI := u.Underlying().(*types.Interface); !isI {
							return true
						}
					default:
						return true
					}
					owner := ownerOf(sel.X)
					if owner == nil || len(stack) < 2 {
						return true
					}
					// rvalue only
					switch par := stack[len(stack)-2].(type) {
					case *ast.AssignStmt:
						for _, l := range par.Lhs {
							if l == ast.Expr(sel) {
								return true
							}
						}
					case *ast.IncDecStmt:
						return true
					case *ast.UnaryExpr:
						if par.Op == token.AND {
							return true
						}
					case *ast.KeyValueExpr:
						if par.Key == ast.Expr(sel) {
							return true
						}
					case *ast.RangeStmt:
						if par.Key == ast.Expr(sel) || par.Value == ast.Expr(sel) {
							return true
						}
					case *ast.SelectorExpr:
						if _, isBasic := fv.Type().(*types.Basic); isBasic {
							return true
						}
					}
					// not inside the getter-to-be's own type declaration or a method value context
					if !pick(fmt.Sprintf("%s:%d", fn, off(sel.Pos()))) {
						return true
					}
					name := "get" + up(fv.Name()) + "Q"
					needs[owner.Obj().Name()+"."+name] = need{owner, fv, "get"}
					edits[fn] = append(edits[fn], edit{off(sel.X.End()), off(sel.End()), "." + name + "()"})
				}
				return true
			})
		}
		// method declarations
		keys := make([]string, 0, len(needs))
		for k := range needs {
			keys = append(keys, k)
		}
		sort.Strings(keys)
		adds := map[string]string{}
		qual := func(o *types.Package) string {
			if o == p.Types {
				return ""
			}
			return o.Name()
		}
		for _, k := range keys {
			nd := needs[k]
			tn := nd.named.Obj().Name()
			name := k[strings.Index(k, ".")+1:]
			var src string
			switch nd.kind {
			case "lock":
				src = fmt.Sprintf("\nfunc (x *%s) %s() { x.%s.Lock() }\n", tn, name, nd.field.Name())
			case "unlock":
				src = fmt.Sprintf("\nfunc (x *%s) %s() { x.%s.Unlock() }\n", tn, name, nd.field.Name())
			case "get":
				src = fmt.Sprintf("\nfunc (x *%s) %s() %s { return x.%s }\n", tn, name, types.TypeString(nd.field.Type(), qual), nd.field.Name())
			}
			adds[declFile[nd.named]] += src
		}
		files := map[string]bool{}
		for fn := range edits {
			files[fn] = true
		}
		for fn := range adds {
			files[fn] = true
		}
		for fn := range files {
			src, err := os.ReadFile(fn)
			if err != nil {
				continue
			}
			es := edits[fn]
			sort.Slice(es, func(i, j int) bool { return es[i].start < es[j].start })
			var keep []edit
			last := -1
			for _, e := range es {
				if e.start < last {
					continue
				}
				keep = append(keep, e)
				last = e.end
			}
			out := string(src)
			for i := len(keep) - 1; i >= 0; i-- {
				e := keep[i]
				out = out[:e.start] + e.text + out[e.end:]
			}
			out += adds[fn]
			fm, err := format.Source([]byte(out))
			if err != nil {
				fmt.Fprintf(os.Stderr, "mechrf: %s: %v\n", fn, err)
				continue
			}
			os.WriteFile(fn, fm, 0o644)
			total += len(keep)
		}
	}
	fmt.Printf("mechrf %s seed=%d: %d sites rewritten\n", *tr, *seed, total)
}
