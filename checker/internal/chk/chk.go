// Package chk records obligations and writes evidence.
package chk

import (
	"encoding/json"
	"fmt"
	"go/token"
	"os"
	"path/filepath"
	"sort"
	"strings"
	"time"

	"golang.org/x/tools/go/ssa"

	"jrpcvet/internal/facts"
	"jrpcvet/internal/ir"
)

type Status string

const (
	OK        Status = "ok"
	Violation Status = "violation"
	Undecided Status = "undecided"
)

// Obligation is one rule instance evaluated on the current tree.
type Obligation struct {
	Rule       string `json:"rule"`
	Clause     string `json:"clause,omitempty"` // e.g. "C10-D1"
	Func       string `json:"func"`
	Construct  string `json:"construct"`
	Site       string `json:"site"`
	Status     Status `json:"status"`
	Detail     string `json:"detail"`
	Nontrivial bool   `json:"nontrivial"`
}

// Key identifies a violation independent of line numbers.
func (o Obligation) Key() string { return o.Rule + "|" + o.Func + "|" + o.Construct }

// Ctx is handed to every rule.
type Ctx struct {
	P      *ir.Prog
	F      *facts.Analysis
	M      *Model
	Obs    []Obligation
	clause string
	floors []floor
}

type floor struct {
	rule string
	n    int
	why  string
}

// Clause sets the clause label attached to subsequent obligations.
func (c *Ctx) Clause(s string) { c.clause = s }

func (c *Ctx) record(st Status, rule string, fn *ssa.Function, construct string, pos token.Pos, nontrivial bool, format string, args ...any) {
	fname := "-"
	if fn != nil {
		fname = ir.Name(fn)
	}
	site := "-"
	if pos.IsValid() {
		site = c.P.Pos(pos)
	} else if fn != nil {
		site = c.P.Pos(fn.Pos())
	}
	c.Obs = append(c.Obs, Obligation{Rule: rule, Clause: c.clause, Func: fname, Construct: construct, Site: site,
		Status: st, Detail: fmt.Sprintf(format, args...), Nontrivial: nontrivial})
}

// Pass records a discharged obligation that needed a dataflow/dominance/
// provenance argument.
func (c *Ctx) Pass(rule string, fn *ssa.Function, construct string, pos token.Pos, format string, args ...any) {
	c.record(OK, rule, fn, construct, pos, true, format, args...)
}

// Exists records a discharged obligation that is a bare existence/shape check.
func (c *Ctx) Exists(rule string, fn *ssa.Function, construct string, pos token.Pos, format string, args ...any) {
	c.record(OK, rule, fn, construct, pos, false, format, args...)
}

func (c *Ctx) Fail(rule string, fn *ssa.Function, construct string, pos token.Pos, format string, args ...any) {
	c.record(Violation, rule, fn, construct, pos, true, format, args...)
}

func (c *Ctx) Undecided(rule string, fn *ssa.Function, construct string, pos token.Pos, format string, args ...any) {
	c.record(Undecided, rule, fn, construct, pos, true, format, args...)
}

// Check records Pass when ok, otherwise Fail.
func (c *Ctx) Check(ok bool, rule string, fn *ssa.Function, construct string, pos token.Pos, okDetail, failDetail string) bool {
	if ok {
		c.Pass(rule, fn, construct, pos, "%s", okDetail)
	} else {
		c.Fail(rule, fn, construct, pos, "%s", failDetail)
	}
	return ok
}

// Floor demands at least n obligations of the rule (prefix match on rule
// name), whatever their status, so that a rule which found nothing cannot
// pass vacuously.
func (c *Ctx) Floor(rule string, n int, why string) { c.floors = append(c.floors, floor{rule, n, why}) }

// Finish evaluates floors.
func (c *Ctx) Finish() {
	for _, fl := range c.floors {
		cnt := 0
		for _, o := range c.Obs {
			if o.Rule == fl.rule || strings.HasPrefix(o.Rule, fl.rule+".") || strings.HasPrefix(o.Rule, fl.rule+"/") {
				cnt++
			}
		}
		if cnt < fl.n {
			c.clause = ""
			c.record(Undecided, "FLOOR", nil, fl.rule, token.NoPos, false,
				"rule %s matched %d instance(s), fewer than the %d confirmed by hand (%s): the rule has gone blind or the code it anchors in is gone", fl.rule, cnt, fl.n, fl.why)
		}
	}
}

// ---------------------------------------------------------------------------
// Known findings

type KnownFinding struct {
	Property string `json:"property"`
	Key      string `json:"key"`  // rule|func|construct
	What     string `json:"what"` // what fails: input / call site / history
}

type KnownFile struct {
	Findings []KnownFinding `json:"findings"`
	Fixed    []string       `json:"fixed"`
}

func LoadKnown(path string) (*KnownFile, error) {
	b, err := os.ReadFile(path)
	if err != nil {
		return nil, err
	}
	var k KnownFile
	if err := json.Unmarshal(b, &k); err != nil {
		return nil, err
	}
	return &k, nil
}

// ---------------------------------------------------------------------------
// Evidence

type Evidence struct {
	PropertyID  string         `json:"property_id"`
	Tier        string         `json:"tier"`
	Seed        int            `json:"seed"`
	Level       string         `json:"level"`
	Coverage    map[string]any `json:"coverage"`
	Assumptions []string       `json:"assumptions"`
	WallS       float64        `json:"wall_s"`
	Violations  int            `json:"violations"`
}

type Result struct {
	Property    string
	Tier        string
	Seed        int
	Obs         []Obligation
	Explanation string
	NotDecided  []string
	Assumptions []string
	RuleText    string
	Extra       map[string]any
	Start       time.Time
	Funcs       int
	Configs     []string
}

// Report prints the outcome, writes evidence, and returns the exit code.
func Report(r *Result, known *KnownFile, evidencePath string, verbose bool) int {
	sort.SliceStable(r.Obs, func(i, j int) bool {
		if r.Obs[i].Clause != r.Obs[j].Clause {
			return r.Obs[i].Clause < r.Obs[j].Clause
		}
		return r.Obs[i].Rule < r.Obs[j].Rule
	})
	knownKeys := map[string]KnownFinding{}
	if known != nil {
		for _, k := range known.Findings {
			if k.Property == r.Property {
				knownKeys[k.Key] = k
			}
		}
	}
	var viol, knownHit []Obligation
	discharged, nontriv := 0, map[string]bool{}
	for _, o := range r.Obs {
		switch o.Status {
		case OK:
			discharged++
		default:
			if _, ok := knownKeys[o.Key()]; ok && o.Status == Violation {
				knownHit = append(knownHit, o)
			} else {
				viol = append(viol, o)
			}
		}
		if o.Nontrivial {
			nontriv[o.Key()] = true
		}
		if verbose {
			fmt.Printf("  [%s] %-9s %-22s %s  %s :: %s — %s\n", o.Clause, o.Status, o.Rule, o.Site, o.Func, o.Construct, o.Detail)
		}
	}
	seenK := map[string]bool{}
	for _, o := range knownHit {
		if !seenK[o.Key()] {
			seenK[o.Key()] = true
			fmt.Printf("KNOWN-FINDING: property=%s %s %s\n", r.Property, o.Key(), knownKeys[o.Key()].What)
		}
	}
	var samples []any
	step := 1
	if len(r.Obs) > 12 {
		step = len(r.Obs) / 12
	}
	for i := 0; i < len(r.Obs); i += step {
		samples = append(samples, r.Obs[i])
	}
	for _, o := range viol {
		samples = append(samples, o)
	}
	perClause := map[string]int{}
	for _, o := range r.Obs {
		perClause[o.Clause]++
	}
	cov := map[string]any{
		"explanation":         r.Explanation,
		"not_decided":         r.NotDecided,
		"obligations":         len(r.Obs),
		"discharged":          discharged,
		"evaluations":         len(r.Obs),
		"distinct_nontrivial": len(nontriv),
		"rule":                r.RuleText,
		"samples":             samples,
		"functions_analysed":  r.Funcs,
		"configs":             r.Configs,
		"per_clause":          perClause,
		"known_findings_hit":  len(seenK),
		"checker_cmd":         "bin/jrpcvet -property " + r.Property + " -tier " + r.Tier,
		"trusted_base":        []string{"go/types", "go/ssa", "go/packages (golang.org/x/tools v0.29.0)", "jrpcvet rules"},
		"exhaustive":          false,
	}
	for k, v := range r.Extra {
		cov[k] = v
	}
	ev := Evidence{PropertyID: r.Property, Tier: r.Tier, Seed: r.Seed, Level: "other", Coverage: cov,
		Assumptions: r.Assumptions, WallS: time.Since(r.Start).Seconds(), Violations: len(viol)}
	if evidencePath != "" {
		os.MkdirAll(filepath.Dir(evidencePath), 0o755)
		b, _ := json.MarshalIndent(ev, "", " ")
		if err := os.WriteFile(evidencePath, append(b, '\n'), 0o644); err != nil {
			fmt.Println("cannot write evidence:", err)
			return 2
		}
	}
	fmt.Printf("property=%s tier=%s obligations=%d discharged=%d violations=%d known=%d functions=%d wall=%.1fs\n",
		r.Property, r.Tier, len(r.Obs), discharged, len(viol), len(seenK), r.Funcs, time.Since(r.Start).Seconds())
	if len(viol) == 0 {
		return 0
	}
	// replay file
	replay := strings.TrimSuffix(evidencePath, ".json") + ".violations.txt"
	if evidencePath == "" {
		replay = filepath.Join(os.TempDir(), r.Property+".violations.txt")
	}
	var sb strings.Builder
	for _, o := range viol {
		tag := "VIOLATED"
		if o.Status == Undecided {
			tag = "UNDECIDED"
		}
		line := fmt.Sprintf("%s %s [%s] %s in %s :: %s — %s\n    key: %s\n", tag, o.Site, o.Clause, o.Rule, o.Func, o.Construct, o.Detail, o.Key())
		sb.WriteString(line)
		fmt.Print(line)
	}
	os.WriteFile(replay, []byte(sb.String()), 0o644)
	fmt.Printf("VIOLATION property=%s replay=%s\n", r.Property, replay)
	return 1
}
