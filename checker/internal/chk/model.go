package chk

import (
	"fmt"
	"go/types"
	"reflect"
	"strings"
	"sync"

	"golang.org/x/tools/go/ssa"

	"jrpcvet/internal/facts"
	"jrpcvet/internal/ir"
	"jrpcvet/internal/load"
)

// Model is the resolved set of anchors: state fields found by type and role
// (name only as a tie-break), so renaming a field does not blind the checker.
type Model struct {
	Pkg, ChanPkg, HandlerPkg, JhttpPkg, ServerPkg *ssa.Package

	Server, Client, Response, Jmessage, Task, ErrorT, Request *types.Named

	// Server fields
	SMu, SCh, SErr, SWork, SInq, SUsed, SCall, SCallID, SWg, SNbar, SSem, SMux, SAllowP, SBuiltin *types.Var
	// Client fields
	CMu, CCh, CErr, CPending, CNextID, CDone, CCbctx, CCbcancel, CChook, CShook, CScall, CSnote *types.Var
	// Response fields
	RCh, RCancel, RID, RErr, RResult *types.Var
	// jmessage fields
	JID, JM, JP, JE, JR, JBatch, JErr, JV *types.Var
	// task fields
	TM, TCtx, THreq, TBatch, TVal, TErr *types.Var
	// Request fields
	QID, QMethod, QParams *types.Var

	Problems []string
	Scoped   []string // anchor problems that concern a single rule family; reported by that family
}

func (m *Model) problem(format string, args ...any) {
	m.Problems = append(m.Problems, fmt.Sprintf(format, args...))
}

func typeStr(t types.Type) string {
	return types.TypeString(t, func(p *types.Package) string { return p.Path() })
}

func (m *Model) named(pkg *ssa.Package, name string) *types.Named {
	if pkg == nil {
		return nil
	}
	o := pkg.Pkg.Scope().Lookup(name)
	if o == nil {
		m.problem("type %s.%s not found", pkg.Pkg.Name(), name)
		return nil
	}
	n, ok := types.Unalias(o.Type()).(*types.Named)
	if !ok {
		m.problem("%s.%s is not a named type", pkg.Pkg.Name(), name)
		return nil
	}
	return n
}

// field finds the unique field of n whose type string satisfies pred; with
// several candidates the preferred name breaks the tie.
func (m *Model) field(n *types.Named, role string, prefer string, pred func(t types.Type, s string) bool) *types.Var {
	if n == nil {
		return nil
	}
	st, ok := n.Underlying().(*types.Struct)
	if !ok {
		m.problem("%s is not a struct", n.Obj().Name())
		return nil
	}
	var cands []*types.Var
	for i := 0; i < st.NumFields(); i++ {
		f := st.Field(i)
		if pred(f.Type(), typeStr(f.Type())) {
			cands = append(cands, f)
			continue
		}
		// a named non-struct type of the same package standing for the type looked for
		// (`type reservations map[string]context.CancelFunc`, with methods)
		if nt, ok := types.Unalias(f.Type()).(*types.Named); ok && nt.Obj().Pkg() == n.Obj().Pkg() {
			if _, isStruct := nt.Underlying().(*types.Struct); !isStruct && pred(nt.Underlying(), typeStr(nt.Underlying())) {
				cands = append(cands, f)
			}
		}
	}
	if len(cands) == 1 {
		return cands[0]
	}
	for _, c := range cands {
		if c.Name() == prefer {
			return c
		}
	}
	if len(cands) == 0 {
		// one level down: the state may live in a field of an unexported helper struct of the
		// same package (a table, gate or barrier type wrapping the map / flag / WaitGroup)
		var inner []*types.Var
		var owners []*types.Named
		for _, hf := range helperFields(n) {
			hst := hf.named.Underlying().(*types.Struct)
			for i := 0; i < hst.NumFields(); i++ {
				f := hst.Field(i)
				if pred(f.Type(), typeStr(f.Type())) {
					inner = append(inner, f)
					owners = append(owners, hf.named)
				}
			}
		}
		if len(inner) == 1 {
			nestedOwner.Store(inner[0], owners[0])
			return inner[0]
		}
	}
	m.problem("%s: role %q resolves to %d fields (want 1)", n.Obj().Name(), role, len(cands))
	return nil
}

// nestedOwner records, for an anchor found inside a helper struct, the helper
// type that declares it (the owner to use in access paths).
var nestedOwner sync.Map // *types.Var → *types.Named

type helperField struct {
	field *types.Var
	named *types.Named
}

// helperFields lists the fields of n whose type is (a pointer to) an unexported
// struct type declared in the same package.
func helperFields(n *types.Named) []helperField {
	st, ok := n.Underlying().(*types.Struct)
	if !ok {
		return nil
	}
	var out []helperField
	for i := 0; i < st.NumFields(); i++ {
		f := st.Field(i)
		t := f.Type()
		if p, isP := t.(*types.Pointer); isP {
			t = p.Elem()
		}
		hn, isN := types.Unalias(t).(*types.Named)
		if !isN || hn.Obj().Exported() || hn.Obj().Pkg() != n.Obj().Pkg() || hn == n {
			continue
		}
		if _, isS := hn.Underlying().(*types.Struct); isS {
			out = append(out, helperField{f, hn})
		}
	}
	return out
}

func isType(want ...string) func(types.Type, string) bool {
	return func(_ types.Type, s string) bool {
		for _, w := range want {
			if s == w {
				return true
			}
		}
		return false
	}
}

func hasPrefix(p string) func(types.Type, string) bool {
	return func(_ types.Type, s string) bool { return strings.HasPrefix(s, p) }
}

// Resolve builds the model.
func Resolve(p *ir.Prog) *Model {
	m := &Model{}
	mp := load.ModulePath
	m.Pkg, m.ChanPkg, m.HandlerPkg, m.JhttpPkg, m.ServerPkg = p.SSA[mp], p.SSA[mp+"/channel"], p.SSA[mp+"/handler"], p.SSA[mp+"/jhttp"], p.SSA[mp+"/server"]
	m.Server = m.named(m.Pkg, "Server")
	m.Client = m.named(m.Pkg, "Client")
	m.Response = m.named(m.Pkg, "Response")
	m.Jmessage = m.named(m.Pkg, "jmessage")
	m.Task = m.named(m.Pkg, "task")
	m.ErrorT = m.named(m.Pkg, "Error")
	m.Request = m.named(m.Pkg, "Request")

	chanT := mp + "/channel.Channel"
	respMap := "map[string]*" + mp + ".Response"
	mutex := isType("sync.Mutex", "*sync.Mutex")
	wgT := isType("sync.WaitGroup", "*sync.WaitGroup")

	s := m.Server
	m.SMu = m.field(s, "mutex", "mu", mutex)
	m.SCh = m.field(s, "channel", "ch", isType(chanT))
	m.SErr = m.field(s, "stop cause", "err", isType("error"))
	m.SWork = m.field(s, "work signal", "work", isType("chan struct{}"))
	m.SInq = m.field(s, "inbound queue", "inq", hasPrefix("github.com/creachadair/mds/queue.Queue["))
	m.SUsed = m.field(s, "in-flight id table", "used", isType("map[string]context.CancelFunc"))
	m.SCall = m.field(s, "callback table", "call", isType(respMap))
	m.SCallID = m.field(s, "callback id counter", "callID", isType("int64"))
	// the semaphore matters to the concurrency-limit rules only: a failure to resolve it is
	// reported there (Scoped), not by every property
	nprob := len(m.Problems)
	m.SSem = m.field(s, "semaphore", "sem", isType("*golang.org/x/sync/semaphore.Weighted"))
	if len(m.Problems) > nprob {
		m.Scoped = append(m.Scoped, m.Problems[nprob:]...)
		m.Problems = m.Problems[:nprob]
	}
	m.SMux = m.field(s, "assigner", "mux", isType(mp+".Assigner"))
	// two bools: told apart by name (tie-break only)
	// two bools, told apart by where their value comes from: the constructor fills them from
	// option accessors that read the exported options AllowPush and DisableBuiltin
	m.SAllowP = boolFieldFromOption(p, s, "AllowPush")
	m.SBuiltin = boolFieldFromOption(p, s, "DisableBuiltin")
	if m.SAllowP == nil {
		m.SAllowP = m.fieldNamed(s, "allowP", "bool")
	}
	if m.SBuiltin == nil {
		m.SBuiltin = m.fieldNamed(s, "builtin", "bool")
	}
	// two WaitGroups: the lifetime group is the one waited on in an exported method
	if s != nil {
		var wgs []*types.Var
		st := s.Underlying().(*types.Struct)
		for i := 0; i < st.NumFields(); i++ {
			if wgT(nil, typeStr(st.Field(i).Type())) {
				wgs = append(wgs, st.Field(i))
			}
		}
		for _, hf := range helperFields(s) {
			hst := hf.named.Underlying().(*types.Struct)
			for i := 0; i < hst.NumFields(); i++ {
				if wgT(nil, typeStr(hst.Field(i).Type())) {
					wgs = append(wgs, hst.Field(i))
					nestedOwner.Store(hst.Field(i), hf.named)
				}
			}
		}
		for _, w := range wgs {
			if waitedInExported(p, w) {
				if m.SWg != nil {
					m.problem("Server: two WaitGroups waited on in exported methods")
				}
				m.SWg = w
			} else {
				if m.SNbar != nil {
					m.problem("Server: two WaitGroups not waited on in exported methods")
				}
				m.SNbar = w
			}
		}
		if m.SWg == nil || m.SNbar == nil {
			m.problem("Server: lifetime WaitGroup / notification barrier not resolved (%d WaitGroup fields)", len(wgs))
		}
	}

	c := m.Client
	m.CMu = m.field(c, "mutex", "mu", mutex)
	m.CCh = m.field(c, "channel", "ch", isType(chanT))
	m.CErr = m.field(c, "stop cause", "err", isType("error"))
	m.CPending = m.field(c, "pending table", "pending", isType(respMap))
	m.CNextID = m.field(c, "id counter", "nextID", isType("int64"))
	m.CDone = m.field(c, "lifetime WaitGroup", "done", wgT)
	m.CCbctx = m.field(c, "callback context", "cbctx", isType("context.Context"))
	m.CCbcancel = m.field(c, "callback cancel", "cbcancel", isType("context.CancelFunc"))
	m.CChook = m.field(c, "cancel hook", "chook", isType("func(*"+mp+".Client, *"+mp+".Response)"))
	m.CShook = m.field(c, "stop hook", "shook", isType("func(*"+mp+".Client, error)"))
	m.CScall = m.field(c, "callback handler", "scall", isType("func(context.Context, *"+mp+".jmessage) []byte"))
	m.CSnote = m.field(c, "notification handler", "snote", isType("func(*"+mp+".jmessage)"))

	r := m.Response
	m.RCh = m.field(r, "slot", "ch", isType("chan *"+mp+".jmessage"))
	m.RCancel = m.field(r, "cancel", "cancel", isType("func()"))
	m.RID = m.field(r, "id", "id", isType("string"))
	m.RErr = m.field(r, "error", "err", isType("*"+mp+".Error"))
	m.RResult = m.field(r, "result", "result", isType("encoding/json.RawMessage"))

	j := m.Jmessage
	m.JID = m.fieldNamed(j, "ID", "encoding/json.RawMessage")
	m.JP = m.fieldNamed(j, "P", "encoding/json.RawMessage")
	m.JR = m.fieldNamed(j, "R", "encoding/json.RawMessage")
	m.JM = m.fieldNamed(j, "M", "string")
	m.JV = m.fieldNamed(j, "V", "string")
	m.JE = m.fieldNamed(j, "E", "*"+mp+".Error")
	// two *Error fields: the wire field E and the deferred validation error (the other one)
	m.JErr = otherField(j, m.JE, "*"+mp+".Error")
	if m.JErr == nil {
		m.JErr = m.fieldNamed(j, "err", "*"+mp+".Error")
	}
	m.JBatch = m.field(j, "batch flag", "batch", isType("bool"))

	t := m.Task
	m.TM = m.field(t, "handler", "m", isType("func(context.Context, *"+mp+".Request) (any, error)", mp+".Handler"))
	m.TCtx = m.field(t, "context", "ctx", isType("context.Context"))
	m.THreq = m.field(t, "request", "hreq", isType("*"+mp+".Request"))
	m.TBatch = m.field(t, "batch flag", "batch", isType("bool"))
	m.TVal = m.field(t, "result", "val", isType("encoding/json.RawMessage"))
	m.TErr = m.field(t, "error", "err", isType("error"))

	q := m.Request
	// two raw fields, told apart by the exported accessor that reads them
	m.QID = m.fieldReadBy(q, "(*Request).ID", "encoding/json.RawMessage")
	m.QParams = m.fieldReadBy(q, "(*Request).HasParams", "encoding/json.RawMessage")
	if m.QID == nil || m.QParams == nil || m.QID == m.QParams {
		m.QID = m.fieldNamed(q, "id", "encoding/json.RawMessage")
		m.QParams = m.fieldNamed(q, "params", "encoding/json.RawMessage")
	}
	m.QMethod = m.field(q, "method", "method", isType("string"))
	return m
}

// otherField returns the only field of n with the given type other than not.
func otherField(n *types.Named, not *types.Var, typ string) *types.Var {
	if n == nil || not == nil {
		return nil
	}
	st, ok := n.Underlying().(*types.Struct)
	if !ok {
		return nil
	}
	var out *types.Var
	for i := 0; i < st.NumFields(); i++ {
		f := st.Field(i)
		if f != not && typeStr(f.Type()) == typ {
			if out != nil {
				return nil
			}
			out = f
		}
	}
	return out
}

// fieldReadBy returns the only field of n with the given type that the named
// accessor method reads.
func (m *Model) fieldReadBy(n *types.Named, method, typ string) *types.Var {
	if n == nil {
		return nil
	}
	f := m.Func(m.Pkg, method)
	if f == nil {
		return nil
	}
	var out *types.Var
	many := false
	ir.Instrs(f, func(ins ssa.Instruction) {
		fa, ok := ins.(*ssa.FieldAddr)
		if !ok {
			return
		}
		v := ir.FieldVar(fa)
		if v == nil || ir.FieldOwner(fa) != n || typeStr(v.Type()) != typ {
			return
		}
		if out != nil && out != v {
			many = true
		}
		out = v
	})
	if many {
		return nil
	}
	return out
}

// fieldNamed resolves a field by name and checks its type (used where several
// fields share a type and only the name tells them apart).
func (m *Model) fieldNamed(n *types.Named, name, typ string) *types.Var {
	if n == nil {
		return nil
	}
	st, ok := n.Underlying().(*types.Struct)
	if !ok {
		return nil
	}
	for i := 0; i < st.NumFields(); i++ {
		f := st.Field(i)
		if f.Name() == name {
			if typeStr(f.Type()) != typ {
				m.problem("%s.%s has type %s, expected %s", n.Obj().Name(), name, typeStr(f.Type()), typ)
				return nil
			}
			return f
		}
	}
	m.problem("%s.%s not found", n.Obj().Name(), name)
	return nil
}

// boolFieldFromOption finds the bool field of owner that is stored with a value
// computed from the exported option field named option (directly, or through
// an accessor method of the options type that reads it).
func boolFieldFromOption(p *ir.Prog, owner *types.Named, option string) *types.Var {
	if owner == nil {
		return nil
	}
	st, ok := owner.Underlying().(*types.Struct)
	if !ok {
		return nil
	}
	readsOption := func(f *ssa.Function) bool {
		found := false
		ir.Instrs(f, func(ins ssa.Instruction) {
			if fa, ok := ins.(*ssa.FieldAddr); ok {
				if v := ir.FieldVar(fa); v != nil && v.Name() == option {
					found = true
				}
			}
		})
		return found
	}
	var out *types.Var
	var boolFields []*types.Var
	for i := 0; i < st.NumFields(); i++ {
		boolFields = append(boolFields, st.Field(i))
	}
	for _, hf := range helperFields(owner) {
		hst := hf.named.Underlying().(*types.Struct)
		for i := 0; i < hst.NumFields(); i++ {
			if typeStr(hst.Field(i).Type()) == "bool" {
				boolFields = append(boolFields, hst.Field(i))
				nestedOwner.Store(hst.Field(i), hf.named)
			}
		}
	}
	for _, f := range boolFields {
		if typeStr(f.Type()) != "bool" {
			continue
		}
		for _, store := range p.FieldStores(f) {
			for _, src := range p.SourcesStop(store.Val, func(v ssa.Value) bool { _, isCall := v.(*ssa.Call); return isCall }) {
				switch x := src.(type) {
				case *ssa.Call:
					if g := x.Call.StaticCallee(); g != nil && p.InRepo[g] && readsOption(g) {
						if out != nil && out != f {
							return nil
						}
						out = f
					}
				case *ssa.UnOp:
					if fa, ok := x.X.(*ssa.FieldAddr); ok {
						if v := ir.FieldVar(fa); v != nil && v.Name() == option {
							out = f
						}
					}
				}
			}
		}
	}
	return out
}

func waitedInExported(p *ir.Prog, w *types.Var) bool {
	for _, f := range p.Funcs {
		if f.Parent() != nil || !ir.Exported(f) {
			continue
		}
		found := false
		ir.Calls(f, func(ci ssa.CallInstruction) {
			if ir.IsCallTo(ci.Common(), "(*sync.WaitGroup).Wait") && len(ci.Common().Args) > 0 {
				if pth, ok := facts.PathOf(ci.Common().Args[0]); ok && pth.Field == w {
					found = true
				}
			}
		})
		if found {
			return true
		}
	}
	return false
}

// Path builds a facts.Path for a field of a named type.
func PathOfVar(n *types.Named, v *types.Var) facts.Path {
	if n == nil || v == nil {
		return facts.Path{}
	}
	if o, ok := nestedOwner.Load(v); ok {
		n = o.(*types.Named)
	}
	return facts.Path{Owner: n.Obj(), Field: v}
}

// IsField reports whether v is `&x.f` or `*(&x.f)` for field f.
func IsField(v ssa.Value, f *types.Var) bool {
	if f == nil {
		return false
	}
	p, ok := facts.PathOf(v)
	return ok && p.Field == f
}

// LoadsField reports whether v is exactly a load of field f.
func LoadsField(v ssa.Value, f *types.Var) bool {
	if f == nil {
		return false
	}
	p, ok := facts.LoadPath(v)
	if ok && p.Field == f {
		return true
	}
	// the field's value as a method of its own type sees it: when the field has a named
	// non-struct type with methods (`type reservations map[string]context.CancelFunc`), the
	// receiver of such a method is the table
	if par, isPar := v.(*ssa.Parameter); isPar {
		nt, isNamed := types.Unalias(f.Type()).(*types.Named)
		if !isNamed {
			return false
		}
		if _, isStruct := nt.Underlying().(*types.Struct); isStruct {
			return false
		}
		fn := par.Parent()
		if fn != nil && fn.Signature.Recv() != nil && len(fn.Params) > 0 && fn.Params[0] == par && types.Identical(types.Unalias(par.Type()), nt) {
			return true
		}
	}
	return false
}

// Func finds a package-level function or method by name: "encode",
// "(*Server).read". Returns nil when absent.
func (m *Model) Func(pkg *ssa.Package, name string) *ssa.Function {
	if pkg == nil {
		return nil
	}
	if strings.HasPrefix(name, "(") {
		// (*T).m or (T).m
		end := strings.Index(name, ")")
		recv := strings.TrimPrefix(name[1:end], "*")
		meth := name[end+2:]
		o := pkg.Pkg.Scope().Lookup(recv)
		if o == nil {
			return nil
		}
		for _, t := range []types.Type{o.Type(), types.NewPointer(o.Type())} {
			ms := pkg.Prog.MethodSets.MethodSet(t)
			for i := 0; i < ms.Len(); i++ {
				if ms.At(i).Obj().Name() == meth {
					if f := pkg.Prog.MethodValue(ms.At(i)); f != nil && f.Synthetic == "" {
						return ir.Resolve(f)
					} else if f != nil && f.Synthetic != "" {
						// wrapper for value-receiver method reached via pointer: unwrap
						continue
					}
				}
			}
		}
		return nil
	}
	if f := pkg.Func(name); f != nil {
		// a pure forwarder stands for the function that holds its body
		return ir.Resolve(f)
	}
	return nil
}

// AnchorNames lists the anchors of the model (its pointer-typed fields); nil
// reports those that did not resolve.
func (m *Model) AnchorNames(onlyNil bool) []string {
	var out []string
	v := reflect.ValueOf(m).Elem()
	t := v.Type()
	for i := 0; i < t.NumField(); i++ {
		f := v.Field(i)
		if f.Kind() != reflect.Ptr {
			continue
		}
		if onlyNil && !f.IsNil() {
			continue
		}
		out = append(out, t.Field(i).Name)
	}
	return out
}

// Without returns a copy of the model in which the named anchor is missing.
func (m *Model) Without(name string) *Model {
	cp := *m
	f := reflect.ValueOf(&cp).Elem().FieldByName(name)
	if f.IsValid() && f.CanSet() {
		f.Set(reflect.Zero(f.Type()))
	}
	return &cp
}
