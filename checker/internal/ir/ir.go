// Package ir holds the SSA helpers the rules share: callee resolution beyond
// static calls, caller index, dominance-implied branch conditions,
// post-dominance style path queries and backward value provenance.
package ir

import (
	"fmt"
	"go/constant"
	"go/token"
	"go/types"
	"sort"
	"strings"
	"sync"

	"golang.org/x/tools/go/ssa"

	"jrpcvet/internal/load"
)

// Prog wraps the loaded program with indices.
type Prog struct {
	*load.Program
	InRepo      map[*ssa.Function]bool
	fieldStores map[*types.Var][]*ssa.Store // stores through FieldAddr, by field
	globStores  map[*ssa.Global][]*ssa.Store
	callers     map[*ssa.Function][]Site
	goRoots     map[*ssa.Function][]*ssa.Go
	valueRef    map[*ssa.Function]bool
	Unresolved  []string // dynamic calls inside the repository that resolve to nothing known
	extCache    map[*ssa.Function][]*ssa.Function
	extSet      map[*ssa.Function]map[*ssa.Function]bool
	boundSites  map[*ssa.Function][]*ssa.MakeClosure
	forward     map[*ssa.Function]*ssa.Function // pure forwarder → the function it stands for
	exposedVia  map[*ssa.Function]bool          // reached through an exported or value-referenced forwarder
	alias       map[*ssa.Function]*ssa.Function // body → its only forwarder, whose name it goes by
}

// Site is one call/defer/go instruction that may invoke a function.
type Site struct {
	Caller *ssa.Function
	Instr  ssa.CallInstruction
}

func New(p *load.Program) *Prog {
	pr := &Prog{Program: p, InRepo: map[*ssa.Function]bool{}, fieldStores: map[*types.Var][]*ssa.Store{},
		globStores: map[*ssa.Global][]*ssa.Store{}, goRoots: map[*ssa.Function][]*ssa.Go{}}
	for _, f := range p.Funcs {
		pr.InRepo[f] = true
	}
	pr.collapseForwarders()
	for _, f := range p.Funcs {
		for _, b := range f.Blocks {
			for _, ins := range b.Instrs {
				if st, ok := ins.(*ssa.Store); ok {
					switch a := st.Addr.(type) {
					case *ssa.FieldAddr:
						if v := FieldVar(a); v != nil {
							pr.fieldStores[v] = append(pr.fieldStores[v], st)
						}
					case *ssa.Global:
						pr.globStores[a] = append(pr.globStores[a], st)
					}
				}
			}
		}
	}
	pr.buildCallers()
	pr.hideForwarders()
	if len(p.Funcs) > 0 {
		progRegistry.Store(p.Funcs[0].Prog, pr)
	}
	return pr
}

var progRegistry sync.Map // *ssa.Program → *Prog

// Forget drops p from the registry (variants analysed in one process must not accumulate).
func Forget(p *Prog) {
	if p != nil && len(p.Funcs) > 0 {
		progRegistry.Delete(p.Funcs[0].Prog)
	}
}

// ProgOf returns the indexed program a function belongs to (nil if unknown).
func ProgOf(f *ssa.Function) *Prog {
	if f == nil {
		return nil
	}
	if v, ok := progRegistry.Load(f.Prog); ok {
		return v.(*Prog)
	}
	return nil
}

// FieldVar returns the struct field object addressed by fa.
func FieldVar(fa *ssa.FieldAddr) *types.Var {
	t := fa.X.Type().Underlying()
	if p, ok := t.(*types.Pointer); ok {
		t = p.Elem().Underlying()
	}
	if st, ok := t.(*types.Struct); ok && fa.Field < st.NumFields() {
		return st.Field(fa.Field)
	}
	return nil
}

// FieldOwner returns the named struct type whose field fa addresses, or nil.
func FieldOwner(fa *ssa.FieldAddr) *types.Named {
	t := fa.X.Type()
	if p, ok := t.Underlying().(*types.Pointer); ok {
		t = p.Elem()
	}
	n, _ := types.Unalias(t).(*types.Named)
	return n
}

// FieldOwnerType is the struct type (named or not) whose field fa addresses.
func FieldOwnerType(fa *ssa.FieldAddr) types.Type {
	t := fa.X.Type()
	if p, ok := t.Underlying().(*types.Pointer); ok {
		t = p.Elem()
	}
	return t
}

// FieldStores lists every store to field v in the repository.
func (p *Prog) FieldStores(v *types.Var) []*ssa.Store { return p.fieldStores[v] }

// Name renders a function compactly and stably: "(*jrpc2.Server).read",
// "jrpc2.encode", "(*jrpc2.Server).Start$1".
func Name(f *ssa.Function) string {
	if f == nil {
		return "<nil>"
	}
	s := fnString(f)
	s = strings.ReplaceAll(s, load.ModulePath+"/", "")
	s = strings.ReplaceAll(s, load.ModulePath+".", "jrpc2.")
	s = strings.ReplaceAll(s, load.ModulePath, "jrpc2")
	return s
}

// fnString is f.String(), except that a function entered only through one
// pure forwarder (and its closures) goes by the forwarder's name: the body
// `lookupBody` of `func Lookup(..) { return lookupBody(..) }` is Lookup.
func fnString(f *ssa.Function) string {
	root := f
	for root.Parent() != nil {
		root = root.Parent()
	}
	if p := ProgOf(root); p != nil {
		if w := p.alias[root]; w != nil {
			return strings.Replace(f.String(), root.String(), w.String(), 1)
		}
	}
	return f.String()
}

// CalleeName names what a call invokes: a static callee's full name, or
// "invoke <iface>.<method>" for interface calls, or "dynamic".
func CalleeName(c *ssa.CallCommon) string {
	if c.IsInvoke() {
		return "invoke " + types.TypeString(c.Value.Type(), func(p *types.Package) string { return p.Name() }) + "." + c.Method.Name()
	}
	if g := c.StaticCallee(); g != nil {
		return FullName(g)
	}
	if b, ok := c.Value.(*ssa.Builtin); ok {
		return "builtin " + b.Name()
	}
	return "dynamic"
}

// FullName is f.String() with generic instantiation brackets removed, so
// callees can be matched exactly ("(*sync.Mutex).Lock").
func FullName(f *ssa.Function) string {
	s := fnString(f)
	if o := f.Origin(); o != nil {
		s = fnString(o)
	}
	// strip type-parameter lists of receivers: (*pkg.Queue[T]).Add
	for {
		i := strings.Index(s, "[")
		if i < 0 {
			break
		}
		depth, j := 0, i
		for ; j < len(s); j++ {
			if s[j] == '[' {
				depth++
			} else if s[j] == ']' {
				depth--
				if depth == 0 {
					break
				}
			}
		}
		if j >= len(s) {
			break
		}
		s = s[:i] + s[j+1:]
	}
	return s
}

// IsCallTo reports whether c statically calls the function with that full name.
func IsCallTo(c *ssa.CallCommon, names ...string) bool {
	g := c.StaticCallee()
	if g == nil {
		return false
	}
	n := FullName(g)
	for _, want := range names {
		if n == want {
			return true
		}
	}
	return false
}

// IsInvoke reports whether c is an interface method call of that method name.
func IsInvoke(c *ssa.CallCommon, method string) bool {
	return c.IsInvoke() && c.Method.Name() == method
}

// MethodCallName returns the method name for an invoke or for a static call
// of a method (concrete receiver), plus the receiver value.
func MethodCall(c *ssa.CallCommon) (name string, recv ssa.Value) {
	if c.IsInvoke() {
		return c.Method.Name(), c.Value
	}
	if g := c.StaticCallee(); g != nil && g.Signature.Recv() != nil && len(c.Args) > 0 {
		return BaseName(g), c.Args[0]
	}
	return "", nil
}

// ---------------------------------------------------------------------------
// Callee resolution

// Callees resolves the functions a call instruction may run, looking through
// closures returned by repository functions, local function-valued cells and
// function-typed struct fields. The bool is false when some possible callee is
// outside the analysed closure set (external function value, interface call).
func (p *Prog) Callees(ci ssa.CallInstruction) ([]*ssa.Function, bool) {
	c := ci.Common()
	if c.IsInvoke() {
		return nil, false
	}
	if g := c.StaticCallee(); g != nil {
		return []*ssa.Function{g}, true
	}
	if _, ok := c.Value.(*ssa.Builtin); ok {
		return nil, true
	}
	return p.FuncValues(c.Value)
}

// FuncValues resolves a function-typed value to the functions it may denote.
func (p *Prog) FuncValues(v ssa.Value) ([]*ssa.Function, bool) {
	complete := true
	var out []*ssa.Function
	seen := map[*ssa.Function]bool{}
	for _, s := range p.Sources(v) {
		switch x := s.(type) {
		case *ssa.Function:
			x = p.Resolve(x)
			if !seen[x] {
				seen[x] = true
				out = append(out, x)
			}
		case *ssa.MakeClosure:
			f := p.Resolve(unwrapBound(x.Fn.(*ssa.Function)))
			if !seen[f] {
				seen[f] = true
				out = append(out, f)
			}
		case *ssa.Const:
			// nil function: not callable
		default:
			complete = false
		}
	}
	return out, complete
}

// unwrapBound maps the synthetic wrapper of a bound method value (x.m used as
// a function value) to the method itself.
// UnwrapBound returns the method behind a bound-method wrapper (f itself otherwise).
func UnwrapBound(f *ssa.Function) *ssa.Function { return unwrapBound(f) }

func unwrapBound(f *ssa.Function) *ssa.Function {
	if f.Synthetic == "" || !strings.HasSuffix(f.Name(), "$bound") {
		return f
	}
	for _, b := range f.Blocks {
		for _, ins := range b.Instrs {
			if call, ok := ins.(*ssa.Call); ok {
				if g := call.Call.StaticCallee(); g != nil {
					return g
				}
			}
		}
	}
	return f
}

// CalleeThroughBound is StaticCallee that also resolves a call of a bound
// method value created in place (`x.M` used as a function value, as in
// `for v := range q.Each`): the method behind the $bound wrapper.
func CalleeThroughBound(c *ssa.CallCommon) *ssa.Function {
	if g := c.StaticCallee(); g != nil {
		return unwrapBound(g)
	}
	if mc, ok := c.Value.(*ssa.MakeClosure); ok {
		if fn, ok := mc.Fn.(*ssa.Function); ok {
			if u := unwrapBound(fn); u != fn {
				return u
			}
		}
	}
	return nil
}

// forwardTarget recognises a pure forwarder: a function whose whole body is
// `return g(params...)` (same parameters in the same order, the receiver
// included, every result returned as it is). Such a function is another name
// for g.
func forwardTarget(w *ssa.Function) *ssa.Function {
	if w.Parent() != nil || w.Synthetic != "" || len(w.Blocks) != 1 || w.TypeParams().Len() != 0 {
		return nil
	}
	ins := w.Blocks[0].Instrs
	if len(ins) < 2 {
		return nil
	}
	call, ok := ins[0].(*ssa.Call)
	if !ok || call.Call.IsInvoke() {
		return nil
	}
	g := call.Call.StaticCallee()
	if g == nil || g == w || g.Blocks == nil || g.Parent() != nil || len(call.Call.Args) != len(w.Params) || len(g.Params) != len(w.Params) {
		return nil
	}
	for i, a := range call.Call.Args {
		if a != ssa.Value(w.Params[i]) || !types.Identical(w.Params[i].Type(), g.Params[i].Type()) {
			return nil
		}
	}
	if !types.Identical(w.Signature.Results(), g.Signature.Results()) {
		return nil
	}
	ret, ok := ins[len(ins)-1].(*ssa.Return)
	if !ok {
		return nil
	}
	n := w.Signature.Results().Len()
	switch {
	case n == 0:
		if len(ins) != 2 {
			return nil
		}
	case n == 1:
		if len(ins) != 2 || len(ret.Results) != 1 || ret.Results[0] != ssa.Value(call) {
			return nil
		}
	default:
		if len(ins) != 2+n || len(ret.Results) != n {
			return nil
		}
		for i := 0; i < n; i++ {
			ex, isEx := ins[1+i].(*ssa.Extract)
			if !isEx || ex.Tuple != ssa.Value(call) || ex.Index != i || ret.Results[i] != ssa.Value(ex) {
				return nil
			}
		}
	}
	return g
}

// collapseForwarders makes pure forwarders transparent: every static call of
// a forwarder is redirected to the function it stands for, which inherits the
// forwarder's exposure (exported, or referenced as a value). Resolve maps a
// forwarder found by name to the function that holds the body.
func (p *Prog) collapseForwarders() {
	p.forward = map[*ssa.Function]*ssa.Function{}
	p.exposedVia = map[*ssa.Function]bool{}
	for _, f := range p.Funcs {
		if g := forwardTarget(f); g != nil && p.InRepo[g] {
			p.forward[f] = g
		}
	}
	if len(p.forward) == 0 {
		return
	}
	p.alias = map[*ssa.Function]*ssa.Function{}
	count := map[*ssa.Function]int{}
	for w := range p.forward {
		count[p.Resolve(w)]++
	}
	for w := range p.forward {
		// the outermost forwarder of a chain gives the name
		if g := p.Resolve(w); count[g] == 1 {
			p.alias[g] = w
		}
	}
	for _, f := range p.Funcs {
		for _, b := range f.Blocks {
			for _, ins := range b.Instrs {
				ci, ok := ins.(ssa.CallInstruction)
				if !ok || ci.Common().IsInvoke() {
					continue
				}
				if g := ci.Common().StaticCallee(); g != nil && p.forward[g] != nil && p.forward[f] == nil {
					ci.Common().Value = p.Resolve(g)
				}
			}
		}
	}
}

// hideForwarders drops the forwarders from the list of analysed functions:
// after the redirection they are names, not code.
func (p *Prog) hideForwarders() {
	if len(p.forward) == 0 {
		return
	}
	var keep []*ssa.Function
	for _, f := range p.Funcs {
		if p.forward[f] == nil {
			keep = append(keep, f)
		}
	}
	p.Funcs = keep
}

// Resolve returns the function that holds the body f stands for (f itself
// unless f is a pure forwarder).
func (p *Prog) Resolve(f *ssa.Function) *ssa.Function {
	for i := 0; i < 8 && f != nil; i++ {
		g, ok := p.forward[f]
		if !ok {
			return f
		}
		f = g
	}
	return f
}

// Resolve is Prog.Resolve for callers that hold no program.
func Resolve(f *ssa.Function) *ssa.Function {
	if p := ProgOf(f); p != nil {
		return p.Resolve(f)
	}
	return f
}

// GetterLoad sees through a pure field getter: when v is a call of a private
// method whose whole body is `return x.f` (x its receiver), the load inside
// the getter is returned in v's place (it has the same owner type and field
// as a load written at the call site would have); v itself otherwise.
func GetterLoad(v ssa.Value) ssa.Value {
	call, ok := v.(*ssa.Call)
	if !ok || call.Call.IsInvoke() {
		return v
	}
	g := call.Call.StaticCallee()
	if g == nil || g.Parent() != nil || len(g.Blocks) != 1 || g.Signature.Recv() == nil || len(g.Params) != 1 || g.Signature.Results().Len() != 1 {
		return v
	}
	ins := g.Blocks[0].Instrs
	if len(ins) != 3 {
		return v
	}
	fa, ok1 := ins[0].(*ssa.FieldAddr)
	ld, ok2 := ins[1].(*ssa.UnOp)
	ret, ok3 := ins[2].(*ssa.Return)
	if !ok1 || !ok2 || !ok3 || fa.X != ssa.Value(g.Params[0]) || ld.Op != token.MUL || ld.X != ssa.Value(fa) || len(ret.Results) != 1 || ret.Results[0] != ssa.Value(ld) {
		return v
	}
	return ld
}

// FieldRead reports the field read v denotes — a load `*(&x.f)` or a call
// of a pure getter `x.getF()` — with its base x.
func FieldRead(v ssa.Value) (base ssa.Value, field *types.Var, ok bool) {
	if call, isCall := v.(*ssa.Call); isCall {
		if ld, isLoad := GetterLoad(v).(*ssa.UnOp); isLoad && ssa.Value(ld) != v && len(call.Call.Args) == 1 {
			if fa, isFA := ld.X.(*ssa.FieldAddr); isFA {
				return call.Call.Args[0], FieldVar(fa), true
			}
		}
		return nil, nil, false
	}
	if u, isU := v.(*ssa.UnOp); isU && u.Op == token.MUL {
		if fa, isFA := u.X.(*ssa.FieldAddr); isFA {
			return fa.X, FieldVar(fa), true
		}
	}
	return nil, nil, false
}

// ExitLiveEdges lists the values a loop-header phi can have when the loop is
// left through the header's own test. An incoming edge on which the test's
// flag (a phi of the same block) is a constant that sends control into the
// loop contributes nothing there: `for more := true; more; { … }` is never
// left on its entry edge, so a variable's initial value is not among the
// values seen after the loop. All edges are returned when this shape is not
// recognised.
func ExitLiveEdges(phi *ssa.Phi) []ssa.Value {
	h := phi.Block()
	all := append([]ssa.Value{}, phi.Edges...)
	if len(h.Instrs) == 0 || len(h.Succs) != 2 {
		return all
	}
	iff, ok := h.Instrs[len(h.Instrs)-1].(*ssa.If)
	if !ok {
		return all
	}
	cv, neg := iff.Cond, false
	if u, isNot := cv.(*ssa.UnOp); isNot && u.Op == token.NOT {
		cv, neg = u.X, true
	}
	cp, ok := cv.(*ssa.Phi)
	if !ok || cp.Block() != h || len(cp.Edges) != len(phi.Edges) {
		return all
	}
	var out []ssa.Value
	for i, e := range phi.Edges {
		k, isK := cp.Edges[i].(*ssa.Const)
		if isK && k.Value != nil && (k.Value.String() == "true" || k.Value.String() == "false") {
			t := (k.Value.String() == "true") != neg
			taken := h.Succs[1]
			if t {
				taken = h.Succs[0]
			}
			if blockReaches(taken, h) {
				continue // enters the loop: not an exit
			}
		}
		out = append(out, e)
	}
	if len(out) == 0 {
		return all
	}
	return out
}

// Forwarders is the number of pure forwarders that were made transparent.
func (p *Prog) Forwarders() int { return len(p.forward) }

// IsForwarder reports whether f is a pure forwarder (see forwardTarget).
func (p *Prog) IsForwarder(f *ssa.Function) bool { return p.forward[f] != nil }

func (p *Prog) buildCallers() {
	p.callers = map[*ssa.Function][]Site{}
	p.valueRef = map[*ssa.Function]bool{}
	// Which functions are referenced as values (not merely called)?
	for _, f := range p.Funcs {
		for _, b := range f.Blocks {
			for _, ins := range b.Instrs {
				var calleeVal ssa.Value
				if ci, ok := ins.(ssa.CallInstruction); ok && !ci.Common().IsInvoke() {
					calleeVal = ci.Common().Value
				}
				if mc, ok := ins.(*ssa.MakeClosure); ok {
					g := mc.Fn.(*ssa.Function)
					for _, r := range *mc.Referrers() {
						if ci, ok := r.(ssa.CallInstruction); ok && ci.Common().Value == ssa.Value(mc) {
							// also make sure it is not additionally an argument
							isArg := false
							for _, a := range ci.Common().Args {
								if a == ssa.Value(mc) {
									isArg = true
								}
							}
							if !isArg {
								continue
							}
						}
						p.valueRef[g] = true
					}
					continue
				}
				for _, op := range ins.Operands(nil) {
					if op == nil || *op == nil {
						continue
					}
					if g, ok := (*op).(*ssa.Function); ok {
						if *op == calleeVal {
							isArg := false
							for _, a := range ins.(ssa.CallInstruction).Common().Args {
								if a == *op {
									isArg = true
								}
							}
							if !isArg {
								continue
							}
						}
						p.valueRef[g] = true
					}
				}
			}
		}
	}
	for w := range p.forward {
		g := p.Resolve(w)
		if p.valueRef[w] {
			p.valueRef[g] = true
		}
		if exportedObj(w) {
			p.exposedVia[g] = true
		}
	}
	type dyn struct {
		f  *ssa.Function
		ci ssa.CallInstruction
	}
	var dyns []dyn
	add := func(g, f *ssa.Function, ci ssa.CallInstruction) bool {
		for _, s := range p.callers[g] {
			if s.Instr == ci {
				return false
			}
		}
		p.callers[g] = append(p.callers[g], Site{f, ci})
		if gi, ok := ci.(*ssa.Go); ok {
			p.goRoots[g] = append(p.goRoots[g], gi)
		}
		return true
	}
	for _, f := range p.Funcs {
		if p.forward[f] != nil {
			// the forwarder's own call is not a call site of its target: the target is entered
			// wherever the forwarder was
			continue
		}
		for _, b := range f.Blocks {
			for _, ins := range b.Instrs {
				ci, ok := ins.(ssa.CallInstruction)
				if !ok || ci.Common().IsInvoke() {
					continue
				}
				if g := ci.Common().StaticCallee(); g != nil {
					add(g, f, ci)
				} else if _, isB := ci.Common().Value.(*ssa.Builtin); !isB {
					dyns = append(dyns, dyn{f, ci})
				}
			}
		}
	}
	for round := 0; round < 5; round++ {
		changed := false
		for _, d := range dyns {
			gs, _ := p.FuncValues(d.ci.Common().Value)
			for _, g := range gs {
				if add(g, d.f, d.ci) {
					changed = true
				}
			}
		}
		if !changed {
			break
		}
	}
	for _, d := range dyns {
		if _, complete := p.FuncValues(d.ci.Common().Value); !complete {
			p.Unresolved = append(p.Unresolved, fmt.Sprintf("%s in %s", p.Pos(d.ci.Pos()), Name(d.f)))
		}
	}
}

// Callers lists the resolved call sites of f inside the repository.
func (p *Prog) Callers(f *ssa.Function) []Site { return p.callers[f] }

// GoSites lists the go statements that start f.
func (p *Prog) GoSites(f *ssa.Function) []*ssa.Go { return p.goRoots[f] }

// UsedAsValue reports whether f (or a closure over it) flows somewhere other
// than the callee position of a call, i.e. may be called from code we do not
// see (stored in a field, passed to an external function, returned...).
func (p *Prog) UsedAsValue(f *ssa.Function) bool { return p.valueRef[f] }

// ---------------------------------------------------------------------------
// Value provenance

// Sources traces v backwards through copies, conversions, phis, loads of
// local cells, struct fields (field-based: every store to the field anywhere
// in the repository), globals, parameters (all resolved call sites) and
// results of repository functions, and returns the leaf values. The result
// over-approximates the values v may hold.
func (p *Prog) Sources(v ssa.Value) []ssa.Value {
	t := &tracer{p: p, seen: map[ssa.Value]bool{}}
	t.walk(v)
	return t.out
}

// SourcesStop is Sources, except that values for which stop returns true are
// reported as leaves without being traced further.
func (p *Prog) SourcesStop(v ssa.Value, stop func(ssa.Value) bool) []ssa.Value {
	t := &tracer{p: p, seen: map[ssa.Value]bool{}, stop: stop}
	t.walk(v)
	return t.out
}

type tracer struct {
	p        *Prog
	seen     map[ssa.Value]bool
	seenElem map[elemKey]bool
	rawElems bool
	out      []ssa.Value
	stop     func(ssa.Value) bool
}

func (t *tracer) leaf(v ssa.Value) { t.out = append(t.out, v) }

func (t *tracer) walk(v ssa.Value) {
	if v == nil || t.seen[v] {
		return
	}
	t.seen[v] = true
	if t.stop != nil && t.stop(v) {
		t.leaf(v)
		return
	}
	switch x := v.(type) {
	case *ssa.Phi:
		for _, e := range x.Edges {
			t.walk(e)
		}
	case *ssa.ChangeType:
		t.walk(x.X)
	case *ssa.Convert:
		t.walk(x.X)
	case *ssa.ChangeInterface:
		t.walk(x.X)
	case *ssa.MakeInterface:
		t.walk(x.X)
	case *ssa.TypeAssert:
		t.walk(x.X)
	case *ssa.Slice:
		t.walk(x.X)
	case *ssa.Extract:
		if call, ok := x.Tuple.(*ssa.Call); ok {
			if !t.results(call, x.Index) {
				t.leaf(v)
			}
		} else if ta, ok := x.Tuple.(*ssa.TypeAssert); ok && x.Index == 0 {
			t.walk(ta.X)
		} else {
			t.leaf(v)
		}
	case *ssa.Call:
		if !t.results(x, 0) {
			t.leaf(v)
		}
	case *ssa.UnOp:
		if x.Op != token.MUL {
			t.leaf(v)
			return
		}
		t.load(x, x.X)
	case *ssa.Parameter:
		f := x.Parent()
		idx := -1
		for i, pr := range f.Params {
			if pr == x {
				idx = i
			}
		}
		sites := t.p.Callers(f)
		if idx < 0 || len(sites) == 0 || t.p.UsedAsValue(f) || exported(f) {
			t.leaf(v)
			if len(sites) == 0 {
				return
			}
		}
		for _, s := range sites {
			c := s.Instr.Common()
			args := c.Args
			if idx < len(args) {
				t.walk(args[idx])
			}
		}
	case *ssa.FreeVar:
		t.freevar(x, false)
	case *ssa.Field:
		// field of a struct value (e.g. an element of a slice of structs ranged by value):
		// field-based, like a load through FieldAddr
		var fv *types.Var
		if st, ok := x.X.Type().Underlying().(*types.Struct); ok && x.Field < st.NumFields() {
			fv = st.Field(x.Field)
		}
		stores := t.p.fieldStores[fv]
		if fv == nil || len(stores) == 0 {
			t.leaf(v)
			return
		}
		for _, st := range stores {
			t.walk(st.Val)
		}
	default:
		t.leaf(v)
	}
}

func exported(f *ssa.Function) bool {
	if f.Parent() != nil {
		return false
	}
	if p := ProgOf(f); p != nil && p.exposedVia[f] {
		return true
	}
	return exportedObj(f)
}

func exportedObj(f *ssa.Function) bool {
	if f.Parent() != nil {
		return false
	}
	o := f.Object()
	if o == nil || !o.Exported() {
		return false
	}
	if fn, ok := o.(*types.Func); ok {
		if r := fn.Type().(*types.Signature).Recv(); r != nil {
			t := r.Type()
			if pt, ok := t.(*types.Pointer); ok {
				t = pt.Elem()
			}
			if n, ok := types.Unalias(t).(*types.Named); ok && !n.Obj().Exported() {
				// exported method of an unexported type: callable through interfaces
				return true
			}
		}
	}
	return true
}

// Exported reports whether f is an API entry point.
func Exported(f *ssa.Function) bool { return exported(f) }

// results continues the trace at the index-th result of every callee of call;
// false when the callee is not a repository function with a body.
func (t *tracer) results(call *ssa.Call, index int) bool {
	gs, complete := t.p.Callees(call)
	if !complete || len(gs) == 0 {
		return false
	}
	for _, g := range gs {
		if !t.p.InRepo[g] || g.Blocks == nil {
			return false
		}
	}
	for _, g := range gs {
		for _, b := range g.Blocks {
			if len(b.Instrs) == 0 {
				continue
			}
			if r, ok := b.Instrs[len(b.Instrs)-1].(*ssa.Return); ok && index < len(r.Results) {
				t.walk(r.Results[index])
			}
		}
	}
	return true
}

func (t *tracer) freevar(fv *ssa.FreeVar, load bool) {
	f := fv.Parent()
	idx := -1
	for i, x := range f.FreeVars {
		if x == fv {
			idx = i
		}
	}
	par := f.Parent()
	found := false
	if par != nil && idx >= 0 {
		for _, b := range par.Blocks {
			for _, ins := range b.Instrs {
				if mc, ok := ins.(*ssa.MakeClosure); ok && mc.Fn == f && idx < len(mc.Bindings) {
					found = true
					if load {
						t.loadFrom(mc.Bindings[idx])
					} else {
						t.walk(mc.Bindings[idx])
					}
				}
			}
		}
	}
	if !found {
		t.leaf(fv)
	}
}

// load handles `*addr`.
func (t *tracer) load(u *ssa.UnOp, addr ssa.Value) {
	switch a := addr.(type) {
	case *ssa.FieldAddr:
		fv := FieldVar(a)
		stores := t.p.fieldStores[fv]
		if len(stores) == 0 {
			t.leaf(u)
			return
		}
		// Field-based: any store to this field. Zero value is also possible
		// but is represented only when some store writes it.
		for _, st := range stores {
			t.walk(st.Val)
		}
	case *ssa.Global:
		stores := t.p.globStores[a]
		if len(stores) == 0 {
			t.leaf(u)
			return
		}
		for _, st := range stores {
			t.walk(st.Val)
		}
	case *ssa.IndexAddr:
		if !t.elements(a.X, 0) {
			t.leaf(u)
		}
	default:
		if !t.loadFromOK(addr) {
			t.leaf(u)
		}
	}
}

// elements traces the values stored into the slice/array value s by append
// calls and element stores; false when s has an origin it cannot see through.
func (t *tracer) elements(s ssa.Value, depth int) bool {
	if depth > 8 {
		return false
	}
	key := elemKey{s}
	if t.seenElem == nil {
		t.seenElem = map[elemKey]bool{}
	}
	if t.seenElem[key] {
		return true
	}
	t.seenElem[key] = true
	switch x := s.(type) {
	case *ssa.Phi:
		for _, e := range x.Edges {
			if !t.elements(e, depth+1) {
				return false
			}
		}
		return true
	case *ssa.Const:
		return true // nil slice: no elements
	case *ssa.MakeSlice:
		// elements written through IndexAddr on this slice
		return t.elemStores(x)
	case *ssa.Slice:
		if al, ok := x.X.(*ssa.Alloc); ok {
			return t.elemStores(al)
		}
		return t.elements(x.X, depth+1)
	case *ssa.Call:
		if b, ok := x.Call.Value.(*ssa.Builtin); ok && b.Name() == "append" {
			if !t.elements(x.Call.Args[0], depth+1) {
				return false
			}
			if len(x.Call.Args) > 1 {
				return t.elements(x.Call.Args[1], depth+1)
			}
			return true
		}
		return false
	case *ssa.Parameter:
		f := x.Parent()
		idx := -1
		for i, pr := range f.Params {
			if pr == x {
				idx = i
			}
		}
		sites := t.p.Callers(f)
		if idx < 0 || len(sites) == 0 || !t.p.private(f) {
			return false
		}
		for _, site := range sites {
			args := site.Instr.Common().Args
			if idx >= len(args) || !t.elements(args[idx], depth+1) {
				return false
			}
		}
		return true
	case *ssa.Extract:
		call, ok := x.Tuple.(*ssa.Call)
		if !ok {
			return false
		}
		gs, complete := t.p.Callees(call)
		if !complete || len(gs) == 0 {
			return false
		}
		for _, g := range gs {
			if !t.p.InRepo[g] {
				return false
			}
			for _, r := range Returns(g) {
				if x.Index >= len(r.Results) || !t.elements(ReturnResult(r, x.Index), depth+1) {
					return false
				}
			}
		}
		return true
	case *ssa.Field:
		// a slice kept in a field of a struct value: every store to that field (field-based)
		var fv *types.Var
		if st, ok := x.X.Type().Underlying().(*types.Struct); ok && x.Field < st.NumFields() {
			fv = st.Field(x.Field)
		}
		stores := t.p.fieldStores[fv]
		if fv == nil || len(stores) == 0 {
			return false
		}
		for _, st := range stores {
			if !t.elements(st.Val, depth+1) {
				return false
			}
		}
		return true
	case *ssa.UnOp:
		if x.Op == token.MUL {
			if fa, ok := x.X.(*ssa.FieldAddr); ok {
				// a slice kept in a struct field: every store to that field (field-based)
				stores := t.p.fieldStores[FieldVar(fa)]
				if len(stores) == 0 {
					return false
				}
				for _, st := range stores {
					if !t.elements(st.Val, depth+1) {
						return false
					}
				}
				return true
			}
			cell := x.X
			if fv, isFV := cell.(*ssa.FreeVar); isFV {
				// (the variable as seen from a closure that captured it)
				if b := bindingOf(fv); b != nil {
					cell = b
				}
			}
			if al, ok := cell.(*ssa.Alloc); ok {
				// a slice variable spilled to a cell
				sts := CellStores(al)
				if len(sts) == 0 {
					return false
				}
				for _, st := range sts {
					if !t.elements(st.Val, depth+1) {
						return false
					}
				}
				// elements assigned in place through the variable: `xs[i] = v`
				for _, ld := range cellLoads(al) {
					for _, r := range *ld.Referrers() {
						ia, isIA := r.(*ssa.IndexAddr)
						if !isIA || ia.X != ssa.Value(ld) {
							continue
						}
						for _, r2 := range *ia.Referrers() {
							if st, isSt := r2.(*ssa.Store); isSt && st.Addr == ssa.Value(ia) {
								if t.rawElems {
									t.out = append(t.out, st.Val)
								} else {
									t.walk(st.Val)
								}
							}
						}
					}
				}
				return true
			}
		}
		return false
	}
	return false
}

// cellLoads lists the loads of the local cell a, in its function and in every
// closure that captures it.
func cellLoads(a *ssa.Alloc) []*ssa.UnOp {
	var out []*ssa.UnOp
	var visit func(addr ssa.Value)
	visit = func(addr ssa.Value) {
		refs := addr.Referrers()
		if refs == nil {
			return
		}
		for _, r := range *refs {
			switch x := r.(type) {
			case *ssa.UnOp:
				if x.Op == token.MUL && x.X == addr {
					out = append(out, x)
				}
			case *ssa.MakeClosure:
				g := x.Fn.(*ssa.Function)
				for i, bnd := range x.Bindings {
					if bnd == addr && i < len(g.FreeVars) {
						visit(g.FreeVars[i])
					}
				}
			}
		}
	}
	visit(a)
	return out
}

type elemKey struct{ v ssa.Value }

// elemStores walks values stored through IndexAddr on base.
func (t *tracer) elemStores(base ssa.Value) bool {
	refs := base.Referrers()
	if refs == nil {
		return true
	}
	for _, r := range *refs {
		if ia, ok := r.(*ssa.IndexAddr); ok && ia.X == base {
			for _, r2 := range *ia.Referrers() {
				if st, ok := r2.(*ssa.Store); ok && st.Addr == ssa.Value(ia) {
					if t.rawElems {
						t.out = append(t.out, st.Val)
					} else {
						t.walk(st.Val)
					}
				}
			}
		}
		if sl, ok := r.(*ssa.Slice); ok && sl.X == base {
			// stores through a re-slice of the same backing array are not followed; elements already collected
			_ = sl
		}
	}
	return true
}

func (t *tracer) loadFrom(addr ssa.Value) {
	if !t.loadFromOK(addr) {
		t.leaf(addr)
	}
}

// loadFromOK traces the contents of a local cell (Alloc, possibly reached
// through a free variable).
func (t *tracer) loadFromOK(addr ssa.Value) bool {
	switch a := addr.(type) {
	case *ssa.Alloc:
		sts := CellStores(a)
		if len(sts) == 0 {
			return false
		}
		for _, st := range sts {
			t.walk(st.Val)
		}
		return true
	case *ssa.FreeVar:
		if _, ok := a.Type().Underlying().(*types.Pointer); !ok {
			return false
		}
		if t.seen[a] {
			return true
		}
		t.seen[a] = true
		t.freevar(a, true)
		return true
	}
	return false
}

// CellStores lists all stores into the local cell a, in its function and in
// every closure that captures it.
func CellStores(a *ssa.Alloc) []*ssa.Store {
	var out []*ssa.Store
	var visit func(addr ssa.Value, f *ssa.Function)
	visit = func(addr ssa.Value, f *ssa.Function) {
		refs := addr.Referrers()
		if refs == nil {
			return
		}
		for _, r := range *refs {
			switch x := r.(type) {
			case *ssa.Store:
				if x.Addr == addr {
					out = append(out, x)
				}
			case *ssa.MakeClosure:
				g := x.Fn.(*ssa.Function)
				for i, bnd := range x.Bindings {
					if bnd == addr && i < len(g.FreeVars) {
						visit(g.FreeVars[i], g)
					}
				}
			}
		}
	}
	visit(a, a.Parent())
	return out
}

// ---------------------------------------------------------------------------
// Dominance-implied conditions

// Cond is a branch condition known to hold at a program point.
type Cond struct {
	V     ssa.Value // the If's condition value
	Truth bool      // which way it went
	If    *ssa.If
}

// CondsAt lists the branch outcomes that dominate block b: walking up the
// dominator tree, each time the step from idom to child is the single-entry
// successor of an If. Short-circuit && / || are decomposed by go/ssa into
// nested Ifs, so conjunctions appear as several Conds.
func CondsAt(b *ssa.BasicBlock) []Cond {
	return normalizeAll(rawCondsAt(b), 0)
}

func rawCondsAt(b *ssa.BasicBlock) []Cond {
	var out []Cond
	for b != nil {
		d := b.Idom()
		if d == nil {
			break
		}
		if len(b.Preds) == 1 && b.Preds[0] == d && len(d.Instrs) > 0 {
			if iff, ok := d.Instrs[len(d.Instrs)-1].(*ssa.If); ok {
				// If both successors are b (degenerate) skip.
				if d.Succs[0] == b && d.Succs[1] != b {
					out = append(out, Cond{iff.Cond, true, iff})
				} else if d.Succs[1] == b && d.Succs[0] != b {
					out = append(out, Cond{iff.Cond, false, iff})
				}
			}
		}
		b = d
	}
	return out
}

// InstrDominates reports whether a executes before b on every path to b.
func InstrDominates(a, b ssa.Instruction) bool {
	ba, bb := a.Block(), b.Block()
	if ba == nil || bb == nil || ba.Parent() != bb.Parent() {
		return false
	}
	if ba == bb {
		return indexOf(a) < indexOf(b)
	}
	return ba.Dominates(bb)
}

func indexOf(i ssa.Instruction) int {
	for k, x := range i.Block().Instrs {
		if x == i {
			return k
		}
	}
	return -1
}

// IndexOf is the position of i in its block.
func IndexOf(i ssa.Instruction) int { return indexOf(i) }

// InCycle reports whether block b can reach itself.
func InCycle(b *ssa.BasicBlock) bool {
	seen := map[*ssa.BasicBlock]bool{}
	var stack []*ssa.BasicBlock
	stack = append(stack, b.Succs...)
	for len(stack) > 0 {
		x := stack[len(stack)-1]
		stack = stack[:len(stack)-1]
		if x == b {
			return true
		}
		if seen[x] {
			continue
		}
		seen[x] = true
		stack = append(stack, x.Succs...)
	}
	return false
}

// PathQuery answers "starting right after `from`, does every path reach an
// instruction satisfying goal before reaching one satisfying bad or leaving
// the function?". Returns ok and, when not ok, a description of the
// offending path end. Panic edges (blocks ending in Panic) count as leaving
// the function only when countPanics is set.
type PathQuery struct {
	Goal        func(ssa.Instruction) bool
	Bad         func(ssa.Instruction) bool
	CountPanics bool
}

// MustReach runs the query from the instruction following `from`.
func (q PathQuery) MustReach(from ssa.Instruction) (bool, ssa.Instruction) {
	b := from.Block()
	start := indexOf(from) + 1
	type key struct {
		b *ssa.BasicBlock
	}
	seen := map[key]bool{}
	var dfs func(b *ssa.BasicBlock, i int) (bool, ssa.Instruction)
	dfs = func(b *ssa.BasicBlock, i int) (bool, ssa.Instruction) {
		for ; i < len(b.Instrs); i++ {
			ins := b.Instrs[i]
			if q.Goal(ins) {
				return true, nil
			}
			if q.Bad != nil && q.Bad(ins) {
				return false, ins
			}
			switch ins.(type) {
			case *ssa.Return:
				return false, ins
			case *ssa.Panic:
				if q.CountPanics {
					return false, ins
				}
				return true, nil
			}
		}
		for _, s := range b.Succs {
			if seen[key{s}] {
				continue
			}
			seen[key{s}] = true
			if ok, at := dfs(s, 0); !ok {
				return false, at
			}
		}
		return true, nil
	}
	return dfs(b, start)
}

// Reaches reports whether some path from the instruction after `from`
// reaches an instruction satisfying goal without first passing one
// satisfying stop.
func Reaches(from ssa.Instruction, goal, stop func(ssa.Instruction) bool) (bool, ssa.Instruction) {
	b := from.Block()
	seen := map[*ssa.BasicBlock]bool{}
	var dfs func(b *ssa.BasicBlock, i int) (bool, ssa.Instruction)
	dfs = func(b *ssa.BasicBlock, i int) (bool, ssa.Instruction) {
		for ; i < len(b.Instrs); i++ {
			ins := b.Instrs[i]
			if goal(ins) {
				return true, ins
			}
			if stop != nil && stop(ins) {
				return false, nil
			}
		}
		for _, s := range b.Succs {
			if seen[s] {
				continue
			}
			seen[s] = true
			if ok, at := dfs(s, 0); ok {
				return true, at
			}
		}
		return false, nil
	}
	return dfs(b, indexOf(from)+1)
}

// ---------------------------------------------------------------------------
// Small matchers

// IsNilConst reports whether v is the nil constant.
func IsNilConst(v ssa.Value) bool {
	c, ok := v.(*ssa.Const)
	return ok && c.IsNil()
}

// NilCompare decomposes `x == nil` / `x != nil`.
func NilCompare(v ssa.Value) (x ssa.Value, isEq bool, ok bool) {
	bo, ok := v.(*ssa.BinOp)
	if !ok || (bo.Op != token.EQL && bo.Op != token.NEQ) {
		return nil, false, false
	}
	if IsNilConst(bo.Y) {
		return bo.X, bo.Op == token.EQL, true
	}
	if IsNilConst(bo.X) {
		return bo.Y, bo.Op == token.EQL, true
	}
	return nil, false, false
}

// KnownNonNil reports whether, at block b, value x (or a reload of the same
// field path / the same SSA value) is known non-nil from a dominating branch.
func KnownNil(b *ssa.BasicBlock, same func(ssa.Value) bool) (isNil, isNonNil bool) {
	for _, c := range CondsAt(b) {
		if x, eq, ok := NilCompare(c.V); ok && same(x) {
			if eq == c.Truth {
				isNil = true
			} else {
				isNonNil = true
			}
		}
	}
	return
}

// ConstInt returns the integer value of a constant.
func ConstInt(v ssa.Value) (int64, bool) {
	c, ok := v.(*ssa.Const)
	if !ok || c.Value == nil || c.Value.Kind() != constant.Int {
		return 0, false
	}
	return c.Int64(), true
}

// Instrs calls fn for every instruction of f.
func Instrs(f *ssa.Function, fn func(ssa.Instruction)) {
	for _, b := range f.Blocks {
		for _, ins := range b.Instrs {
			fn(ins)
		}
	}
}

// Calls calls fn for every call/defer/go of f.
func Calls(f *ssa.Function, fn func(ssa.CallInstruction)) {
	Instrs(f, func(i ssa.Instruction) {
		if ci, ok := i.(ssa.CallInstruction); ok {
			fn(ci)
		}
	})
}

// SortedFuncs returns fs sorted by position.
func SortedFuncs(fs []*ssa.Function) []*ssa.Function {
	out := append([]*ssa.Function{}, fs...)
	sort.Slice(out, func(i, j int) bool { return out[i].Pos() < out[j].Pos() })
	return out
}

// Root returns the outermost enclosing function of f.
func Root(f *ssa.Function) *ssa.Function {
	for f.Parent() != nil {
		f = f.Parent()
	}
	return f
}

// RecvNamed returns the named receiver type of the method enclosing f.
func RecvNamed(f *ssa.Function) *types.Named {
	f = Root(f)
	if f.Signature.Recv() == nil {
		return nil
	}
	t := f.Signature.Recv().Type()
	if p, ok := t.(*types.Pointer); ok {
		t = p.Elem()
	}
	n, _ := types.Unalias(t).(*types.Named)
	return n
}

// EdgeConds lists the branch outcomes known on the CFG edge pred→succ: the
// conditions dominating pred plus, when pred ends in an If, that If's outcome
// on this edge.
func EdgeConds(pred, succ *ssa.BasicBlock) []Cond {
	out := CondsAt(pred)
	if own, ok := EdgeOwnCond(pred, succ); ok {
		out = append(out, normalizeAll([]Cond{own}, 0)...)
	}
	return out
}

// ImpliedByPhiTests: what a nil test of a variable assigned on particular
// branches says about the branch taken. For every outcome in conds that
// compares a phi with nil, the incoming edges whose value is known to be the
// other way round (the nil constant, resp. a value nonNil vouches for) are
// ruled out; when exactly one edge remains, the outcomes known on it hold too
// (`var e error; if a { e = errA } else if n, err := parse(); err != nil { e = errB } else { v = n };
// if e != nil { return e }` — past the test, err == nil).
func ImpliedByPhiTests(conds []Cond, nonNil func(ssa.Value) bool) []Cond {
	var out []Cond
	for _, cd := range conds {
		x, eq, ok := NilCompare(cd.V)
		if !ok {
			continue
		}
		phi, isPhi := x.(*ssa.Phi)
		if !isPhi {
			continue
		}
		wantNil := eq == cd.Truth
		feasible := -1
		n := 0
		for i, e := range phi.Edges {
			if (IsNilConst(e) && !wantNil) || (!IsNilConst(e) && nonNil(e) && wantNil) {
				continue
			}
			feasible = i
			n++
		}
		if n == 1 {
			out = append(out, EdgeConds(phi.Block().Preds[feasible], phi.Block())...)
		}
	}
	return out
}

// EdgeOwnCond is the outcome of pred's own If on the edge to succ (raw, not normalised).
func EdgeOwnCond(pred, succ *ssa.BasicBlock) (Cond, bool) {
	if len(pred.Instrs) > 0 {
		if iff, ok := pred.Instrs[len(pred.Instrs)-1].(*ssa.If); ok && pred.Succs[0] != pred.Succs[1] {
			if pred.Succs[0] == succ {
				return Cond{iff.Cond, true, iff}, true
			} else if pred.Succs[1] == succ {
				return Cond{iff.Cond, false, iff}, true
			}
		}
	}
	return Cond{}, false
}

// normalizeAll rewrites branch outcomes into their simplest conjunctive form:
// `true == x`, `x == true`, `!x` are stripped (go/ssa v0.29 compiles a tagless
// switch case as `true == <expr>`), and a boolean phi produced by a
// short-circuit && / || is expanded when the outcome pins down one path
// ((a||b) false ⇒ ¬a ∧ ¬b ; (a&&b) true ⇒ a ∧ b).
func normalizeAll(cs []Cond, depth int) []Cond {
	var out []Cond
	for _, c := range cs {
		out = append(out, normalizeCond(c, depth)...)
	}
	return out
}

func boolConst(v ssa.Value) (bool, bool) {
	k, ok := v.(*ssa.Const)
	if !ok || k.Value == nil || k.Value.Kind() != constant.Bool {
		return false, false
	}
	return constant.BoolVal(k.Value), true
}

func stripBool(c Cond) Cond {
	for i := 0; i < 6; i++ {
		switch x := c.V.(type) {
		case *ssa.UnOp:
			if x.Op == token.NOT {
				c = Cond{x.X, !c.Truth, c.If}
				continue
			}
		case *ssa.BinOp:
			if x.Op == token.EQL || x.Op == token.NEQ {
				if k, ok := boolConst(x.X); ok {
					t := c.Truth
					if (x.Op == token.EQL) != k {
						t = !t
					}
					c = Cond{x.Y, t, c.If}
					continue
				}
				if k, ok := boolConst(x.Y); ok {
					t := c.Truth
					if (x.Op == token.EQL) != k {
						t = !t
					}
					c = Cond{x.X, t, c.If}
					continue
				}
			}
		}
		break
	}
	return c
}

func normalizeCond(c Cond, depth int) []Cond {
	c = stripBool(c)
	phi, ok := c.V.(*ssa.Phi)
	if !ok || depth > 4 {
		return []Cond{c}
	}
	alts := CondAlternatives(c, depth)
	if len(alts) == 1 {
		return alts[0]
	}
	_ = phi
	return []Cond{c}
}

// CondAlternatives expands the outcome of a boolean short-circuit phi into the
// alternative paths (each a conjunction) under which it holds. A non-phi
// outcome has the single alternative {c}.
func CondAlternatives(c Cond, depth int) [][]Cond {
	c = stripBool(c)
	phi, ok := c.V.(*ssa.Phi)
	if !ok || depth > 4 {
		return [][]Cond{{c}}
	}
	b := phi.Block()
	var alts [][]Cond
	for i, e := range phi.Edges {
		pred := b.Preds[i]
		if k, isK := boolConst(e); isK {
			if k != c.Truth {
				continue // this path yields the other value
			}
			// the path(s) through pred's own branch (several when pred is itself a
			// join: a flag set in the shared else of an if/else-if chain)
			for _, path := range localAlts(pred, b.Idom(), depth+1) {
				if own, ok := EdgeOwnCond(pred, b); ok {
					path = append(path, normalizeAll([]Cond{own}, depth+1)...)
				}
				alts = append(alts, path)
			}
			continue
		}
		// value edge: e evaluated in (a block dominating) pred, after the earlier operands went the other way
		path := localConds(pred, b.Idom(), depth+1)
		for _, sub := range CondAlternatives(Cond{e, c.Truth, c.If}, depth+1) {
			alts = append(alts, append(append([]Cond{}, path...), sub...))
		}
	}
	if len(alts) == 0 {
		return [][]Cond{{c}}
	}
	return alts
}

// localAlts lists, per forward path from `above` to blk, the branch outcomes
// taken on it; where blk is reached by a single chain of single-predecessor
// blocks this is localConds.
func localAlts(blk, above *ssa.BasicBlock, depth int) [][]Cond {
	single := [][]Cond{localConds(blk, above, depth)}
	if blk == nil || above == nil || depth > 5 {
		return single
	}
	var walk func(b *ssa.BasicBlock, d int) ([][]Cond, bool)
	walk = func(b *ssa.BasicBlock, d int) ([][]Cond, bool) {
		if b == above {
			return [][]Cond{{}}, true
		}
		if d > 12 || !above.Dominates(b) {
			return nil, false
		}
		var out [][]Cond
		n := 0
		for _, p := range b.Preds {
			if b.Dominates(p) {
				continue // back edge
			}
			n++
			sub, ok := walk(p, d+1)
			if !ok {
				return nil, false
			}
			for _, a := range sub {
				alt := append([]Cond{}, a...)
				if own, ok := EdgeOwnCond(p, b); ok {
					alt = append(alt, normalizeAll([]Cond{own}, depth+1)...)
				}
				out = append(out, alt)
			}
			if len(out) > 32 {
				return nil, false
			}
		}
		if n == 0 {
			return nil, false
		}
		return out, true
	}
	if out, ok := walk(blk, 0); ok && len(out) > 1 {
		return out
	}
	return single
}

// localConds lists the branch outcomes that dominate blk but not `above`
// (the conditions accumulated inside one short-circuit expression).
func localConds(blk, above *ssa.BasicBlock, depth int) []Cond {
	if depth > 5 {
		return nil
	}
	var out []Cond
	b := blk
	for b != nil && b != above {
		d := b.Idom()
		if d == nil {
			break
		}
		if len(b.Preds) == 1 && b.Preds[0] == d {
			if own, ok := EdgeOwnCond(d, b); ok {
				out = append(out, normalizeAll([]Cond{own}, depth+1)...)
			}
		}
		if d == above {
			break
		}
		b = d
	}
	return out
}

// LenOf reports whether v is `len(x)` and returns x.
func LenOf(v ssa.Value) (ssa.Value, bool) {
	c, ok := v.(*ssa.Call)
	if !ok {
		return nil, false
	}
	b, ok := c.Call.Value.(*ssa.Builtin)
	if !ok || b.Name() != "len" || len(c.Call.Args) != 1 {
		return nil, false
	}
	return c.Call.Args[0], true
}

// ImpliesNonEmpty reports whether the branch outcome c proves len(x) >= 1 for
// an x accepted by same.
func ImpliesNonEmpty(c Cond, same func(ssa.Value) bool) bool {
	bo, ok := c.V.(*ssa.BinOp)
	if !ok {
		return false
	}
	lhs, rhs, op := bo.X, bo.Y, bo.Op
	if _, isLen := LenOf(rhs); isLen { // normalise to len(x) OP k
		lhs, rhs = rhs, lhs
		switch op {
		case token.LSS:
			op = token.GTR
		case token.GTR:
			op = token.LSS
		case token.LEQ:
			op = token.GEQ
		case token.GEQ:
			op = token.LEQ
		}
	}
	x, isLen := LenOf(lhs)
	if !isLen || !same(x) {
		return false
	}
	k, isConst := ConstInt(rhs)
	if !isConst {
		return false
	}
	if !c.Truth { // negate
		switch op {
		case token.EQL:
			op = token.NEQ
		case token.NEQ:
			op = token.EQL
		case token.LSS:
			op = token.GEQ
		case token.GEQ:
			op = token.LSS
		case token.GTR:
			op = token.LEQ
		case token.LEQ:
			op = token.GTR
		}
	}
	switch op {
	case token.NEQ:
		return k == 0
	case token.GTR:
		return k >= 0
	case token.GEQ:
		return k >= 1
	case token.EQL:
		return k >= 1
	}
	return false
}

// ErrIsNilOn reports whether the outcomes conds prove that v == nil, where v is
// accepted by same (typically the error result of one particular call).
func ProvesNil(conds []Cond, same func(ssa.Value) bool) bool {
	for _, c := range conds {
		if x, eq, ok := NilCompare(c.V); ok && same(x) && eq == c.Truth {
			return true
		}
	}
	return false
}

// ProvesNonNil is the dual of ProvesNil.
func ProvesNonNil(conds []Cond, same func(ssa.Value) bool) bool {
	for _, c := range conds {
		if x, eq, ok := NilCompare(c.V); ok && same(x) && eq != c.Truth {
			return true
		}
	}
	return false
}

// IsExtractOf reports whether v is result #idx of call.
func IsExtractOf(v ssa.Value, call ssa.Value, idx int) bool {
	e, ok := v.(*ssa.Extract)
	return ok && e.Tuple == call && e.Index == idx
}

// BaseName is the callee's method/function name without package, receiver
// or type arguments ("Add" for (*queue.Queue[T]).Add[...]).
func BaseName(f *ssa.Function) string {
	if f == nil {
		return ""
	}
	n := FullName(f)
	if i := strings.LastIndex(n, "."); i >= 0 {
		n = n[i+1:]
	}
	if i := strings.Index(n, "$"); i >= 0 {
		n = n[:i]
	}
	return n
}

// CellLoads lists the loads of local cell a in its function and in every
// closure that captures it.
func CellLoads(a *ssa.Alloc) []*ssa.UnOp {
	var out []*ssa.UnOp
	var visit func(addr ssa.Value)
	visit = func(addr ssa.Value) {
		refs := addr.Referrers()
		if refs == nil {
			return
		}
		for _, r := range *refs {
			switch x := r.(type) {
			case *ssa.UnOp:
				if x.Op == token.MUL && x.X == addr {
					out = append(out, x)
				}
			case *ssa.MakeClosure:
				g := x.Fn.(*ssa.Function)
				for i, bnd := range x.Bindings {
					if bnd == addr && i < len(g.FreeVars) {
						visit(g.FreeVars[i])
					}
				}
			}
		}
	}
	visit(a)
	return out
}

// ReturnResult resolves result i of a return. Functions with defers spill
// their results into local cells (`*t0 = v; rundefers; t = *t0; return t`);
// this looks through the spill to v when the store is in the same block.
func ReturnResult(r *ssa.Return, i int) ssa.Value {
	v := r.Results[i]
	u, ok := v.(*ssa.UnOp)
	if !ok || u.Op != token.MUL {
		return v
	}
	al, ok := u.X.(*ssa.Alloc)
	if !ok {
		return v
	}
	instrs := r.Block().Instrs
	for k := len(instrs) - 1; k >= 0; k-- {
		if st, ok := instrs[k].(*ssa.Store); ok && st.Addr == ssa.Value(al) {
			return st.Val
		}
	}
	return v
}

// NormCell maps reloads of one (captured) variable to one representative, and
// a load of a variable to the value assigned when exactly one assignment can
// reach the load (single assignment, or a dominating assignment with no other
// assignment able to reach the load).
func NormCell(v ssa.Value) ssa.Value {
	for i := 0; i < 8; i++ {
		u, ok := v.(*ssa.UnOp)
		if !ok || u.Op != token.MUL {
			return v
		}
		cell := u.X
		if fv, ok := cell.(*ssa.FreeVar); ok {
			if b := bindingOf(fv); b != nil {
				cell = b
			} else {
				return fv
			}
		}
		al, ok := cell.(*ssa.Alloc)
		if !ok {
			if cell != u.X {
				return cell
			}
			return v
		}
		sts := CellStores(al)
		if len(sts) == 1 {
			v = sts[0].Val
			continue
		}
		// several assignments: those that can reach this load
		var reaching []*ssa.Store
		for _, st := range sts {
			if st.Parent() != u.Parent() {
				reaching = append(reaching, st) // assigned in a closure: cannot order
				continue
			}
			if st.Block() == u.Block() {
				if indexOf(st) < indexOf(u) {
					reaching = append(reaching, st)
				} else if InCycle(u.Block()) {
					reaching = append(reaching, st)
				}
				continue
			}
			if blockReaches(st.Block(), u.Block()) {
				reaching = append(reaching, st)
			}
		}
		// keep only the last store of the load's own block when there is one
		var sameBlock *ssa.Store
		for _, st := range reaching {
			if st.Parent() == u.Parent() && st.Block() == u.Block() && indexOf(st) < indexOf(u) {
				if sameBlock == nil || indexOf(st) > indexOf(sameBlock) {
					sameBlock = st
				}
			}
		}
		if sameBlock != nil {
			v = sameBlock.Val
			continue
		}
		// a store that is always overwritten by a later store before the load does not reach it
		var live []*ssa.Store
		for _, a := range reaching {
			killed := false
			for _, b := range reaching {
				if a != b && a.Parent() == u.Parent() && b.Parent() == u.Parent() && InstrDominates(a, b) && InstrDominates(b, u) {
					killed = true
				}
			}
			if !killed {
				live = append(live, a)
			}
		}
		if len(live) == 1 && live[0].Parent() == u.Parent() && InstrDominates(live[0], u) {
			v = live[0].Val
			continue
		}
		return al
	}
	return v
}

func blockReaches(from, to *ssa.BasicBlock) bool {
	seen := map[*ssa.BasicBlock]bool{}
	stack := []*ssa.BasicBlock{from}
	for len(stack) > 0 {
		b := stack[len(stack)-1]
		stack = stack[:len(stack)-1]
		for _, s := range b.Succs {
			if s == to {
				return true
			}
			if !seen[s] {
				seen[s] = true
				stack = append(stack, s)
			}
		}
	}
	return false
}

// BindingOf returns the value a closure's free variable is bound to (the
// captured variable's cell), or nil if the closure is created at several places
// with different bindings.
func BindingOf(fv *ssa.FreeVar) ssa.Value { return bindingOf(fv) }

func bindingOf(fv *ssa.FreeVar) ssa.Value {
	f := fv.Parent()
	par := f.Parent()
	if par == nil {
		return nil
	}
	idx := -1
	for i, x := range f.FreeVars {
		if x == fv {
			idx = i
		}
	}
	var out ssa.Value
	for _, b := range par.Blocks {
		for _, ins := range b.Instrs {
			if mc, ok := ins.(*ssa.MakeClosure); ok && mc.Fn == f && idx >= 0 && idx < len(mc.Bindings) {
				bnd := mc.Bindings[idx]
				if inner, ok := bnd.(*ssa.FreeVar); ok {
					bnd = bindingOf(inner)
				}
				if out != nil && out != bnd {
					return nil
				}
				out = bnd
			}
		}
	}
	return out
}

// Returns lists the return instructions of f, excluding the synthetic one in
// the recover block (which is reached only when a deferred call recovers).
func Returns(f *ssa.Function) []*ssa.Return {
	var out []*ssa.Return
	for _, b := range f.Blocks {
		if b == f.Recover || len(b.Instrs) == 0 {
			continue
		}
		if r, ok := b.Instrs[len(b.Instrs)-1].(*ssa.Return); ok {
			out = append(out, r)
		}
	}
	return out
}

// AllReturnsDominatedBy reports whether ins dominates every (non-recover) return of its function.
func AllReturnsDominatedBy(ins ssa.Instruction) bool {
	for _, r := range Returns(ins.Parent()) {
		if !InstrDominates(ins, r) {
			return false
		}
	}
	return true
}

// ElementSources traces the values stored into slice s by appends and element
// stores (see Sources); ok is false when s has an origin that cannot be seen through.
func (p *Prog) ElementSources(s ssa.Value) ([]ssa.Value, bool) {
	t := &tracer{p: p, seen: map[ssa.Value]bool{}}
	ok := t.elements(s, 0)
	return t.out, ok
}

// ElementValues lists the values stored into slice s by appends and element
// stores, as they are (not traced further).
func (p *Prog) ElementValues(s ssa.Value) ([]ssa.Value, bool) {
	t := &tracer{p: p, seen: map[ssa.Value]bool{}, rawElems: true}
	ok := t.elements(s, 0)
	return t.out, ok
}

// ---------------------------------------------------------------------------
// Function-boundary insensitivity: helpers extracted from (or inlined into) a
// function must not change a verdict. A *private helper* of f is an unexported
// function (or closure) that is not used as a value and all of whose resolved
// call sites lie in f's extended body.

// SoleCaller returns the single resolved call site of f when f is private
// (unexported or a closure, not referenced as a value) and has exactly one.
func (p *Prog) SoleCaller(f *ssa.Function) (Site, bool) {
	if f == nil || (f.Parent() == nil && exported(f)) || p.UsedAsValue(f) {
		return Site{}, false
	}
	sites := p.Callers(f)
	if len(sites) != 1 {
		return Site{}, false
	}
	return sites[0], true
}

// private reports whether f can only be entered through its resolved call sites.
func (p *Prog) private(f *ssa.Function) bool {
	if f.Parent() == nil && exported(f) {
		return false
	}
	if p.UsedAsValue(f) {
		// closures handed to known synchronous callback takers are still private
		return f.Parent() != nil && len(p.Callers(f)) == 0
	}
	return true
}

// Ext returns f together with its private helpers (transitively): functions
// all of whose call sites are inside the set, and closures lexically nested in
// a member of the set.
func (p *Prog) Ext(f *ssa.Function) []*ssa.Function {
	if out, ok := p.extCache[f]; ok {
		return out
	}
	if p.extCache == nil {
		p.extCache = map[*ssa.Function][]*ssa.Function{}
		p.extSet = map[*ssa.Function]map[*ssa.Function]bool{}
	}
	in := map[*ssa.Function]bool{f: true}
	changed := true
	for changed {
		changed = false
		for _, g := range p.Funcs {
			if in[g] {
				continue
			}
			// lexically nested closure of a member
			if g.Parent() != nil && in[g.Parent()] {
				in[g] = true
				changed = true
				continue
			}
			if !p.private(g) {
				continue
			}
			sites := p.Callers(g)
			bound := p.boundUses(g)
			if len(sites) == 0 && len(bound) == 0 {
				continue
			}
			all := true
			for _, s := range sites {
				if !in[s.Caller] {
					all = false
				}
			}
			// a method used as a bound method value (x.m handed to a callback taker) inside the
			// set is as private to it as a function literal written there
			for _, mc := range bound {
				if !in[mc.Parent()] {
					all = false
				}
			}
			if all {
				in[g] = true
				changed = true
			}
		}
	}
	var out []*ssa.Function
	for _, g := range p.Funcs {
		if in[g] {
			out = append(out, g)
		}
	}
	p.extCache[f] = out
	p.extSet[f] = in
	return out
}

// boundUses lists the places where method g is turned into a bound method
// value (the MakeClosure of its synthetic $bound wrapper).
func (p *Prog) boundUses(g *ssa.Function) []*ssa.MakeClosure {
	if p.boundSites == nil {
		p.boundSites = map[*ssa.Function][]*ssa.MakeClosure{}
		for _, f := range p.Funcs {
			Instrs(f, func(ins ssa.Instruction) {
				mc, ok := ins.(*ssa.MakeClosure)
				if !ok {
					return
				}
				fn, ok := mc.Fn.(*ssa.Function)
				if !ok {
					return
				}
				if u := unwrapBound(fn); u != fn {
					p.boundSites[u] = append(p.boundSites[u], mc)
				}
			})
		}
	}
	return p.boundSites[g]
}

// InExt reports whether g belongs to Ext(f).
func (p *Prog) InExt(f, g *ssa.Function) bool {
	if f == nil || g == nil {
		return false
	}
	p.Ext(f)
	return p.extSet[f][g]
}

// RegionRoot returns the function with the smallest extended body (itself plus
// private helpers) that contains all the given functions, or nil when there is
// none or the choice is ambiguous. It makes "the function that does A and B"
// independent of how A and B are split over private helpers.
func (p *Prog) RegionRoot(fs ...*ssa.Function) *ssa.Function {
	var best *ssa.Function
	bestN, tie := 0, false
	for _, cand := range p.Funcs {
		all := true
		for _, f := range fs {
			if f == nil || !p.InExt(cand, f) {
				all = false
				break
			}
		}
		if !all {
			continue
		}
		n := len(p.Ext(cand))
		switch {
		case best == nil || n < bestN:
			best, bestN, tie = cand, n, false
		case n == bestN:
			// equal regions: prefer the outer of two mutually containing functions
			if p.InExt(cand, best) && !p.InExt(best, cand) {
				best = cand
			} else if !(p.InExt(best, cand)) {
				tie = true
			}
		}
	}
	if tie {
		return nil
	}
	return best
}

// ExtCalls calls fn for every call instruction of f and of its private helpers.
func (p *Prog) ExtCalls(f *ssa.Function, fn func(ssa.CallInstruction)) {
	for _, g := range p.Ext(f) {
		Calls(g, fn)
	}
}

// ExtInstrs calls fn for every instruction of f and of its private helpers.
func (p *Prog) ExtInstrs(f *ssa.Function, fn func(ssa.Instruction)) {
	for _, g := range p.Ext(f) {
		Instrs(g, fn)
	}
}

// Contexts enumerates, for instruction ins, the chains of call sites through
// which its function is entered from private callers, up to (and excluding)
// functions for which stop returns true or that are not private. Each context
// is the list of conditions known along the chain (innermost first). A function
// entered from several sites yields several contexts.
func (p *Prog) Contexts(ins ssa.Instruction, stop func(*ssa.Function) bool) [][]Cond {
	var out [][]Cond
	var walk func(at ssa.Instruction, acc []Cond, depth int)
	walk = func(at ssa.Instruction, acc []Cond, depth int) {
		acc = append(append([]Cond{}, acc...), CondsAt(at.Block())...)
		f := at.Parent()
		if depth > 5 || (stop != nil && stop(f)) || !p.private(f) {
			out = append(out, acc)
			return
		}
		sites := p.Callers(f)
		if len(sites) == 0 {
			// closure passed to an external synchronous function: continue at its creation point
			if f.Parent() != nil {
				var mk ssa.Instruction
				Instrs(f.Parent(), func(i ssa.Instruction) {
					if mc, ok := i.(*ssa.MakeClosure); ok && mc.Fn == f {
						mk = mc
					}
				})
				if mk != nil {
					walk(mk, acc, depth+1)
					return
				}
			}
			out = append(out, acc)
			return
		}
		for _, s := range sites {
			walk(s.Instr, acc, depth+1)
		}
	}
	walk(ins, nil, 0)
	return out
}

// AllContexts reports whether pred holds for the conditions of every context of ins.
func (p *Prog) AllContexts(ins ssa.Instruction, stop func(*ssa.Function) bool, pred func([]Cond) bool) bool {
	cs := p.Contexts(ins, stop)
	if len(cs) == 0 {
		return false
	}
	for _, c := range cs {
		if !pred(c) {
			return false
		}
	}
	return true
}

// IDominates: a executes before b on every path to b, looking through private
// helpers: b may sit in a helper whose every call site is dominated by a, and
// a may sit in a helper that b's function calls (a on every path through the
// helper, the call dominating b).
func (p *Prog) IDominates(a, b ssa.Instruction) bool {
	return p.idom(a, b, 0)
}

func (p *Prog) idom(a, b ssa.Instruction, depth int) bool {
	if depth > 5 {
		return false
	}
	if a.Parent() == b.Parent() {
		return InstrDominates(a, b)
	}
	// b in a private helper (or goroutine closure): every entry must be dominated by a
	fb := b.Parent()
	if p.private(fb) {
		sites := p.Callers(fb)
		if len(sites) > 0 {
			all := true
			for _, s := range sites {
				if !(s.Instr == a || p.idom(a, s.Instr, depth+1)) {
					all = false
				}
			}
			if all {
				return true
			}
		} else if fb.Parent() != nil {
			var mk ssa.Instruction
			Instrs(fb.Parent(), func(i ssa.Instruction) {
				if mc, ok := i.(*ssa.MakeClosure); ok && mc.Fn == fb {
					mk = mc
				}
			})
			if mk != nil && p.idom(a, mk, depth+1) {
				return true
			}
		}
	}
	// a in a private helper called (plainly) from b's function: a must execute on every path
	// through the helper, and that call must dominate b
	fa := a.Parent()
	if p.private(fa) {
		all := AllReturnsDominatedBy(a)
		for _, s := range p.Callers(fa) {
			call, isCall := s.Instr.(*ssa.Call)
			if !isCall {
				continue
			}
			if all && p.idom(s.Instr, b, depth+1) {
				return true
			}
			if !all && condDominates(a, call, b) {
				return true
			}
		}
	}
	return false
}

// condDominates: a sits in the function called at call; the returns of that
// function that a does not dominate all return a constant (false/true/nil),
// and b is reached only on an outcome of the call's result that excludes those
// constants — so a executed whenever b is reached.
func condDominates(a ssa.Instruction, call *ssa.Call, b ssa.Instruction) bool {
	if call.Parent() != b.Parent() || !InstrDominates(call, b) {
		return false
	}
	h := a.Parent()
	if h.Signature.Results().Len() != 1 {
		return false
	}
	escNil, escTrue, escFalse := false, false, false
	for _, r := range Returns(h) {
		if InstrDominates(a, r) {
			continue
		}
		v := ReturnResult(r, 0)
		if IsNilConst(v) {
			escNil = true
			continue
		}
		if k, ok := boolConst(v); ok {
			if k {
				escTrue = true
			} else {
				escFalse = true
			}
			continue
		}
		return false
	}
	for _, cd := range CondsAt(b.Block()) {
		if cd.V == ssa.Value(call) && !escNil {
			// result is cd.Truth here: the escaping returns must all yield the other value
			if cd.Truth && !escTrue && escFalse {
				return true
			}
			if !cd.Truth && !escFalse && escTrue {
				return true
			}
		}
		if x, eq, ok := NilCompare(cd.V); ok && x == ssa.Value(call) && eq != cd.Truth && escNil && !escTrue && !escFalse {
			return true
		}
	}
	return false
}

// MustPass reports whether every path from the first instruction of f to a
// (non-recover) return passes an instruction satisfying goal, where a plain
// call of a private helper counts when the helper itself must pass goal.
func (p *Prog) MustPass(f *ssa.Function, goal func(ssa.Instruction) bool, depth int) bool {
	if len(f.Blocks) == 0 || len(f.Blocks[0].Instrs) == 0 || depth > 4 {
		return false
	}
	g := p.LiftGoal(goal, depth)
	first := f.Blocks[0].Instrs[0]
	if g(first) {
		return true
	}
	ok, _ := PathQuery{Goal: g}.MustReach(first)
	return ok
}

// LiftGoal extends an instruction predicate to plain calls of private helpers
// that must pass it.
func (p *Prog) LiftGoal(goal func(ssa.Instruction) bool, depth int) func(ssa.Instruction) bool {
	return func(i ssa.Instruction) bool {
		if goal(i) {
			return true
		}
		call, ok := i.(*ssa.Call)
		if !ok {
			return false
		}
		gs, _ := p.Callees(call)
		if len(gs) != 1 || !p.InRepo[gs[0]] || !p.private(gs[0]) || gs[0] == i.Parent() {
			return false
		}
		return p.MustPass(gs[0], goal, depth+1)
	}
}

// Canon normalises v (NormCell) and, when it is a parameter of a private
// function with exactly one resolved call site, continues with the argument
// passed there: a value keeps its identity when code is moved into or out of a
// single-use helper.
func (p *Prog) Canon(v ssa.Value) ssa.Value {
	for depth := 0; depth < 6; depth++ {
		v = NormCell(v)
		// a field of a "method object": a record built once by a composite literal whose field
		// is never assigned again anywhere — reading it yields what the literal stored
		// (`w := &watch{ctx: ctx, id: id}; go w.run()` — inside run, w.id is id)
		if u, isU := v.(*ssa.UnOp); isU && u.Op == token.MUL {
			if fa, isFA := u.X.(*ssa.FieldAddr); isFA {
				if fv := FieldVar(fa); fv != nil && len(p.fieldStores[fv]) == 1 {
					st := p.fieldStores[fv][0]
					sfa, _ := st.Addr.(*ssa.FieldAddr)
					if sfa != nil {
						if al, isAl := sfa.X.(*ssa.Alloc); isAl && depth < 5 {
							if base := p.canonBase(fa.X, depth); base == ssa.Value(al) {
								v = st.Val
								continue
							}
						}
					}
				}
			}
			return v
		}
		par, ok := v.(*ssa.Parameter)
		if !ok {
			return v
		}
		f := par.Parent()
		site, ok := p.SoleCaller(f)
		if !ok {
			return v
		}
		idx := -1
		for i, q := range f.Params {
			if q == par {
				idx = i
			}
		}
		args := site.Instr.Common().Args
		if idx < 0 || len(args) != len(f.Params) {
			return v
		}
		v = args[idx]
	}
	return v
}

// canonBase canonicalises the base of a field selection (a receiver parameter of
// a method with one call site, a local copy) without looking into fields.
func (p *Prog) canonBase(v ssa.Value, depth int) ssa.Value {
	for ; depth < 6; depth++ {
		v = NormCell(v)
		par, ok := v.(*ssa.Parameter)
		if !ok {
			return v
		}
		f := par.Parent()
		site, ok := p.SoleCaller(f)
		if !ok {
			return v
		}
		idx := -1
		for i, q := range f.Params {
			if q == par {
				idx = i
			}
		}
		args := site.Instr.Common().Args
		if idx < 0 || len(args) != len(f.Params) {
			return v
		}
		v = args[idx]
	}
	return v
}

// CondsWithin returns the branch outcomes known at ins in every context through
// which it is reached inside root's extended body: the outcomes of its own
// function plus, for each chain of private call sites up to root, those at the
// call sites (only outcomes common to all chains are kept).
func (p *Prog) CondsWithin(ins ssa.Instruction, root *ssa.Function) []Cond {
	ctxs := p.Contexts(ins, func(f *ssa.Function) bool { return f == root })
	if len(ctxs) == 0 {
		return CondsAt(ins.Block())
	}
	out := ctxs[0]
	for _, cs := range ctxs[1:] {
		var keep []Cond
		for _, a := range out {
			for _, b := range cs {
				if a.V == b.V && a.Truth == b.Truth {
					keep = append(keep, a)
					break
				}
			}
		}
		out = keep
	}
	return out
}

// NormConds normalises branch outcomes (see normalizeAll).
func NormConds(cs []Cond) []Cond { return normalizeAll(cs, 0) }

// LoopBlocks returns the natural loop of header hdr: the blocks dominated by
// hdr from which hdr can be reached again.
func LoopBlocks(hdr *ssa.BasicBlock) map[*ssa.BasicBlock]bool {
	in := map[*ssa.BasicBlock]bool{hdr: true}
	for _, b := range hdr.Parent().Blocks {
		if b != hdr && hdr.Dominates(b) && blockReaches(b, hdr) {
			in[b] = true
		}
	}
	return in
}

// IterationPathsAvoiding enumerates the acyclic paths of one iteration of the
// loop headed by hdr that never enter block avoid: from hdr to the next visit
// of hdr. For each it returns the normalised branch outcomes taken along the
// way. exits counts such paths that leave the loop from a block other than
// the header (break / return before reaching avoid).
func IterationPathsAvoiding(hdr, avoid *ssa.BasicBlock) (paths [][]Cond, exits int) {
	in := LoopBlocks(hdr)
	onPath := map[*ssa.BasicBlock]bool{}
	var walk func(b, prev *ssa.BasicBlock, acc []Cond)
	walk = func(b, prev *ssa.BasicBlock, acc []Cond) {
		if len(paths) > 64 {
			return
		}
		onPath[b] = true
		defer func() { onPath[b] = false }()
		for _, s := range b.Succs {
			next := acc
			if own, ok := EdgeOwnCond(b, s); ok {
				// a condition that is a phi of this very block is decided by the predecessor the
				// path came from: substitute that edge's value (and drop the edge if it contradicts)
				own = stripBool(own)
				feasible := true
				if phi, isPhi := own.V.(*ssa.Phi); isPhi && phi.Block() == b && prev != nil {
					for i, p := range b.Preds {
						if p != prev {
							continue
						}
						e := phi.Edges[i]
						if k, isK := boolConst(e); isK {
							if k != own.Truth {
								feasible = false
							}
							own = Cond{}
						} else {
							own = Cond{e, own.Truth, own.If}
						}
						break
					}
				}
				if !feasible {
					continue
				}
				if own.V != nil {
					next = append(append([]Cond{}, acc...), normalizeAll([]Cond{own}, 0)...)
				}
			}
			switch {
			case s == avoid:
				continue
			case s == hdr:
				if !Contradictory(next) {
					paths = append(paths, next)
				}
			case !in[s]:
				if b != hdr {
					// ignore edges into blocks that only panic
					if n := len(s.Instrs); n > 0 {
						if _, isPanic := s.Instrs[n-1].(*ssa.Panic); isPanic {
							continue
						}
					}
					exits++
				}
			case onPath[s]:
				continue
			default:
				walk(s, b, next)
			}
		}
	}
	walk(hdr, nil, nil)
	return
}

// Rel returns the comparison that holds given branch outcome c: for a BinOp
// condition `x op y` with outcome false, the negated operator is returned.
func Rel(c Cond) (x, y ssa.Value, op token.Token, ok bool) {
	c = stripBool(c)
	bo, isBO := c.V.(*ssa.BinOp)
	if !isBO {
		return nil, nil, token.ILLEGAL, false
	}
	neg := map[token.Token]token.Token{token.EQL: token.NEQ, token.NEQ: token.EQL, token.LSS: token.GEQ, token.GEQ: token.LSS, token.GTR: token.LEQ, token.LEQ: token.GTR}
	if _, known := neg[bo.Op]; !known {
		return nil, nil, token.ILLEGAL, false
	}
	op = bo.Op
	if !c.Truth {
		op = neg[op]
	}
	return bo.X, bo.Y, op, true
}

// NonEmptyLen reports whether outcome c says len(s) > 0 for some s, in any of
// the usual spellings (len != 0, len > 0, len >= 1, 0 < len, negations of the
// complements), and returns s.
func NonEmptyLen(c Cond) (ssa.Value, bool) {
	x, y, op, ok := Rel(c)
	if !ok {
		return nil, false
	}
	if s, isLen := LenOf(x); isLen {
		if k, isC := ConstInt(y); isC {
			if (k == 0 && (op == token.NEQ || op == token.GTR)) || (k == 1 && op == token.GEQ) {
				return s, true
			}
		}
	}
	if s, isLen := LenOf(y); isLen {
		if k, isC := ConstInt(x); isC {
			if (k == 0 && (op == token.NEQ || op == token.LSS)) || (k == 1 && op == token.LEQ) {
				return s, true
			}
		}
	}
	return nil, false
}

// CondAltsAt lists the alternative conjunctions of branch outcomes under which
// block b is entered: for a block with several forward predecessors (the body
// of `if a || b`, a shared case body) one alternative per entering path,
// otherwise the single conjunction CondsAt(b).
func CondAltsAt(b *ssa.BasicBlock) [][]Cond {
	return condAltsAt(b, 0)
}

func condAltsAt(b *ssa.BasicBlock, depth int) [][]Cond {
	var fwd []*ssa.BasicBlock
	for _, p := range b.Preds {
		if !b.Dominates(p) {
			fwd = append(fwd, p)
		}
	}
	if len(fwd) <= 1 || depth > 3 {
		return [][]Cond{CondsAt(b)}
	}
	var out [][]Cond
	for _, p := range fwd {
		for _, a := range condAltsAt(p, depth+1) {
			alt := append([]Cond{}, a...)
			if own, ok := EdgeOwnCond(p, b); ok {
				alt = append(alt, normalizeAll([]Cond{own}, 0)...)
			}
			out = append(out, alt)
		}
	}
	if len(out) > 32 {
		return [][]Cond{CondsAt(b)}
	}
	return out
}

// SameValue reports whether a and b denote the same value: identical SSA
// values after normalisation, or equal pure projections (field of a struct
// value, component of a tuple) of the same value — go/ssa performs no common
// subexpression elimination, so `pc.rsp` written twice yields two Field
// instructions.
func SameValue(a, b ssa.Value) bool {
	for depth := 0; depth < 4; depth++ {
		a, b = NormCell(a), NormCell(b)
		if a == b {
			return true
		}
		switch x := a.(type) {
		case *ssa.Field:
			y, ok := b.(*ssa.Field)
			if !ok || x.Field != y.Field {
				return false
			}
			a, b = x.X, y.X
		case *ssa.Extract:
			y, ok := b.(*ssa.Extract)
			if !ok || x.Index != y.Index {
				return false
			}
			a, b = x.Tuple, y.Tuple
		case *ssa.UnOp:
			// two loads of the same field of the same local struct variable
			y, ok := b.(*ssa.UnOp)
			if !ok || x.Op != token.MUL || y.Op != token.MUL {
				return false
			}
			fx, ok1 := x.X.(*ssa.FieldAddr)
			fy, ok2 := y.X.(*ssa.FieldAddr)
			if !ok1 || !ok2 || fx.Field != fy.Field {
				return false
			}
			if ax, ok := fx.X.(*ssa.Alloc); ok && fx.X == fy.X && !ax.Heap {
				return true
			}
			return false
		default:
			return false
		}
	}
	return false
}

// Contradictory reports whether conds contains an outcome and its opposite for
// the same condition value: such a path cannot be executed.
func Contradictory(conds []Cond) bool {
	for i, a := range conds {
		for _, b := range conds[i+1:] {
			if a.V == b.V && a.Truth != b.Truth {
				return true
			}
		}
	}
	return false
}

// EvalBool interprets a small side-effect-free function with a boolean result
// under an assignment of truth values to atoms: atomOf names the atom a value
// stands for (neg: the value is the atom's negation). The walk follows the
// branches the assignment selects, resolves phis by the edge taken and stops at
// the first return. ok is false when a value outside the recognised forms
// decides a branch or the result, or the walk does not terminate quickly.
func EvalBool(f *ssa.Function, atomOf func(ssa.Value) (name string, neg, ok bool), assign map[string]bool) (result, ok bool) {
	return evalBool(nil, f, atomOf, assign, 0)
}

// EvalBool is the package-level EvalBool that additionally looks into calls of
// the repository's own private boolean helpers (interpreting them under the
// same assignment), so that a predicate split into smaller predicates is
// judged like the original.
func (p *Prog) EvalBool(f *ssa.Function, atomOf func(ssa.Value) (name string, neg, ok bool), assign map[string]bool) (result, ok bool) {
	return evalBool(p, f, atomOf, assign, 0)
}

func evalBool(p *Prog, f *ssa.Function, atomOf func(ssa.Value) (name string, neg, ok bool), assign map[string]bool, level int) (result, ok bool) {
	if len(f.Blocks) == 0 || level > 3 {
		return false, false
	}
	var prev *ssa.BasicBlock
	b := f.Blocks[0]
	phiVal := map[*ssa.Phi]bool{}
	var eval func(v ssa.Value, depth int) (bool, bool)
	eval = func(v ssa.Value, depth int) (bool, bool) {
		if depth > 20 {
			return false, false
		}
		if name, neg, isAtom := atomOf(v); isAtom {
			val, known := assign[name]
			if !known {
				return false, false
			}
			return val != neg, true
		}
		switch x := v.(type) {
		case *ssa.Const:
			if x.Value != nil && x.Value.Kind() == constant.Bool {
				return constant.BoolVal(x.Value), true
			}
		case *ssa.UnOp:
			if x.Op == token.NOT {
				r, ok := eval(x.X, depth+1)
				return !r, ok
			}
		case *ssa.Phi:
			if r, done := phiVal[x]; done {
				return r, true
			}
		case *ssa.Call:
			if p != nil {
				if h := x.Call.StaticCallee(); h != nil && p.InRepo[h] && h.Signature.Results().Len() == 1 && h.Signature.Results().At(0).Type().String() == "bool" {
					return evalBool(p, h, atomOf, assign, level+1)
				}
			}
		case *ssa.BinOp:
			// the verdict of a private classifier compared with a constant (`j.kind() != reply`):
			// known when every constant the classifier can return under the assignment compares alike
			if p != nil && (x.Op == token.EQL || x.Op == token.NEQ) {
				call, isCall := x.X.(*ssa.Call)
				k, isK := x.Y.(*ssa.Const)
				if !isCall {
					call, isCall = x.Y.(*ssa.Call)
					k, isK = x.X.(*ssa.Const)
				}
				if isCall && isK && k.Value != nil {
					if h := call.Call.StaticCallee(); h != nil && p.InRepo[h] && !exported(h) && h.Signature.Results().Len() == 1 {
						set, known := evalConstSet(p, h, atomOf, assign, level+1)
						if !known || len(set) == 0 {
							return false, false
						}
						want := k.Value.ExactString()
						nEq := 0
						for c := range set {
							if c == want {
								nEq++
							}
						}
						switch {
						case nEq == len(set) && len(set) == 1:
							return x.Op == token.EQL, true
						case nEq == 0:
							return x.Op == token.NEQ, true
						}
					}
				}
			}
		}
		return false, false
	}
	for step := 0; step < 200; step++ {
		// phis first, from the edge taken
		for _, ins := range b.Instrs {
			phi, isPhi := ins.(*ssa.Phi)
			if !isPhi {
				break
			}
			for i, p := range b.Preds {
				if p == prev {
					if r, ok := eval(phi.Edges[i], 0); ok {
						phiVal[phi] = r
					} else {
						delete(phiVal, phi)
					}
				}
			}
		}
		last := b.Instrs[len(b.Instrs)-1]
		switch x := last.(type) {
		case *ssa.Return:
			if len(x.Results) == 0 {
				return false, false
			}
			return eval(x.Results[0], 0)
		case *ssa.If:
			r, ok := eval(x.Cond, 0)
			if !ok {
				return false, false
			}
			prev = b
			if r {
				b = b.Succs[0]
			} else {
				b = b.Succs[1]
			}
		case *ssa.Jump:
			prev = b
			b = b.Succs[0]
		default:
			return false, false
		}
	}
	return false, false
}

// evalConstSet lists the constants (rendered exactly) f can return under a
// truth assignment to atoms: branches the assignment decides are followed,
// branches it does not decide are followed both ways. known is false when a
// return is not a constant or the walk does not finish quickly.
func evalConstSet(p *Prog, f *ssa.Function, atomOf func(ssa.Value) (name string, neg, ok bool), assign map[string]bool, level int) (set map[string]bool, known bool) {
	if len(f.Blocks) == 0 || level > 3 {
		return nil, false
	}
	set = map[string]bool{}
	budget := 400
	var evalCond func(v ssa.Value, phis map[*ssa.Phi]bool, depth int) (bool, bool)
	evalCond = func(v ssa.Value, phis map[*ssa.Phi]bool, depth int) (bool, bool) {
		if depth > 20 {
			return false, false
		}
		if name, neg, isAtom := atomOf(v); isAtom {
			val, has := assign[name]
			if !has {
				return false, false
			}
			return val != neg, true
		}
		switch x := v.(type) {
		case *ssa.Const:
			if x.Value != nil && x.Value.Kind() == constant.Bool {
				return constant.BoolVal(x.Value), true
			}
		case *ssa.UnOp:
			if x.Op == token.NOT {
				r, ok := evalCond(x.X, phis, depth+1)
				return !r, ok
			}
		case *ssa.Phi:
			if r, has := phis[x]; has {
				return r, true
			}
		case *ssa.BinOp:
			// `true == <expr>`: a case of a tagless switch
			if x.Op == token.EQL || x.Op == token.NEQ {
				for _, pr := range [][2]ssa.Value{{x.X, x.Y}, {x.Y, x.X}} {
					if k, isK := pr[0].(*ssa.Const); isK && k.Value != nil && k.Value.Kind() == constant.Bool {
						r, ok := evalCond(pr[1], phis, depth+1)
						return (r == constant.BoolVal(k.Value)) == (x.Op == token.EQL), ok
					}
				}
			}
		case *ssa.Call:
			if h := x.Call.StaticCallee(); h != nil && p.InRepo[h] && h.Signature.Results().Len() == 1 && h.Signature.Results().At(0).Type().String() == "bool" {
				return evalBool(p, h, atomOf, assign, level+1)
			}
		}
		return false, false
	}
	ok := true
	var walk func(b, prev *ssa.BasicBlock, phis map[*ssa.Phi]bool, steps int)
	walk = func(b, prev *ssa.BasicBlock, phis map[*ssa.Phi]bool, steps int) {
		budget--
		if budget <= 0 || steps > 60 {
			ok = false
			return
		}
		// boolean phis (short-circuit tests), from the edge taken
		var mine map[*ssa.Phi]bool
		for _, ins := range b.Instrs {
			phi, isPhi := ins.(*ssa.Phi)
			if !isPhi {
				break
			}
			for i, pb := range b.Preds {
				if pb != prev {
					continue
				}
				if r, decided := evalCond(phi.Edges[i], phis, 0); decided {
					if mine == nil {
						mine = map[*ssa.Phi]bool{}
						for k, v := range phis {
							mine[k] = v
						}
					}
					mine[phi] = r
				}
			}
		}
		if mine != nil {
			phis = mine
		}
		switch x := b.Instrs[len(b.Instrs)-1].(type) {
		case *ssa.Return:
			if len(x.Results) != 1 {
				ok = false
				return
			}
			v := x.Results[0]
			if phi, isPhi := v.(*ssa.Phi); isPhi && phi.Block() == b {
				for i, pb := range b.Preds {
					if pb == prev {
						v = phi.Edges[i]
					}
				}
			}
			k, isK := v.(*ssa.Const)
			if !isK || k.Value == nil {
				ok = false
				return
			}
			set[k.Value.ExactString()] = true
		case *ssa.If:
			if r, decided := evalCond(x.Cond, phis, 0); decided {
				if r {
					walk(b.Succs[0], b, phis, steps+1)
				} else {
					walk(b.Succs[1], b, phis, steps+1)
				}
				return
			}
			walk(b.Succs[0], b, phis, steps+1)
			walk(b.Succs[1], b, phis, steps+1)
		case *ssa.Jump:
			walk(b.Succs[0], b, phis, steps+1)
		default:
			ok = false
		}
	}
	walk(f.Blocks[0], nil, map[*ssa.Phi]bool{}, 0)
	return set, ok
}

// WalkNilPaths enumerates the acyclic paths from block start that are feasible
// with respect to nil-ness: phis take the value of the edge the path came
// through, and a nil comparison (or an equality with a package-level variable,
// which implies non-nil) whose outcome contradicts what the path already
// established prunes the branch. visit is called for every block entered, with
// the path so far (ending in that block) and a resolver for values through the
// path's phi choices; returning false stops the extension of that path. The
// walk gives up (ok = false) after a fixed budget of visits.
func WalkNilPaths(start *ssa.BasicBlock, visit func(path []*ssa.BasicBlock, resolve func(ssa.Value) ssa.Value) bool) (ok bool) {
	return WalkNilPathsKnowing(start, nil, visit)
}

// WalkNilPathsKnowing is WalkNilPaths with a predicate for values that are
// never nil (fresh allocations, constructor results): a nil test on such a
// value has only one feasible outcome.
func WalkNilPathsKnowing(start *ssa.BasicBlock, nonNil func(ssa.Value) bool, visit func(path []*ssa.BasicBlock, resolve func(ssa.Value) ssa.Value) bool) (ok bool) {
	budget := 20000
	ok = true
	type env struct {
		phi  map[*ssa.Phi]ssa.Value
		fact map[ssa.Value]bool // value → is nil
	}
	resolveIn := func(e env) func(ssa.Value) ssa.Value {
		return func(v ssa.Value) ssa.Value {
			for i := 0; i < 10; i++ {
				switch x := v.(type) {
				case *ssa.Phi:
					if r, has := e.phi[x]; has {
						v = r
						continue
					}
				case *ssa.ChangeInterface:
					v = x.X
					continue
				}
				break
			}
			return v
		}
	}
	var walk func(b, prev *ssa.BasicBlock, path []*ssa.BasicBlock, e env)
	walk = func(b, prev *ssa.BasicBlock, path []*ssa.BasicBlock, e env) {
		if budget <= 0 {
			ok = false
			return
		}
		budget--
		// phi choices
		ne := env{phi: map[*ssa.Phi]ssa.Value{}, fact: map[ssa.Value]bool{}}
		for k, v := range e.phi {
			ne.phi[k] = v
		}
		for k, v := range e.fact {
			ne.fact[k] = v
		}
		if prev != nil {
			for _, ins := range b.Instrs {
				phi, isPhi := ins.(*ssa.Phi)
				if !isPhi {
					break
				}
				for i, p := range b.Preds {
					if p == prev {
						ne.phi[phi] = resolveIn(e)(phi.Edges[i])
					}
				}
			}
		}
		resolve := resolveIn(ne)
		path = append(path, b)
		if !visit(path, resolve) {
			return
		}
		onPath := func(s *ssa.BasicBlock) bool {
			for _, p := range path {
				if p == s {
					return true
				}
			}
			return false
		}
		last := b.Instrs[len(b.Instrs)-1]
		iff, isIf := last.(*ssa.If)
		for i, s := range b.Succs {
			if onPath(s) {
				continue
			}
			se := ne
			if isIf {
				truth := i == 0
				cd := stripBool(Cond{V: iff.Cond, Truth: truth})
				var subj ssa.Value
				var isNil, have bool
				if x, eq, isCmp := NilCompare(cd.V); isCmp {
					subj, isNil, have = resolve(x), eq == cd.Truth, true
				} else if bo, isBO := cd.V.(*ssa.BinOp); isBO && (bo.Op == token.EQL || bo.Op == token.NEQ) {
					equal := (bo.Op == token.EQL) == cd.Truth
					for _, pr := range [][2]ssa.Value{{bo.X, bo.Y}, {bo.Y, bo.X}} {
						if u, isU := pr[1].(*ssa.UnOp); isU && u.Op == token.MUL {
							if _, isG := u.X.(*ssa.Global); isG && equal {
								subj, isNil, have = resolve(pr[0]), false, true
							}
						}
					}
				}
				if have {
					if k, isK := subj.(*ssa.Const); isK && k.IsNil() {
						if !isNil {
							continue
						}
					} else if nonNil != nil && nonNil(subj) {
						if isNil {
							continue
						}
					} else if known, has := ne.fact[subj]; has {
						if known != isNil {
							continue
						}
					} else {
						se = env{phi: ne.phi, fact: map[ssa.Value]bool{}}
						for k, v := range ne.fact {
							se.fact[k] = v
						}
						se.fact[subj] = isNil
					}
				}
			}
			walk(s, b, path, se)
		}
	}
	walk(start, nil, nil, env{phi: map[*ssa.Phi]ssa.Value{}, fact: map[ssa.Value]bool{}})
	return ok
}

// SameFieldLoad reports whether a and b are loads of the same field through
// the same base pointer in one function that never stores to that field
// (go/ssa has no common-subexpression elimination, so `x.f` read twice is two
// values).
func SameFieldLoad(a, b ssa.Value) bool {
	ua, ok1 := a.(*ssa.UnOp)
	ub, ok2 := b.(*ssa.UnOp)
	if !ok1 || !ok2 || ua.Op != token.MUL || ub.Op != token.MUL {
		return false
	}
	fa, ok1 := ua.X.(*ssa.FieldAddr)
	fb, ok2 := ub.X.(*ssa.FieldAddr)
	if !ok1 || !ok2 || fa.Field != fb.Field || fa.X != fb.X || fa.Parent() != fb.Parent() {
		return false
	}
	written := false
	Instrs(fa.Parent(), func(ins ssa.Instruction) {
		if st, ok := ins.(*ssa.Store); ok {
			if f2, ok := st.Addr.(*ssa.FieldAddr); ok && f2.Field == fa.Field && FieldOwner(f2) == FieldOwner(fa) {
				written = true
			}
		}
	})
	return !written
}

// PathConds returns the branch outcomes taken along a path of blocks.
func PathConds(path []*ssa.BasicBlock) []Cond {
	var out []Cond
	for i := 0; i+1 < len(path); i++ {
		if cd, ok := EdgeOwnCond(path[i], path[i+1]); ok {
			out = append(out, stripBool(cd))
		}
	}
	return out
}

// FunctionPathsAvoiding enumerates the acyclic paths from the entry of f to a
// return that never enter block avoid, and returns the branch outcomes taken
// along each (normalised).
func FunctionPathsAvoiding(f *ssa.Function, avoid *ssa.BasicBlock) [][]Cond {
	var paths [][]Cond
	if len(f.Blocks) == 0 {
		return nil
	}
	var walk func(b *ssa.BasicBlock, path []*ssa.BasicBlock)
	walk = func(b *ssa.BasicBlock, path []*ssa.BasicBlock) {
		if len(paths) > 64 || b == avoid {
			return
		}
		for _, p := range path {
			if p == b {
				return
			}
		}
		path = append(append([]*ssa.BasicBlock{}, path...), b)
		if n := len(b.Instrs); n > 0 {
			if _, isRet := b.Instrs[n-1].(*ssa.Return); isRet {
				conds := NormConds(PathConds(path))
				if !Contradictory(conds) {
					paths = append(paths, conds)
				}
				return
			}
		}
		for _, s := range b.Succs {
			walk(s, path)
		}
	}
	walk(f.Blocks[0], nil)
	return paths
}

// FieldVal is the value one field of a struct result has at one return of the
// function that produced it: Val, or the zero value when Zero is set.
type FieldVal struct {
	Val  ssa.Value
	Zero bool
	Ret  *ssa.Return
}

// StructFieldOrigin resolves a read of field k of a struct that is result i of
// a call to a function with a body: v is `extract(call,i).k` directly or through
// a local the result was assigned to. It returns the call, i and k.
func StructFieldOrigin(v ssa.Value) (call *ssa.Call, res, field int, ok bool) {
	var base ssa.Value
	switch x := v.(type) {
	case *ssa.Field:
		base, field = x.X, x.Field
	case *ssa.UnOp:
		fa, isFA := x.X.(*ssa.FieldAddr)
		if x.Op != token.MUL || !isFA {
			return nil, 0, 0, false
		}
		al, isAl := fa.X.(*ssa.Alloc)
		if !isAl {
			return nil, 0, 0, false
		}
		field = fa.Field
		// the local holds exactly one whole-struct assignment and no field is written
		for _, ref := range *al.Referrers() {
			switch r := ref.(type) {
			case *ssa.Store:
				if r.Addr != ssa.Value(al) || base != nil {
					return nil, 0, 0, false
				}
				base = r.Val
			case *ssa.FieldAddr:
				for _, rr := range *r.Referrers() {
					if st, isSt := rr.(*ssa.Store); isSt && st.Addr == ssa.Value(r) {
						return nil, 0, 0, false
					}
				}
			case *ssa.DebugRef, *ssa.UnOp:
			default:
				return nil, 0, 0, false
			}
		}
	default:
		return nil, 0, 0, false
	}
	switch b := base.(type) {
	case *ssa.Extract:
		if cl, isCall := b.Tuple.(*ssa.Call); isCall {
			return cl, b.Index, field, true
		}
	case *ssa.Call:
		return b, 0, field, true
	}
	return nil, 0, 0, false
}

// ResultFieldVals lists, for every return of g, the value field k of result i
// has there. ok is false when some return builds the struct in a way this does
// not follow (anything but a zero constant or a local with at most one
// assignment to the field, made before the local is read for the return).
func ResultFieldVals(g *ssa.Function, i, k int) (out []FieldVal, ok bool) {
	for _, r := range Returns(g) {
		if i >= len(r.Results) {
			return nil, false
		}
		if g.Recover != nil && r.Block() == g.Recover {
			continue // the exit taken after a recovered panic
		}
		v := r.Results[i]
		// a function with defers returns through a result cell: `*res = v; rundefers; return *res`
		for depth := 0; depth < 3; depth++ {
			ld0, isLd := v.(*ssa.UnOp)
			if !isLd || ld0.Op != token.MUL {
				break
			}
			cell, isAl := ld0.X.(*ssa.Alloc)
			if !isAl {
				break
			}
			var last *ssa.Store
			for _, ins := range ld0.Block().Instrs {
				if ins == ssa.Instruction(ld0) {
					break
				}
				if st, isSt := ins.(*ssa.Store); isSt && st.Addr == ssa.Value(cell) {
					last = st
				}
			}
			if last == nil {
				break
			}
			v = last.Val
		}
		if c, isC := v.(*ssa.Const); isC && c.Value == nil {
			out = append(out, FieldVal{Zero: true, Ret: r})
			continue
		}
		ld, isLd := v.(*ssa.UnOp)
		if !isLd || ld.Op != token.MUL {
			return nil, false
		}
		al, isAl := ld.X.(*ssa.Alloc)
		if !isAl {
			return nil, false
		}
		var stores []*ssa.Store
		for _, ref := range *al.Referrers() {
			switch x := ref.(type) {
			case *ssa.FieldAddr:
				for _, rr := range *x.Referrers() {
					switch y := rr.(type) {
					case *ssa.Store:
						if y.Addr == ssa.Value(x) && x.Field == k {
							stores = append(stores, y)
						}
					case *ssa.UnOp, *ssa.DebugRef:
					default:
						if x.Field == k {
							return nil, false // the field's address escapes
						}
					}
				}
			case *ssa.Store:
				if x.Addr == ssa.Value(al) {
					return nil, false // whole-struct assignment
				}
			case *ssa.UnOp, *ssa.DebugRef:
			default:
				return nil, false
			}
		}
		switch {
		case len(stores) == 0:
			out = append(out, FieldVal{Zero: true, Ret: r})
		case len(stores) == 1 && InstrDominates(stores[0], ld):
			out = append(out, FieldVal{Val: stores[0].Val, Ret: r})
		default:
			return nil, false
		}
	}
	return out, len(out) > 0
}

// GlobalTable reads a package-level table of records — `var T = [...]struct{…}{{a, b}, {c, d}}`
// or the slice form — from the package initialiser: rows[i][k] is the value
// written to field k of entry i (nil where the literal leaves the zero value).
// ok is false unless the variable is assigned exactly once, in the initialiser,
// from a composite literal, and nothing in the repository writes through it.
func (p *Prog) GlobalTable(g *ssa.Global) (rows [][]ssa.Value, ok bool) {
	if g == nil || g.Pkg == nil {
		return nil, false
	}
	ini := g.Pkg.Func("init")
	if ini == nil || len(p.globStores[g]) != 0 {
		return nil, false
	}
	// nothing but whole-value loads of the variable, and no element store through a loaded slice
	for _, f := range p.Funcs {
		bad := false
		Instrs(f, func(ins ssa.Instruction) {
			for _, op := range ins.Operands(nil) {
				if *op != ssa.Value(g) {
					continue
				}
				ld, isLd := ins.(*ssa.UnOp)
				if !isLd || ld.Op != token.MUL {
					bad = true
					continue
				}
				for _, ref := range *ld.Referrers() {
					if ia, isIA := ref.(*ssa.IndexAddr); isIA {
						for _, r2 := range *ia.Referrers() {
							switch x := r2.(type) {
							case *ssa.Store:
								if x.Addr == ssa.Value(ia) {
									bad = true
								}
							case *ssa.FieldAddr:
								for _, r3 := range *x.Referrers() {
									if st, isSt := r3.(*ssa.Store); isSt && st.Addr == ssa.Value(x) {
										bad = true
									}
								}
							}
						}
					}
				}
			}
		})
		if bad {
			return nil, false
		}
	}
	var init *ssa.Store
	n := 0
	Instrs(ini, func(ins ssa.Instruction) {
		if st, isSt := ins.(*ssa.Store); isSt && st.Addr == ssa.Value(g) {
			init = st
			n++
		}
	})
	var elems []*ssa.IndexAddr
	var arr *types.Array
	switch n {
	case 0:
		// an array variable initialised in place: &T[i].f = v
		arr, _ = g.Type().Underlying().(*types.Pointer).Elem().Underlying().(*types.Array)
		Instrs(ini, func(ins ssa.Instruction) {
			if ia, isIA := ins.(*ssa.IndexAddr); isIA && ia.X == ssa.Value(g) {
				elems = append(elems, ia)
			}
		})
	case 1:
		var backing *ssa.Alloc
		switch v := init.Val.(type) {
		case *ssa.UnOp:
			backing, _ = v.X.(*ssa.Alloc)
		case *ssa.Slice:
			backing, _ = v.X.(*ssa.Alloc)
		}
		if backing == nil {
			return nil, false
		}
		arr, _ = backing.Type().Underlying().(*types.Pointer).Elem().Underlying().(*types.Array)
		for _, ref := range *backing.Referrers() {
			if ia, isIA := ref.(*ssa.IndexAddr); isIA {
				elems = append(elems, ia)
			}
		}
	default:
		return nil, false
	}
	return rowsFromElems(elems, arr)
}

// LocalTable reads a table of records built as a composite literal in a local
// array (`for _, e := range [...]struct{…}{{a, b}, {c, d}}`), like GlobalTable.
func LocalTable(backing *ssa.Alloc) (rows [][]ssa.Value, ok bool) {
	arr, isArr := backing.Type().Underlying().(*types.Pointer).Elem().Underlying().(*types.Array)
	if !isArr {
		return nil, false
	}
	var elems []*ssa.IndexAddr
	for _, ref := range *backing.Referrers() {
		switch x := ref.(type) {
		case *ssa.IndexAddr:
			if _, isK := ConstInt(x.Index); !isK {
				return nil, false // written or read through a computed index
			}
			elems = append(elems, x)
		case *ssa.UnOp, *ssa.DebugRef, *ssa.Slice:
		default:
			return nil, false
		}
	}
	return rowsFromElems(elems, arr)
}

func rowsFromElems(elems []*ssa.IndexAddr, arr *types.Array) (rows [][]ssa.Value, ok bool) {
	if arr == nil || len(elems) == 0 {
		return nil, false
	}
	st, isStruct := arr.Elem().Underlying().(*types.Struct)
	if !isStruct {
		return nil, false
	}
	rows = make([][]ssa.Value, arr.Len())
	for i := range rows {
		rows[i] = make([]ssa.Value, st.NumFields())
	}
	fieldStores := func(base ssa.Value, row []ssa.Value) bool {
		for _, ref := range *base.Referrers() {
			fa, isFA := ref.(*ssa.FieldAddr)
			if !isFA {
				continue
			}
			for _, r2 := range *fa.Referrers() {
				if s2, isSt := r2.(*ssa.Store); isSt && s2.Addr == ssa.Value(fa) {
					if row[fa.Field] != nil {
						return false
					}
					row[fa.Field] = s2.Val
				}
			}
		}
		return true
	}
	for _, ia := range elems {
		k, isK := ConstInt(ia.Index)
		if !isK || k < 0 || int(k) >= len(rows) {
			return nil, false
		}
		if !fieldStores(ia, rows[k]) {
			return nil, false
		}
		for _, r2 := range *ia.Referrers() {
			s2, isSt := r2.(*ssa.Store)
			if !isSt || s2.Addr != ssa.Value(ia) {
				continue
			}
			ld, isLd := s2.Val.(*ssa.UnOp)
			if !isLd {
				return nil, false
			}
			lit, isAl := ld.X.(*ssa.Alloc)
			if !isAl || !fieldStores(lit, rows[k]) {
				return nil, false
			}
		}
	}
	return rows, true
}

// TableLoop describes `for _, e := range T { … e.f … }` over a package-level
// table T (see GlobalTable) inside f: Field reports which field of the current
// entry a value is; Body and Done are the loop's body and exit blocks.
type TableLoop struct {
	Table *ssa.Global
	Rows  [][]ssa.Value
	Body  *ssa.BasicBlock
	Done  *ssa.BasicBlock
	elem  map[ssa.Value]bool
}

// Field reports whether v is field k of the entry the loop is looking at.
func (t *TableLoop) Field(v ssa.Value) (int, bool) {
	switch x := v.(type) {
	case *ssa.Field:
		if t.elem[x.X] {
			return x.Field, true
		}
	case *ssa.UnOp:
		if fa, ok := x.X.(*ssa.FieldAddr); ok && x.Op == token.MUL && t.elem[fa.X] {
			return fa.Field, true
		}
	}
	return 0, false
}

// IsIndexCond reports whether cd is the loop's own bound test.
func (t *TableLoop) IsIndexCond(cd Cond) bool {
	bo, ok := cd.V.(*ssa.BinOp)
	if !ok {
		return false
	}
	return bo.Block() != nil && len(bo.Block().Succs) == 2 && (bo.Block().Succs[0] == t.Body || bo.Block().Succs[1] == t.Body) && (bo.Block().Succs[0] == t.Done || bo.Block().Succs[1] == t.Done)
}

// FindTableLoop finds a range loop over a package-level table in f.
func (p *Prog) FindTableLoop(f *ssa.Function) *TableLoop {
	var out *TableLoop
	Instrs(f, func(ins ssa.Instruction) {
		if out != nil {
			return
		}
		var base ssa.Value
		var elemVal ssa.Value
		switch x := ins.(type) {
		case *ssa.Index: // array value
			base, elemVal = x.X, x
		case *ssa.IndexAddr: // slice, or pointer to array
			base, elemVal = x.X, x
		default:
			return
		}
		ld, ok := base.(*ssa.UnOp)
		if !ok || ld.Op != token.MUL {
			return
		}
		var rows [][]ssa.Value
		g, ok := ld.X.(*ssa.Global)
		if ok {
			rows, ok = p.GlobalTable(g)
		} else if al, isAl := ld.X.(*ssa.Alloc); isAl {
			rows, ok = LocalTable(al)
		}
		if !ok {
			return
		}
		body := ins.Block()
		if len(body.Preds) != 1 {
			return
		}
		hdr := body.Preds[0]
		if len(hdr.Succs) != 2 {
			return
		}
		done := hdr.Succs[0]
		if done == body {
			done = hdr.Succs[1]
		}
		t := &TableLoop{Table: g, Rows: rows, Body: body, Done: done, elem: map[ssa.Value]bool{elemVal: true}}
		// the element copied into the range variable, or loaded through its address
		for _, ref := range *elemVal.Referrers() {
			switch y := ref.(type) {
			case *ssa.Store:
				if y.Val == elemVal {
					if al, isAl := y.Addr.(*ssa.Alloc); isAl {
						one := 0
						for _, r2 := range *al.Referrers() {
							if s2, isSt := r2.(*ssa.Store); isSt && s2.Addr == ssa.Value(al) {
								one++
							}
						}
						if one == 1 {
							t.elem[al] = true
						}
					}
				}
			case *ssa.UnOp:
				if y.Op == token.MUL {
					t.elem[y] = true
					for _, r2 := range *y.Referrers() {
						if s2, isSt := r2.(*ssa.Store); isSt && s2.Val == ssa.Value(y) {
							if al, isAl := s2.Addr.(*ssa.Alloc); isAl {
								t.elem[al] = true
							}
						}
					}
				}
			}
		}
		out = t
	})
	return out
}

// PathsTo enumerates the acyclic paths of blocks from f's entry to target
// (at most limit; ok is false when there are more).
func PathsTo(f *ssa.Function, target *ssa.BasicBlock, limit int) (paths [][]*ssa.BasicBlock, ok bool) {
	if len(f.Blocks) == 0 {
		return nil, false
	}
	ok = true
	var walk func(b *ssa.BasicBlock, path []*ssa.BasicBlock)
	walk = func(b *ssa.BasicBlock, path []*ssa.BasicBlock) {
		if !ok {
			return
		}
		for _, p := range path {
			if p == b {
				return
			}
		}
		path = append(append([]*ssa.BasicBlock{}, path...), b)
		if b == target {
			if len(paths) >= limit {
				ok = false
				return
			}
			paths = append(paths, path)
			return
		}
		if !blockReaches(b, target) {
			return
		}
		for _, s := range b.Succs {
			walk(s, path)
		}
	}
	walk(f.Blocks[0], nil)
	return paths, ok
}

// CellOnPath returns the value last stored into the local variable cell along
// path (nil when nothing was stored: the zero value).
func CellOnPath(path []*ssa.BasicBlock, cell *ssa.Alloc) ssa.Value {
	var last ssa.Value
	for _, b := range path {
		for _, ins := range b.Instrs {
			if st, ok := ins.(*ssa.Store); ok && st.Addr == ssa.Value(cell) {
				last = st.Val
			}
		}
	}
	return last
}

// IsExtractOfAny reports whether v is some component of the tuple value tup.
func IsExtractOfAny(v ssa.Value, tup ssa.Value) bool {
	e, ok := v.(*ssa.Extract)
	return ok && tup != nil && e.Tuple == tup
}
