package props

import (
	"encoding/json"
	"fmt"
	"os"
	"os/exec"
	"path/filepath"
	"sort"
	"strings"

	"jrpcvet/internal/chk"
	"jrpcvet/internal/facts"
	"jrpcvet/internal/ir"
	"jrpcvet/internal/load"
)

// VerifDir is where seeded/ and refactors/ live (set by main).
var VerifDir = "/verif"

// Analyse runs one property's rules on one tree/configuration.
func Analyse(def *Def, cfg load.Config, tier string) ([]chk.Obligation, int) {
	lp, err := load.Load(cfg)
	if err != nil {
		return []chk.Obligation{{Rule: "LOAD", Func: "-", Construct: cfg.Name(), Site: "-", Status: chk.Undecided,
			Detail: "cannot load/type-check the repository: " + strings.ReplaceAll(err.Error(), "\n", " ")}}, 0
	}
	p := ir.New(lp)
	fa := facts.Analyze(p)
	c := &chk.Ctx{P: p, F: fa, M: chk.Resolve(p)}
	for _, pr := range c.M.Problems {
		c.Undecided("ANCHOR", nil, pr, 0, "anchor resolution failed: %s", pr)
	}
	if !fa.Fixed {
		c.Undecided("ENGINE", nil, "facts fixpoint", 0, "lockset analysis did not reach a fixpoint")
	}
	for _, b := range fa.CheckSingleRoot() {
		c.Undecided("ENGINE", nil, b, 0, "path-keyed facts are ambiguous: %s", b)
	}
	def.Run(c, tier)
	c.Finish()
	return c.Obs, len(lp.Funcs)
}

// copyTree copies the Go sources of repo (no VCS data) into a fresh directory.
func copyTree(repo string) (string, error) {
	dst, err := os.MkdirTemp("", "jrpcvet-variant-")
	if err != nil {
		return "", err
	}
	err = filepath.Walk(repo, func(path string, info os.FileInfo, err error) error {
		if err != nil {
			return err
		}
		rel, _ := filepath.Rel(repo, path)
		if info.IsDir() {
			if info.Name() == ".git" || rel == "tools" {
				return filepath.SkipDir
			}
			return os.MkdirAll(filepath.Join(dst, rel), 0o755)
		}
		if !info.Mode().IsRegular() {
			return nil
		}
		b, err := os.ReadFile(path)
		if err != nil {
			return err
		}
		return os.WriteFile(filepath.Join(dst, rel), b, 0o644)
	})
	return dst, err
}

func applyPatch(dir, patch string) bool {
	cmd := exec.Command("git", "apply", "--whitespace=nowarn", patch)
	cmd.Dir = dir
	cmd.Env = append(os.Environ(), "GIT_CEILING_DIRECTORIES="+filepath.Dir(dir))
	return cmd.Run() == nil
}

type seedMeta struct {
	ID       string `json:"id"`
	CaughtBy []struct {
		Check string   `json:"check"`
		Rules []string `json:"rules"`
	} `json:"caught_by"`
}

// SelfTest validates the analyzer on variants of the current tree: seeded
// breakages recorded as caught by this property must be reported, and
// behaviour-preserving refactors must add no report. Variants whose patch no
// longer applies are counted as stale. Nothing is executed; each variant is
// loaded and analysed like the real tree. These runs validate the checker;
// they are never the evidence that the property holds.
func SelfTest(def *Def, res *chk.Result, repo string) {
	base := map[string]bool{}
	clean := true
	for _, o := range res.Obs {
		if o.Status != chk.OK {
			base[o.Key()] = true
			clean = false
		}
	}
	st := map[string]any{}
	var seeds []string
	metas, _ := filepath.Glob(filepath.Join(VerifDir, "seeded", "*", "meta.json"))
	sort.Strings(metas)
	for _, m := range metas {
		b, err := os.ReadFile(m)
		if err != nil {
			continue
		}
		var sm seedMeta
		if json.Unmarshal(b, &sm) != nil {
			continue
		}
		for _, cb := range sm.CaughtBy {
			if cb.Check == def.ID {
				seeds = append(seeds, filepath.Dir(m))
			}
		}
	}
	detected, stale, missed := 0, 0, []string{}
	var samples []string
	for _, sd := range seeds {
		dir, err := copyTree(repo)
		if err != nil {
			stale++
			continue
		}
		if !applyPatch(dir, filepath.Join(sd, "patch.diff")) {
			stale++
			os.RemoveAll(dir)
			continue
		}
		obs, _ := Analyse(def, load.Config{Dir: dir}, "quick")
		os.RemoveAll(dir)
		hit := ""
		for _, o := range obs {
			if o.Status != chk.OK && !base[o.Key()] {
				hit = o.Rule + " @ " + o.Func
				break
			}
		}
		if hit != "" {
			detected++
			if len(samples) < 6 {
				samples = append(samples, filepath.Base(sd)+" → "+hit)
			}
		} else {
			missed = append(missed, filepath.Base(sd))
		}
	}
	st["seeded_variants"] = len(seeds)
	st["seeded_detected"] = detected
	st["seeded_stale"] = stale
	st["seeded_samples"] = samples
	for _, m := range missed {
		res.Obs = append(res.Obs, chk.Obligation{Rule: "SELFTEST", Clause: "self-validation", Func: "-", Construct: "seeded " + m, Site: "-", Status: chk.Undecided,
			Detail: "the seeded breakage " + m + " (recorded as caught by this check) applies to the current tree but is no longer reported: the checker has gone blind for it", Nontrivial: true})
	}
	// refactors
	rfs, _ := filepath.Glob(filepath.Join(VerifDir, "refactors", "*", "patch.diff"))
	sort.Strings(rfs)
	silent, rstale := 0, 0
	if clean {
		for _, rf := range rfs {
			dir, err := copyTree(repo)
			if err != nil {
				rstale++
				continue
			}
			if !applyPatch(dir, rf) {
				rstale++
				os.RemoveAll(dir)
				continue
			}
			obs, _ := Analyse(def, load.Config{Dir: dir}, "quick")
			os.RemoveAll(dir)
			alarm := ""
			for _, o := range obs {
				if o.Status != chk.OK {
					alarm = fmt.Sprintf("%s in %s :: %s", o.Rule, o.Func, o.Construct)
					break
				}
			}
			name := filepath.Base(filepath.Dir(rf))
			if alarm == "" {
				silent++
			} else {
				res.Obs = append(res.Obs, chk.Obligation{Rule: "SELFTEST", Clause: "self-validation", Func: "-", Construct: "refactor " + name, Site: "-", Status: chk.Undecided,
					Detail: "the behaviour-preserving variant " + name + " raises " + alarm + ": the rule is too rigid (false alarm)", Nontrivial: true})
			}
		}
	}
	st["refactor_variants"] = len(rfs)
	st["refactor_silent"] = silent
	st["refactor_stale"] = rstale
	st["refactors_run"] = clean
	res.Extra["selftest"] = st
}
