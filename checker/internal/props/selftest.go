package props

import (
	"encoding/json"
	"fmt"
	"hash/fnv"
	"os"
	"os/exec"
	"path/filepath"
	"runtime/debug"
	"sort"
	"strings"
	"sync"

	"jrpcvet/internal/chk"
	"jrpcvet/internal/facts"
	"jrpcvet/internal/ir"
	"jrpcvet/internal/load"
)

// VerifDir is where seeded/ and refactors/ live (set by main).
var VerifDir = "/verif"

// Analyse runs one property's rules on one tree/configuration.
func Analyse(def *Def, cfg load.Config, tier string) ([]chk.Obligation, int) {
	lp, err := load.Load(cfg)
	if err != nil {
		return []chk.Obligation{{Rule: "LOAD", Func: "-", Construct: cfg.Name(), Site: "-", Status: chk.Undecided,
			Detail: "cannot load/type-check the repository: " + strings.ReplaceAll(err.Error(), "\n", " ")}}, 0
	}
	p := ir.New(lp)
	defer ir.Forget(p)
	fa := facts.Analyze(p)
	c := &chk.Ctx{P: p, F: fa, M: chk.Resolve(p)}
	reportAnchorProblems(c, def.ID)
	if !fa.Fixed {
		c.Undecided("ENGINE", nil, "facts fixpoint", 0, "lockset analysis did not reach a fixpoint")
	} else if len(fa.Notes) > 0 {
		c.Pass("ENGINE", nil, "facts fixpoint", 0, "lockset / nil-state analysis: %s; %d pure forwarders read as the function they stand for", fa.Notes[len(fa.Notes)-1], p.Forwarders())
	}
	for _, b := range fa.CheckSingleRoot() {
		c.Undecided("ENGINE", nil, b, 0, "path-keyed facts are ambiguous: %s", b)
	}
	if os.Getenv("JRPCVET_DEBUG") != "" {
		DebugReader(c)
	}
	def.Run(c, tier)
	runShared(c, def.ID, tier)
	c.Finish()
	return c.Obs, len(lp.Funcs)
}

// copyTree copies the Go sources of repo (no VCS data) into a fresh directory.
func copyTree(repo string) (string, error) {
	dst, err := os.MkdirTemp("", "jrpcvet-variant-")
	if err != nil {
		return "", err
	}
	err = filepath.Walk(repo, func(path string, info os.FileInfo, err error) error {
		if err != nil {
			return err
		}
		rel, _ := filepath.Rel(repo, path)
		if info.IsDir() {
			if info.Name() == ".git" || rel == "tools" {
				return filepath.SkipDir
			}
			return os.MkdirAll(filepath.Join(dst, rel), 0o755)
		}
		if !info.Mode().IsRegular() {
			return nil
		}
		b, err := os.ReadFile(path)
		if err != nil {
			return err
		}
		return os.WriteFile(filepath.Join(dst, rel), b, 0o644)
	})
	return dst, err
}

func applyPatch(dir, patch string) bool {
	cmd := exec.Command("git", "apply", "--whitespace=nowarn", patch)
	cmd.Dir = dir
	cmd.Env = append(os.Environ(), "GIT_CEILING_DIRECTORIES="+filepath.Dir(dir))
	return cmd.Run() == nil
}

type seedMeta struct {
	ID       string `json:"id"`
	CaughtBy []struct {
		Check string   `json:"check"`
		Rules []string `json:"rules"`
	} `json:"caught_by"`
}

// SelfTest validates the analyzer on variants of the current tree: seeded
// breakages recorded as caught by this property must be reported, and
// behaviour-preserving refactors must add no report. Variants whose patch no
// longer applies are counted as stale. Nothing is executed; each variant is
// loaded and analysed like the real tree. These runs validate the checker;
// they are never the evidence that the property holds.
func SelfTest(def *Def, res *chk.Result, repo string) {
	base := map[string]bool{}
	clean := true
	for _, o := range res.Obs {
		if o.Status != chk.OK {
			base[o.Key()] = true
			clean = false
		}
	}
	st := map[string]any{}
	var seeds []string
	metas, _ := filepath.Glob(filepath.Join(VerifDir, "seeded", "*", "meta.json"))
	sort.Strings(metas)
	for _, m := range metas {
		b, err := os.ReadFile(m)
		if err != nil {
			continue
		}
		var sm seedMeta
		if json.Unmarshal(b, &sm) != nil {
			continue
		}
		for _, cb := range sm.CaughtBy {
			if cb.Check == def.ID {
				seeds = append(seeds, filepath.Dir(m))
			}
		}
	}
	detected, stale, missed := 0, 0, []string{}
	var samples []string
	type seedRes struct {
		name, hit string
		stale     bool
	}
	sres := make([]seedRes, len(seeds))
	parallel(len(seeds), func(i int) {
		sd := seeds[i]
		sres[i].name = filepath.Base(sd)
		dir, err := copyTree(repo)
		if err != nil {
			sres[i].stale = true
			return
		}
		defer os.RemoveAll(dir)
		if !applyPatch(dir, filepath.Join(sd, "patch.diff")) {
			sres[i].stale = true
			return
		}
		obs, _ := Analyse(def, load.Config{Dir: dir}, "quick")
		for _, o := range obs {
			if o.Status != chk.OK && !base[o.Key()] {
				sres[i].hit = o.Rule + " @ " + o.Func
				break
			}
		}
	})
	for _, r := range sres {
		switch {
		case r.stale:
			stale++
		case r.hit != "":
			detected++
			if len(samples) < 6 {
				samples = append(samples, r.name+" → "+r.hit)
			}
		default:
			missed = append(missed, r.name)
		}
	}
	st["seeded_variants"] = len(seeds)
	st["seeded_detected"] = detected
	st["seeded_stale"] = stale
	st["seeded_samples"] = samples
	for _, m := range missed {
		res.Obs = append(res.Obs, chk.Obligation{Rule: "SELFTEST", Clause: "self-validation", Func: "-", Construct: "seeded " + m, Site: "-", Status: chk.Undecided,
			Detail: "the seeded breakage " + m + " (recorded as caught by this check) applies to the current tree but is no longer reported: the checker has gone blind for it", Nontrivial: true})
	}
	// refactors
	rfs, _ := filepath.Glob(filepath.Join(VerifDir, "refactors", "*", "patch.diff"))
	sort.Strings(rfs)
	nAll := len(rfs)
	// Each property's run analyses the variants written for that property and a fixed
	// quarter of the others (by a hash of the name), so that twenty thorough runs cost
	// about five passes over the collection instead of twenty; every variant is still
	// analysed by five properties' runs, and tools/regress.sh analyses every variant under
	// every property. JRPCVET_ALL_REFACTORS=1 selects all of them.
	if os.Getenv("JRPCVET_ALL_REFACTORS") == "" {
		var sel []string
		for _, rf := range rfs {
			name := filepath.Base(filepath.Dir(rf))
			own := strings.Contains(name+"-", "-"+def.ID+"-")
			h := fnv.New32a()
			h.Write([]byte(name))
			var pi uint32
			fmt.Sscanf(strings.TrimPrefix(def.ID, "C"), "%d", &pi)
			if own || h.Sum32()%4 == pi%4 {
				sel = append(sel, rf)
			}
		}
		rfs = sel
	}
	silent, rstale := 0, 0
	if clean {
		type rfRes struct {
			name, alarm string
			stale       bool
		}
		rres := make([]rfRes, len(rfs))
		parallel(len(rfs), func(i int) {
			rf := rfs[i]
			rres[i].name = filepath.Base(filepath.Dir(rf))
			dir, err := copyTree(repo)
			if err != nil {
				rres[i].stale = true
				return
			}
			defer os.RemoveAll(dir)
			if !applyPatch(dir, rf) {
				rres[i].stale = true
				return
			}
			obs, _ := Analyse(def, load.Config{Dir: dir}, "quick")
			for _, o := range obs {
				if o.Status != chk.OK {
					rres[i].alarm = fmt.Sprintf("%s in %s :: %s", o.Rule, o.Func, o.Construct)
					break
				}
			}
		})
		for _, r := range rres {
			switch {
			case r.stale:
				rstale++
			case r.alarm == "":
				silent++
			default:
				res.Obs = append(res.Obs, chk.Obligation{Rule: "SELFTEST", Clause: "self-validation", Func: "-", Construct: "refactor " + r.name, Site: "-", Status: chk.Undecided,
					Detail: "the behaviour-preserving variant " + r.name + " raises " + r.alarm + ": the rule is too rigid (false alarm)", Nontrivial: true})
			}
		}
	}
	st["refactor_variants"] = len(rfs)
	st["refactor_variants_stored"] = nAll
	st["refactor_silent"] = silent
	st["refactor_stale"] = rstale
	st["refactors_run"] = clean
	res.Extra["selftest"] = st
}

// parallel runs fn(0..n-1) on a small worker pool (each variant load needs a few hundred MB).
func parallel(n int, fn func(i int)) {
	workers := 8
	if n < workers {
		workers = n
	}
	var wg sync.WaitGroup
	next := make(chan int)
	for w := 0; w < workers; w++ {
		wg.Add(1)
		go func() {
			defer wg.Done()
			for i := range next {
				fn(i)
			}
		}()
	}
	for i := 0; i < n; i++ {
		next <- i
	}
	close(next)
	wg.Wait()
}

// AnalyseAll loads one tree once and runs every registered property on it
// (development aid: used to run many variants quickly).
func AnalyseAll(cfg load.Config) map[string][]chk.Obligation {
	out := map[string][]chk.Obligation{}
	lp, err := load.Load(cfg)
	if err != nil {
		out["LOAD"] = []chk.Obligation{{Rule: "LOAD", Func: "-", Construct: cfg.Name(), Site: "-", Status: chk.Undecided, Detail: err.Error()}}
		return out
	}
	p := ir.New(lp)
	defer ir.Forget(p)
	fa := facts.Analyze(p)
	m := chk.Resolve(p)
	for _, id := range IDs() {
		func() {
			c := &chk.Ctx{P: p, F: fa, M: m}
			defer func() {
				if r := recover(); r != nil {
					if os.Getenv("JRPCVET_DEBUG") != "" {
						fmt.Fprintf(os.Stderr, "panic in %s: %v\n%s\n", id, r, debug.Stack())
					}
					out[id] = append(c.Obs, chk.Obligation{Rule: "ENGINE", Func: "-", Construct: "panic", Site: "-", Status: chk.Undecided, Detail: fmt.Sprint(r)})
				}
			}()
			reportAnchorProblems(c, id)
			if !fa.Fixed {
				c.Undecided("ENGINE", nil, "facts fixpoint", 0, "lockset analysis did not reach a fixpoint")
			}
			for _, b := range fa.CheckSingleRoot() {
				c.Undecided("ENGINE", nil, b, 0, "path-keyed facts are ambiguous: %s", b)
			}
			registry[id].Run(c, "quick")
			runShared(c, id, "quick")
			c.Finish()
			out[id] = c.Obs
		}()
	}
	return out
}

// Variants applies each patch to a copy of repo and prints, per patch, the
// properties that report something and the first few reports.
func Variants(repo string, patches []string, verbose bool) {
	lines := make([]string, len(patches))
	parallel(len(patches), func(i int) {
		dir, err := copyTree(repo)
		if err != nil {
			lines[i] = patches[i] + ": COPY FAILED"
			return
		}
		defer os.RemoveAll(dir)
		abs, _ := filepath.Abs(patches[i])
		if !applyPatch(dir, abs) {
			lines[i] = patches[i] + ": STALE (patch does not apply)"
			return
		}
		res := AnalyseAll(load.Config{Dir: dir})
		var ids []string
		for id := range res {
			ids = append(ids, id)
		}
		sort.Strings(ids)
		var hit []string
		var detail []string
		seen := map[string]bool{}
		for _, id := range ids {
			n := 0
			for _, o := range res[id] {
				if o.Status != chk.OK {
					n++
					k := o.Key()
					if !seen[k] {
						seen[k] = true
						detail = append(detail, fmt.Sprintf("    %s %s %s — %s", id, o.Site, k, o.Detail))
					}
				}
			}
			if n > 0 {
				hit = append(hit, id)
			}
		}
		lines[i] = fmt.Sprintf("%s: %v", patches[i], hit)
		if verbose {
			lines[i] += "\n" + strings.Join(detail, "\n")
		}
	})
	for _, l := range lines {
		fmt.Println(l)
	}
}

// reportAnchorProblems reports failed anchor resolutions to the properties
// whose rules use the anchors concerned (anchorDeps, generated by
// `jrpcvet -anchor-deps`: the anchors whose absence changes the property's
// verdicts on the pinned tree). A problem that cannot be tied to a missing
// anchor, or a property without an entry, gets every problem.
func reportAnchorProblems(c *chk.Ctx, id string) {
	if len(c.M.Problems) == 0 {
		return
	}
	missing := c.M.AnchorNames(true)
	deps, known := anchorDeps[id]
	relevant := !known || len(missing) == 0
	for _, a := range missing {
		if deps[a] {
			relevant = true
		}
	}
	if !relevant {
		return
	}
	for _, pr := range c.M.Problems {
		c.Undecided("ANCHOR", nil, pr, 0, "anchor resolution failed: %s", pr)
	}
}

// AnchorDeps computes, on the tree in cfg, which anchors each property
// depends on: anchor A belongs to property P when running P's rules with A
// missing changes the set of obligations or their status (or makes a rule
// fail). Printed as Go source for anchordeps_gen.go.
func AnchorDeps(cfg load.Config) string {
	lp, err := load.Load(cfg)
	if err != nil {
		return "// load failed: " + err.Error()
	}
	p := ir.New(lp)
	defer ir.Forget(p)
	fa := facts.Analyze(p)
	model := chk.Resolve(p)
	run := func(def *Def, m *chk.Model) (sig string) {
		defer func() {
			if r := recover(); r != nil {
				sig = fmt.Sprintf("panic: %v", r)
			}
		}()
		c := &chk.Ctx{P: p, F: fa, M: m}
		def.Run(c, "quick")
		runShared(c, def.ID, "quick")
		c.Finish()
		var ks []string
		for _, o := range c.Obs {
			ks = append(ks, o.Key()+"="+fmt.Sprint(o.Status))
		}
		sort.Strings(ks)
		return strings.Join(ks, "\n")
	}
	var b strings.Builder
	b.WriteString("// Code generated by `jrpcvet -anchor-deps`; DO NOT EDIT.\n\npackage props\n\n")
	b.WriteString("// anchorDeps: for each property, the model anchors whose absence changes its verdicts on the pinned tree.\n")
	b.WriteString("var anchorDeps = map[string]map[string]bool{\n")
	for _, def := range All() {
		base := run(def, model)
		var deps []string
		for _, a := range model.AnchorNames(false) {
			if run(def, model.Without(a)) != base {
				deps = append(deps, a)
			}
		}
		sort.Strings(deps)
		b.WriteString(fmt.Sprintf("\t%q: {", def.ID))
		for i, d := range deps {
			if i > 0 {
				b.WriteString(", ")
			}
			b.WriteString(fmt.Sprintf("%q: true", d))
		}
		b.WriteString("},\n")
	}
	b.WriteString("}\n")
	return b.String()
}
