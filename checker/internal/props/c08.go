package props

import (
	"golang.org/x/tools/go/ssa"

	"jrpcvet/internal/chk"
	"jrpcvet/internal/ir"
)

func serverGo(c *chk.Ctx) func(goClass) bool {
	return func(gc goClass) bool {
		return inPkg(c, gc.g.Parent(), c.M.Pkg) && sideOf(c, gc.g.Parent())["server"]
	}
}

// sideOf tells to which of Server / Client a function of the root package
// belongs: its own receiver (or that of the function it is nested in), or, for
// helper types and plain functions, the receivers of the methods from which it
// is reached.
func sideOf(c *chk.Ctx, f *ssa.Function) map[string]bool {
	out := map[string]bool{}
	seen := map[*ssa.Function]bool{}
	var walk func(g *ssa.Function, depth int)
	walk = func(g *ssa.Function, depth int) {
		if g == nil || seen[g] || depth > 8 {
			return
		}
		seen[g] = true
		switch ir.RecvNamed(ir.Root(g)) {
		case c.M.Server:
			out["server"] = true
			return
		case c.M.Client:
			out["client"] = true
			return
		}
		if g.Parent() != nil {
			walk(g.Parent(), depth+1)
		}
		for _, s := range c.P.Callers(g) {
			walk(s.Caller, depth+1)
		}
	}
	walk(f, 0)
	return out
}

// ruleLifetimeWaited: goroutines tracked by the owner's lifetime WaitGroup are
// waited for by an exported method, at its very start.
func ruleLifetimeWaited(c *chk.Ctx, gos []goClass, wgID string, minTracked int, who string) {
	n := 0
	for _, gc := range gos {
		if gc.kind == "tracked" && gc.wg == wgID {
			n++
		}
	}
	c.Check(n >= minTracked, "GO.lifetime", nil, who+" lifetime group members", 0, "goroutines registered with "+wgID, "fewer goroutines than expected are registered with "+wgID+": the waiter would return while they still run")
	found := false
	for _, w := range waitSites(c, wgID) {
		f := w.Parent()
		if f.Parent() != nil || !ir.Exported(f) {
			continue
		}
		// every return of f is dominated by the Wait
		all := ir.AllReturnsDominatedBy(w)
		if all {
			found = true
			c.Pass("GO.lifetime", f, who+" waits for lifetime group", w.Pos(), "every return of %s is dominated by %s.Wait()", ir.Name(f), wgID)
		}
	}
	if !found {
		c.Fail("GO.lifetime", nil, who+" waits for lifetime group", 0, "no exported method waits on %s on all its paths", wgID)
	}
}

func init() {
	register(&Def{
		ID:          "C08",
		Technique:   "typestate of the running fields (guard/stop-once/coupled/restart) on the interprocedural lockset+nil-state facts; goroutine accounting against the lifetime WaitGroup; status-flag predicate table; path queries in the stop function",
		Explanation: "Decides: (D1) Close is guarded by the running state, performed under the lock and followed by clearing the channel field before the lock can be released; the stop cause and channel are written only by start/stop, the cause only on the guarded path (first cause wins); Start re-arms channel, cause and work channel before the workers start. (D2) no use of the channel, no send on / close of the work channel and no queue insert happens without the running state established in the same critical section (or a nil check downstream). (D3) reader, dispatcher and every batch worker are registered with the lifetime WaitGroup (Add dominates go, Done deferred first) and WaitStatus waits on it on every path. (D4) Closed is set exactly under err==io.EOF ∨ IsErrClosing, Stopped exactly under equality with the sentinel Stop passes, on exclusive branches. (D5) every path from Close ranges over all in-flight ids and all pending callbacks invoking their cancel functions. (D6) queued notifications are collected before the queue is cleared and re-queued after; the dispatcher gives up only when stopped ∧ queue empty. (D7) whoever removes a callback entry writes its slot or cancels its context on every path; the stop function clears the channel field only after Close. (D8) IsErrClosing is exactly err ≠ nil ∧ (errors.Is(ErrClosed) ∨ errors.Is(net.ErrClosed)); no nil-feasible path leads from the reader's parse of a record to the receive-failure stop; the callback table is assigned only at construction. (D9) the cause the stop function records is exactly the one it was called with. (D10) from every Lock of the server mutex no path reaches a return without an Unlock (direct, by a callee, or deferred). Also decided: the reader reaches no further Recv once it has found the server stopped; only the stop function cancels the callback table wholesale.",
		NotDecided:  []string{"deadlock freedom and goroutine-leak freedom as liveness claims", "channels whose Close does not unblock Recv keep the reader alive until the next record", "that handlers honour cancellation"},
		Assumptions: []string{"sync.Mutex / sync.WaitGroup semantics", "no code outside the repository can reach the unexported fields"},
		RuleText:    ruleText,
		Run: func(c *chk.Ctx, tier string) {
			c.Clause("C08-D1")
			ruleStopOnce(c, "server")
			ruleStopAlwaysCloses(c, "server")
			ruleRunCoupled(c, "server")
			ruleStopCauseIsTheArgument(c, "server")
			ruleLockBalanced(c, "server")
			ruleRunRestart(c)
			ruleStartOnce(c)
			c.Clause("C08-D2")
			ruleLockField(c, "server", c.M.SCh, c.M.SErr, c.M.SInq)
			ruleRunGuardServer(c)
			ruleReaderExitStops(c, "server")
			ruleStoppedReaderExits(c, "server")
			c.Clause("C08-D3")
			gos := ruleGo(c, serverGo(c), 5, "Start×2, serve, dispatch closure, pushReq")
			ruleLifetimeWaited(c, gos, chk.PathOfVar(c.M.Server, c.M.SWg).String(), 3, "server")
			c.Clause("C08-D4")
			ruleStatusTable(c)
			ruleIsErrClosingTable(c)
			c.Clause("C08-D5")
			ruleStopCancelsTable(c, "server", c.M.SUsed, nil, "in-flight call contexts")
			ruleStopCancelsTable(c, "server", c.M.SCall, c.M.RCancel, "pending callbacks")
			ruleCallbackTakeCompletes(c)
			rulePendingTablesNeverReplaced(c, c.M.SCall)
			c.Clause("C08-D6")
			ruleRetainNotifications(c)
			ruleDispatcherExit(c)
			ruleParsedRecordNotDiscarded(c)
		},
	})
}
