package props

import (
	"fmt"
	"go/token"
	"go/types"
	"strings"

	"golang.org/x/tools/go/ssa"

	"jrpcvet/internal/chk"
	"jrpcvet/internal/facts"
	"jrpcvet/internal/ir"
)

// GO — goroutine accounting. Every go statement in library code must be
// classified as tracked (WaitGroup), watcher (blocks on something whose
// release is guaranteed) or closer.

type goClass struct {
	g      *ssa.Go
	kind   string // tracked | watcher | closer | ""
	wg     string // WaitGroup identity for tracked
	detail string
	body   *ssa.Function
}

// wgIdent names the WaitGroup a call operates on: "Owner.field" for a field,
// "local:<fn>:<name>" for a local.
// throughLocalCopy follows a value read from a local variable (possibly one
// captured by a closure) that was assigned exactly once back to what was
// assigned: `wg, rsp := c.wg, c.rsp; go func() { wg.Wait(); close(rsp) }()`.
func throughLocalCopy(v ssa.Value) ssa.Value {
	for i := 0; i < 4; i++ {
		u, ok := v.(*ssa.UnOp)
		if !ok || u.Op != token.MUL {
			return v
		}
		var cell *ssa.Alloc
		switch a := u.X.(type) {
		case *ssa.Alloc:
			cell = a
		case *ssa.FreeVar:
			cell, _ = ir.BindingOf(a).(*ssa.Alloc)
		}
		if cell == nil {
			return v
		}
		stores := ir.CellStores(cell)
		if len(stores) != 1 {
			return v
		}
		v = stores[0].Val
	}
	return v
}

func wgIdent(recv ssa.Value) string {
	if p, ok := facts.PathOf(recv); ok {
		return p.String()
	}
	if w := throughLocalCopy(recv); w != recv {
		if p, ok := facts.PathOf(w); ok {
			return p.String()
		}
	}
	v := recv
	for i := 0; i < 6; i++ {
		switch x := v.(type) {
		case *ssa.Alloc:
			return "local:" + ir.Name(x.Parent()) + ":" + x.Comment
		case *ssa.FreeVar:
			// resolve to the parent's cell
			f := x.Parent()
			idx := -1
			for i, fv := range f.FreeVars {
				if fv == x {
					idx = i
				}
			}
			var b ssa.Value
			if f.Parent() != nil {
				ir.Instrs(f.Parent(), func(ins ssa.Instruction) {
					if mc, ok := ins.(*ssa.MakeClosure); ok && mc.Fn == f && idx >= 0 && idx < len(mc.Bindings) {
						b = mc.Bindings[idx]
					}
				})
			}
			if b == nil {
				return ""
			}
			v = b
		case *ssa.Parameter:
			// a WaitGroup handed to a single-use private helper: continue with the argument
			pr := ir.ProgOf(x.Parent())
			if pr == nil {
				return ""
			}
			w := pr.Canon(x)
			if w == ssa.Value(x) {
				return ""
			}
			v = w
		case *ssa.UnOp:
			if x.Op != token.MUL {
				return ""
			}
			// pointer-typed WaitGroup field loaded: *(&c.done)
			if p, ok := facts.PathOf(x); ok {
				return p.String()
			}
			v = x.X
		default:
			return ""
		}
	}
	return ""
}

func wgCall(ci ssa.CallInstruction, method string) (string, bool) {
	c := ci.Common()
	if !ir.IsCallTo(c, "(*sync.WaitGroup)."+method) || len(c.Args) == 0 {
		return "", false
	}
	id := wgIdent(c.Args[0])
	return id, id != ""
}

// goBody resolves the function a go statement runs.
func goBody(c *chk.Ctx, g *ssa.Go) *ssa.Function {
	gs, _ := c.P.Callees(g)
	if len(gs) == 1 {
		return gs[0]
	}
	return nil
}

func libFuncs(c *chk.Ctx) []*ssa.Function { return c.P.Funcs }

// classifyGo classifies every go statement in the library.
func classifyGo(c *chk.Ctx) []goClass {
	var out []goClass
	for _, f := range libFuncs(c) {
		ir.Instrs(f, func(ins ssa.Instruction) {
			g, ok := ins.(*ssa.Go)
			if !ok {
				return
			}
			out = append(out, classifyOne(c, g))
		})
	}
	return out
}

func classifyOne(c *chk.Ctx, g *ssa.Go) goClass {
	gc := goClass{g: g}
	body := goBody(c, g)
	gc.body = body
	if body == nil || !c.P.InRepo[body] {
		gc.detail = "goroutine body is not a single repository function"
		return gc
	}
	// --- tracked: body's entry block defers wg.Done()
	var doneWG string
	if len(body.Blocks) > 0 {
		for _, ins := range body.Blocks[0].Instrs {
			if d, ok := ins.(*ssa.Defer); ok {
				if id, ok := wgCall(d, "Done"); ok {
					doneWG = id
					break
				}
			}
			if call, isCall := ins.(*ssa.Call); isCall && ir.GetterLoad(call) == ssa.Value(call) {
				// a call before the deferred Done could panic past it; only lock-free prologue allowed
				// (a pure field getter is a field read)
				break
			}
		}
	}
	if doneWG != "" {
		// the nearest dominating Add on the same WaitGroup in the spawner
		var add *ssa.Call
		ir.Instrs(g.Parent(), func(ins ssa.Instruction) {
			call, ok := ins.(*ssa.Call)
			if !ok {
				return
			}
			if id, ok := wgCall(call, "Add"); ok && id == doneWG && ir.InstrDominates(call, g) {
				if add == nil || ir.InstrDominates(add, call) {
					add = call
				}
			}
		})
		if add == nil {
			gc.detail = fmt.Sprintf("goroutine defers %s.Done() but no %s.Add dominates the go statement", doneWG, doneWG)
			return gc
		}
		k, isConst := ir.ConstInt(add.Call.Args[1])
		if !isConst {
			gc.detail = "WaitGroup.Add argument is not a constant"
			return gc
		}
		// count the go statements this Add covers: tracked on the same wg, dominated by add,
		// with no later Add on the same wg dominating them
		n := 0
		ir.Instrs(g.Parent(), func(ins ssa.Instruction) {
			g2, ok := ins.(*ssa.Go)
			if !ok || !ir.InstrDominates(add, g2) {
				return
			}
			b2 := goBody(c, g2)
			if b2 == nil || len(b2.Blocks) == 0 {
				return
			}
			same := false
			for _, i2 := range b2.Blocks[0].Instrs {
				if d, ok := i2.(*ssa.Defer); ok {
					if id, ok := wgCall(d, "Done"); ok && id == doneWG {
						same = true
					}
				}
			}
			if !same {
				return
			}
			later := false
			ir.Instrs(g.Parent(), func(i3 ssa.Instruction) {
				if call, ok := i3.(*ssa.Call); ok && call != add {
					if id, ok := wgCall(call, "Add"); ok && id == doneWG && ir.InstrDominates(add, call) && ir.InstrDominates(call, g2) {
						later = true
					}
				}
			})
			if !later {
				n++
			}
		})
		if int64(n) != k {
			gc.detail = fmt.Sprintf("%s.Add(%d) covers %d go statement(s)", doneWG, k, n)
			return gc
		}
		// Add and go in the same loop iteration: if go is in a cycle, add must be in the same cycle
		if ir.InCycle(g.Block()) && !reachesWithout(g.Block(), add.Block(), nil) {
			gc.detail = "go statement is in a loop but the Add that covers it is outside the loop"
			return gc
		}
		gc.kind, gc.wg = "tracked", doneWG
		gc.detail = fmt.Sprintf("%s.Add(%d) at %s dominates the go; body defers %s.Done() first", doneWG, k, c.P.Pos(add.Pos()), doneWG)
		return gc
	}
	// --- closer: body is wg.Wait(); close(X)
	if id, x, ok := isCloserBody(body); ok {
		gc.kind, gc.wg = "closer", id
		gc.detail = fmt.Sprintf("body waits for %s then closes %s", id, x)
		return gc
	}
	// --- watcher: body's first blocking operation is a receive on ctx.Done() / a channel
	if ok, why := isWatcher(c, g, body); ok {
		gc.kind = "watcher"
		gc.detail = why
		return gc
	} else {
		gc.detail = why
	}
	return gc
}

// reachesWithout: can `from` reach `to` (forward)?
func reachesWithout(from, to *ssa.BasicBlock, avoid *ssa.BasicBlock) bool {
	seen := map[*ssa.BasicBlock]bool{}
	stack := []*ssa.BasicBlock{from}
	for len(stack) > 0 {
		b := stack[len(stack)-1]
		stack = stack[:len(stack)-1]
		if seen[b] || b == avoid {
			continue
		}
		seen[b] = true
		for _, s := range b.Succs {
			if s == to {
				return true
			}
			stack = append(stack, s)
		}
	}
	return false
}

func isCloserBody(body *ssa.Function) (wg string, closed string, ok bool) {
	if len(body.Blocks) != 1 {
		return "", "", false
	}
	var sawWait bool
	for _, ins := range body.Blocks[0].Instrs {
		call, isCall := ins.(*ssa.Call)
		if !isCall {
			continue
		}
		if id, ok := wgCall(call, "Wait"); ok && !sawWait {
			sawWait = true
			wg = id
			continue
		}
		if b, isB := call.Call.Value.(*ssa.Builtin); isB && b.Name() == "close" && sawWait {
			if p, ok := facts.PathOf(call.Call.Args[0]); ok {
				return wg, p.String(), true
			}
			if p, ok := facts.PathOf(throughLocalCopy(call.Call.Args[0])); ok {
				return wg, p.String(), true
			}
		}
	}
	return "", "", false
}

// isDoneRecv: v is `<-ctx.Done()`; returns the context value.
func doneRecvCtx(v ssa.Value) (ssa.Value, bool) {
	call, ok := v.(*ssa.Call)
	if !ok || !call.Call.IsInvoke() || call.Call.Method.Name() != "Done" {
		return nil, false
	}
	if !strings.HasSuffix(call.Call.Value.Type().String(), "context.Context") {
		return nil, false
	}
	return call.Call.Value, true
}

// isWatcher: the body first blocks on ctx.Done() (or a select over ctx.Done()
// and a channel) and the release of what it blocks on is guaranteed:
//   - the context comes from context.WithCancel whose cancel function is
//     deferred in the spawner, or stored into a Response's cancel field
//     (released by TOKEN.stop and by Response.wait);
//   - a channel that the spawner closes in a deferred call.
func isWatcher(c *chk.Ctx, g *ssa.Go, body *ssa.Function) (bool, string) {
	if len(body.Blocks) == 0 {
		return false, "no body"
	}
	var waits []ssa.Value // values blocked on: contexts or channels
	found := false
	for _, ins := range body.Blocks[0].Instrs {
		switch x := ins.(type) {
		case *ssa.UnOp:
			if x.Op == token.ARROW {
				// (the channel may be handed to the goroutine as a parameter: ctx.Done() at the go statement)
				if ctx, ok := doneRecvCtx(x.X); ok {
					waits = append(waits, ctx)
				} else if ctx, ok := doneRecvCtx(c.P.Canon(x.X)); ok {
					waits = append(waits, ctx)
				} else {
					waits = append(waits, x.X)
				}
				found = true
			}
		case *ssa.Select:
			if !x.Blocking {
				return false, "non-blocking select first"
			}
			for _, st := range x.States {
				if st.Dir != types.RecvOnly {
					return false, "select with a send case"
				}
				if ctx, ok := doneRecvCtx(st.Chan); ok {
					waits = append(waits, ctx)
				} else if ctx, ok := doneRecvCtx(c.P.Canon(st.Chan)); ok {
					waits = append(waits, ctx)
				} else {
					waits = append(waits, st.Chan)
				}
			}
			found = true
		case *ssa.Call:
			if _, ok := doneRecvCtx(x); ok {
				continue
			}
			if ir.GetterLoad(x) != ssa.Value(x) {
				continue // a pure field getter is a field read
			}
			if !found {
				return false, fmt.Sprintf("calls %s before blocking", ir.CalleeName(&x.Call))
			}
		}
		if found {
			break
		}
	}
	if !found {
		return false, "body does not start by blocking on a context or channel"
	}
	// every select arm / the single receive: at least one must have a guaranteed release
	var reasons []string
	released := false
	for _, w := range waits {
		for _, src := range c.P.Sources(w) {
			if e, ok := src.(*ssa.Extract); ok && e.Index == 0 {
				if call, ok := e.Tuple.(*ssa.Call); ok && ir.IsCallTo(&call.Call, "context.WithCancel", "context.WithTimeout", "context.WithDeadline") {
					if why, ok := cancelGuaranteed(c, call); ok {
						released = true
						reasons = append(reasons, why)
					} else {
						reasons = append(reasons, "context from "+c.P.Pos(call.Pos())+" has no guaranteed cancel")
					}
					continue
				}
			}
			if mk, ok := src.(*ssa.MakeChan); ok {
				if deferredClose(mk) {
					released = true
					reasons = append(reasons, "channel made at "+c.P.Pos(mk.Pos())+" is closed by a deferred call in the spawner")
				}
				continue
			}
		}
	}
	if !released {
		return false, "blocks on something whose release is not guaranteed: " + strings.Join(reasons, "; ")
	}
	return true, "blocks first on " + strings.Join(reasons, "; ")
}

// cancelGuaranteed: the cancel function (result #1 of call) is deferred in
// the function that made it, or stored into a Response.cancel field.
func cancelGuaranteed(c *chk.Ctx, call *ssa.Call) (string, bool) {
	var cancel *ssa.Extract
	for _, r := range *call.Referrers() {
		if e, ok := r.(*ssa.Extract); ok && e.Index == 1 {
			cancel = e
		}
	}
	if cancel == nil {
		return "", false
	}
	var visit func(v ssa.Value, depth int) (string, bool)
	visit = func(v ssa.Value, depth int) (string, bool) {
		if depth > 4 || v.Referrers() == nil {
			return "", false
		}
		for _, r := range *v.Referrers() {
			switch x := r.(type) {
			case *ssa.Defer:
				if x.Call.Value == v {
					return "context cancelled by a deferred call at " + c.P.Pos(x.Pos()), true
				}
			case *ssa.Store:
				if chk.IsField(x.Addr, c.M.RCancel) && x.Val == v {
					return "cancel stored in Response.cancel at " + c.P.Pos(x.Pos()) + " (invoked by the stop function and by Response.wait)", true
				}
			case *ssa.ChangeType:
				if why, ok := visit(x, depth+1); ok {
					return why, true
				}
			case *ssa.MakeInterface:
				if why, ok := visit(x, depth+1); ok {
					return why, true
				}
			case *ssa.Return:
				// returned together with the context: follow at callers
				f := x.Parent()
				for i, res := range x.Results {
					if res != v {
						continue
					}
					for _, s := range c.P.Callers(f) {
						if cv, ok := s.Instr.(*ssa.Call); ok {
							for _, rr := range *cv.Referrers() {
								if e, ok := rr.(*ssa.Extract); ok && e.Index == i {
									if why, ok := visit(e, depth+1); ok {
										return why, true
									}
								}
							}
						}
					}
				}
			}
		}
		return "", false
	}
	return visit(cancel, 0)
}

func deferredClose(mk *ssa.MakeChan) bool {
	isDeferredClose := func(v ssa.Value) bool {
		if v.Referrers() == nil {
			return false
		}
		for _, r := range *v.Referrers() {
			if d, ok := r.(*ssa.Defer); ok {
				if b, ok := d.Call.Value.(*ssa.Builtin); ok && b.Name() == "close" && len(d.Call.Args) == 1 && d.Call.Args[0] == v {
					return true
				}
			}
		}
		return false
	}
	if isDeferredClose(mk) {
		return true
	}
	// the channel variable may live in a cell because a closure captures it
	for _, r := range *mk.Referrers() {
		if st, ok := r.(*ssa.Store); ok && st.Val == ssa.Value(mk) {
			if al, ok := st.Addr.(*ssa.Alloc); ok && len(ir.CellStores(al)) == 1 {
				for _, ld := range ir.CellLoads(al) {
					if ld.Parent() == mk.Parent() && isDeferredClose(ld) {
						return true
					}
				}
			}
		}
	}
	return false
}

// ruleGoAll classifies every go statement; only those in `want` packages /
// owners are reported under this property when filter returns true.
func ruleGo(c *chk.Ctx, filter func(gc goClass) bool, floor int, why string) []goClass {
	var mine []goClass
	for _, gc := range classifyGo(c) {
		if !filter(gc) {
			continue
		}
		mine = append(mine, gc)
		construct := "go " + bodyName(gc)
		if gc.kind == "" {
			c.Fail("GO.class", gc.g.Parent(), construct, gc.g.Pos(), "goroutine is neither tracked by a WaitGroup nor a watcher with a guaranteed release: %s", gc.detail)
		} else {
			c.Pass("GO.class", gc.g.Parent(), construct, gc.g.Pos(), "%s: %s", gc.kind, gc.detail)
		}
		if gc.kind == "tracked" && strings.HasPrefix(gc.wg, "local:") {
			// a local WaitGroup must be waited on along every path from the go statement to the function's exit
			q := ir.PathQuery{Goal: func(i ssa.Instruction) bool {
				call, ok := i.(*ssa.Call)
				if !ok {
					return false
				}
				id, ok := wgCall(call, "Wait")
				return ok && id == gc.wg
			}}
			ok, at := q.MustReach(gc.g)
			where := ""
			if at != nil {
				where = c.P.Pos(at.Pos())
			}
			c.Check(ok, "GO.joined", gc.g.Parent(), construct, gc.g.Pos(), "every path from the go statement to the function's exit passes "+gc.wg+".Wait()",
				"a path from the go statement leaves the function at "+where+" without waiting for the goroutine ("+gc.wg+".Wait() skipped)")
		}
	}
	c.Floor("GO.class", floor, why)
	return mine
}

func bodyName(gc goClass) string {
	if gc.body == nil {
		return "?"
	}
	return ir.Name(gc.body)
}

func inPkg(c *chk.Ctx, f *ssa.Function, pkg *ssa.Package) bool {
	r := ir.Root(f)
	pk := r.Pkg
	if pk == nil && r.Origin() != nil {
		pk = r.Origin().Pkg
	}
	return pk == pkg
}

// ruleWaited: the WaitGroup id is waited on in an exported method of owner
// (field WaitGroups), returning the Wait sites.
func waitSites(c *chk.Ctx, id string) []*ssa.Call {
	var out []*ssa.Call
	for _, f := range libFuncs(c) {
		ir.Instrs(f, func(ins ssa.Instruction) {
			if call, ok := ins.(*ssa.Call); ok {
				if w, ok := wgCall(call, "Wait"); ok && w == id {
					out = append(out, call)
				}
			}
		})
	}
	return out
}
