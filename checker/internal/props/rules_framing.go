package props

import (
	"fmt"
	"go/token"
	"go/types"
	"sort"
	"strings"
	"unicode"

	"golang.org/x/tools/go/ssa"

	"jrpcvet/internal/chk"
	"jrpcvet/internal/ir"
)

func chanMethods(c *chk.Ctx, name string) []*ssa.Function {
	var out []*ssa.Function
	for _, f := range pkgFuncs(c, c.M.ChanPkg) {
		if f.Parent() == nil && ir.BaseName(f) == name && f.Signature.Recv() != nil && f.Synthetic == "" {
			out = append(out, f)
		}
	}
	sort.Slice(out, func(i, j int) bool { return out[i].Pos() < out[j].Pos() })
	return out
}

func recvStruct(f *ssa.Function) *types.Struct {
	t := f.Signature.Recv().Type()
	if p, ok := t.(*types.Pointer); ok {
		t = p.Elem()
	}
	st, _ := t.Underlying().(*types.Struct)
	return st
}

// isWriteCall: a call that writes to an io.Writer held by the receiver.
func isWriterWrite(c *chk.Ctx, ci ssa.CallInstruction) bool {
	cc := ci.Common()
	if cc.IsInvoke() && cc.Method.Name() == "Write" {
		return true
	}
	if ir.IsCallTo(cc, "io.WriteString") {
		return true
	}
	// a private one-write wrapper (`func (o outlet) write(p []byte) error { _, err := o.wc.Write(p);
	// return err }`): straight-line, exactly one write, of its own parameter
	h := cc.StaticCallee()
	if h == nil || !c.P.InRepo[h] || ir.Exported(h) || len(h.Blocks) != 1 {
		return false
	}
	n, own := 0, false
	ir.Calls(h, func(c2 ssa.CallInstruction) {
		k := c2.Common()
		if (k.IsInvoke() && k.Method.Name() == "Write") || ir.IsCallTo(k, "io.WriteString") {
			n++
			data := k.Args[len(k.Args)-1]
			if _, isParam := ir.NormCell(data).(*ssa.Parameter); isParam {
				own = true
			}
		}
	})
	return n == 1 && own
}

// ---------------------------------------------------------------------------
// C11-D1: split-byte guard

func ruleSplitGuard(c *chk.Ctx) {
	n := 0
	for _, f := range chanMethods(c, "Send") {
		st := recvStruct(f)
		if st == nil {
			continue
		}
		var delim *types.Var
		for i := 0; i < st.NumFields(); i++ {
			if b, ok := st.Field(i).Type().Underlying().(*types.Basic); ok && b.Kind() == types.Uint8 {
				delim = st.Field(i)
			}
			// (or one level down, in a helper struct of this package holding the receiving half)
			if inner, ok := st.Field(i).Type().Underlying().(*types.Struct); ok && delim == nil {
				if nm, isNamed := types.Unalias(st.Field(i).Type()).(*types.Named); isNamed && nm.Obj().Pkg() == st.Field(i).Pkg() {
					for j := 0; j < inner.NumFields(); j++ {
						if b, ok := inner.Field(j).Type().Underlying().(*types.Basic); ok && b.Kind() == types.Uint8 {
							delim = inner.Field(j)
						}
					}
				}
			}
		}
		if delim == nil {
			continue
		}
		n++
		var writes []ssa.CallInstruction
		ir.Calls(f, func(ci ssa.CallInstruction) {
			if isWriterWrite(c, ci) {
				writes = append(writes, ci)
			}
		})
		if len(writes) == 0 {
			c.Undecided("PAIR.splitguard", f, "write", f.Pos(), "no write found in a delimiter framing's Send")
			continue
		}
		// found(cd): +1 when the outcome says the delimiter does not occur in the message, -1 when
		// it says it does, 0 when it is about something else
		found := func(cd ir.Cond) int {
			if call, isCall := cd.V.(*ssa.Call); isCall && strings.HasPrefix(ir.CalleeName(&call.Call), "slices.Contains") && len(call.Call.Args) == 2 {
				// slices.Contains(msg, delim) on the byte slice is a byte search
				if _, isParam := c.P.Canon(call.Call.Args[0]).(*ssa.Parameter); isParam {
					if _, fv, isF := ir.FieldRead(call.Call.Args[1]); isF && fv == delim {
						if cd.Truth {
							return -1
						}
						return 1
					}
				}
			}
			x, y, op, ok := ir.Rel(cd)
			if !ok {
				// only a byte search decides this: bytes.ContainsRune looks for the UTF-8 encoding
				// of the rune, which for delimiters ≥ 0x80 is not the delimiter byte
				return 0
			}
			call, ok := x.(*ssa.Call)
			if !ok || !ir.IsCallTo(&call.Call, "bytes.IndexByte") {
				return 0
			}
			// second argument is the delimiter field; first the message parameter
			if _, isParam := c.P.Canon(call.Call.Args[0]).(*ssa.Parameter); !isParam {
				return 0
			}
			if _, fv, isF := ir.FieldRead(call.Call.Args[1]); !isF || fv != delim {
				return 0
			}
			k, isC := ir.ConstInt(y)
			if !isC {
				return 0
			}
			switch {
			case (op == token.LSS && k == 0) || (op == token.EQL && k == -1) || (op == token.LEQ && k == -1):
				return 1
			case (op == token.GEQ && k == 0) || (op == token.NEQ && k == -1) || (op == token.GTR && k == -1):
				return -1
			}
			return 0
		}
		for _, w := range writes {
			guarded := true
			alts := expandPredicateHelpers(c, ir.CondsAt(w.Block()), 0)
			for _, alt := range alts {
				nf := false
				for _, cd := range alt {
					if found(cd) == 1 {
						nf = true
					}
				}
				if !nf {
					guarded = false
				}
			}
			c.Check(guarded && len(alts) > 0, "PAIR.splitguard", f, "write only without the split byte", w.Pos(), "the write is dominated by the 'delimiter not found in msg' edge; the other edge returns without writing",
				"a record containing the split byte can be written: the receiver would see it as two records")
		}
		// the found edge returns a non-nil error
		okErr := false
		for _, r := range ir.Returns(f) {
			if !ir.IsNilConst(ir.ReturnResult(r, 0)) {
				for _, alt := range expandPredicateHelpers(c, ir.CondsAt(r.Block()), 0) {
					for _, cd := range alt {
						if found(cd) == -1 {
							okErr = true
						}
					}
				}
			}
		}
		c.Check(okErr, "PAIR.splitguard", f, "refusal is an error", f.Pos(), "the 'found' edge returns a non-nil error", "the 'found' edge does not return an error")
	}
	if n == 0 {
		c.Undecided("PAIR.splitguard", nil, "delimiter framings", 0, "no framing with a delimiter byte found")
	}
}

func isFieldLoadNamed(u *ssa.UnOp, f *types.Var) bool {
	fa, ok := u.X.(*ssa.FieldAddr)
	return ok && ir.FieldVar(fa) == f
}

// ---------------------------------------------------------------------------
// C11-D2 / C12-D4: header names written vs matched

func ruleHeaderAgreement(c *chk.Ctx) {
	// labels the reader switches on: string constants compared (==) with a strings.ToLower result
	labels := map[string]bool{}
	var recvFn *ssa.Function
	folded := false
	for _, f := range pkgFuncs(c, c.M.ChanPkg) {
		ir.Instrs(f, func(ins ssa.Instruction) {
			bo, ok := ins.(*ssa.BinOp)
			if !ok || bo.Op != token.EQL {
				return
			}
			s, isS := constString(bo.Y)
			if !isS || s == "" {
				return
			}
			if call, ok := bo.X.(*ssa.Call); ok && ir.IsCallTo(&call.Call, "strings.ToLower", "strings.EqualFold") {
				labels[s] = true
				recvFn = f
				folded = true
			}
		})
	}
	if recvFn == nil {
		c.Undecided("TABLE.header", nil, "header reader", 0, "no header-name comparison against a case-folded value found")
		return
	}
	c.Check(folded, "TABLE.header", recvFn, "names compared case-insensitively", recvFn.Pos(), "field names are lower-cased before comparison", "field names are not case-folded before comparison")
	for l := range labels {
		lower := true
		for _, r := range l {
			if unicode.IsUpper(r) {
				lower = false
			}
		}
		c.Check(lower, "TABLE.header", recvFn, "label "+l, recvFn.Pos(), "label is in the image of the folding function", "label "+l+" contains an upper-case letter: it can never match the lower-cased name, so the field would be silently ignored")
	}
	// names the sender writes: string constants ending in ": " in the channel package
	written := map[string]token.Pos{}
	var sendFn *ssa.Function
	for _, f := range pkgFuncs(c, c.M.ChanPkg) {
		ir.Instrs(f, func(ins ssa.Instruction) {
			for _, op := range ins.Operands(nil) {
				if op == nil || *op == nil {
					continue
				}
				if s, ok := constString(*op); ok {
					// header names in the text: "Name: " at the start of the constant or after a line
					// break (a format string such as "Content-Length: %d\r\n" counts too)
					for _, line := range strings.Split(s, "\n") {
						i := strings.Index(line, ": ")
						if i <= 0 {
							continue
						}
						name := line[:i]
						okName := true
						for _, r := range name {
							if !(unicode.IsLetter(r) || r == '-') {
								okName = false
							}
						}
						if !okName || strings.Contains(name, " ") {
							continue
						}
						// only in functions that write to the channel's output
						if ir.BaseName(f) == "Send" || strings.Contains(strings.ToLower(name), "content-") {
							written[strings.ToLower(name)] = ins.Pos()
							if ir.BaseName(f) == "Send" {
								sendFn = f
							}
						}
					}
				}
			}
		})
	}
	for w, pos := range written {
		c.Check(labels[w], "TABLE.header", sendFn, "written name "+w, pos, "the reader recognises the field name the sender writes", "the sender writes header "+w+" but the reader does not recognise it")
	}
	c.Check(written["content-length"] != 0, "TABLE.header", sendFn, "length header written", 0, "the sender writes the length header the reader requires", "the sender does not write a content-length header")
	// the length written is Itoa(len(msg)) of the msg that is written after it, in one Write
	if sendFn != nil {
		okLen, okBody, nWrites := false, false, 0
		var msg ssa.Value
		lenOfParam := func(v ssa.Value) ssa.Value {
			for i := 0; i < 3; i++ {
				if cv, ok := v.(*ssa.Convert); ok {
					v = cv.X
					continue
				}
				if mi, ok := v.(*ssa.MakeInterface); ok {
					v = mi.X
					continue
				}
				break
			}
			if x, isLen := ir.LenOf(v); isLen {
				if _, isParam := x.(*ssa.Parameter); isParam {
					return x
				}
			}
			return nil
		}
		ir.Calls(sendFn, func(ci ssa.CallInstruction) {
			cc := ci.Common()
			switch {
			case ir.IsCallTo(cc, "strconv.Itoa"):
				if x := lenOfParam(cc.Args[0]); x != nil {
					okLen, msg = true, x
				}
			case ir.IsCallTo(cc, "strconv.FormatInt") && len(cc.Args) == 2:
				if x := lenOfParam(cc.Args[0]); x != nil {
					okLen, msg = true, x
				}
			case ir.IsCallTo(cc, "strconv.AppendInt") && len(cc.Args) == 3:
				if x := lenOfParam(cc.Args[1]); x != nil {
					okLen, msg = true, x
				}
			case ir.IsCallTo(cc, "fmt.Fprintf", "fmt.Sprintf", "fmt.Appendf"):
				fi := 0
				if ir.IsCallTo(cc, "fmt.Fprintf", "fmt.Appendf") {
					fi = 1
				}
				if fs, isS := constString(cc.Args[fi]); isS && strings.Contains(strings.ToLower(fs), "content-length: %d") {
					if els, _ := c.P.ElementValues(cc.Args[len(cc.Args)-1]); len(els) >= 1 {
						for _, e := range els {
							if x := lenOfParam(e); x != nil {
								okLen, msg = true, x
							}
						}
					}
				}
			}
			if isWriterWrite(c, ci) {
				nWrites++
			}
		})
		ir.Calls(sendFn, func(ci ssa.CallInstruction) {
			if ir.IsCallTo(ci.Common(), "(*bytes.Buffer).Write") && msg != nil && ci.Common().Args[1] == msg {
				okBody = true
			}
		})
		c.Check(okLen && okBody && nWrites == 1, "TABLE.header", sendFn, "length matches body", sendFn.Pos(), "Content-Length is Itoa(len(msg)) of the very msg appended after the blank line, sent with one Write", "the declared length is not len(msg) of the message written, or header and body are not written in one Write")
	}
	c.Floor("TABLE.header", 5, "folding, 2 labels, 2 written names")
}

// ---------------------------------------------------------------------------
// C11-D3: Direct's EOF

func ruleDirectEOF(c *chk.Ctx) {
	for _, f := range chanMethods(c, "Recv") {
		var recv *ssa.UnOp
		c.P.ExtInstrs(f, func(ins ssa.Instruction) {
			if u, ok := ins.(*ssa.UnOp); ok && u.Op == token.ARROW && u.CommaOk {
				recv = u
			}
		})
		if recv == nil {
			continue
		}
		okEOF, okData := false, false
		// (the receive may sit in a private helper whose results Recv returns as they are)
		for _, r := range effectiveReturns(c, f, 0) {
			closed, open := false, false
			for _, cd := range ir.CondsAt(r.Block()) {
				if e, ok := cd.V.(*ssa.Extract); ok && e.Tuple == ssa.Value(recv) && e.Index == 1 {
					if cd.Truth {
						open = true
					} else {
						closed = true
					}
				}
			}
			ev := ir.ReturnResult(r, 1)
			if g := globalLoad(ev); g != nil && g.Name() == "EOF" && closed {
				okEOF = true
			}
			if ir.IsNilConst(ev) && open && ir.IsExtractOf(ir.ReturnResult(r, 0), recv, 0) {
				okData = true
			}
		}
		c.Check(okEOF && okData, "TABLE.direct", f, "EOF exactly when closed", f.Pos(), "Recv returns the received record on the open edge and io.EOF on the closed-channel edge", "the in-memory channel's Recv does not return io.EOF exactly when the peer closed")
		return
	}
	c.Undecided("TABLE.direct", nil, "direct Recv", 0, "no channel-backed Recv found")
}

// ---------------------------------------------------------------------------
// C12-D1/D2: bounded, non-negative length

func ruleBoundedLength(c *chk.Ctx) {
	funcs := pkgFuncs(c, c.M.ChanPkg)
	inPkg := map[*ssa.Function]bool{}
	for _, f := range funcs {
		inPkg[f] = true
	}
	// taint from numeric parsers, propagated through arithmetic, conversions, phis, local cells,
	// and across the package's own functions (arguments → parameters, returns → call results)
	taint := map[ssa.Value]bool{}
	nRoots := 0
	for _, f := range funcs {
		ir.Instrs(f, func(ins ssa.Instruction) {
			if e, ok := ins.(*ssa.Extract); ok && e.Index == 0 {
				if call, ok := e.Tuple.(*ssa.Call); ok && ir.IsCallTo(&call.Call, "strconv.Atoi", "strconv.ParseInt", "strconv.ParseUint") {
					taint[e] = true
					nRoots++
				}
			}
		})
	}
	returnsTainted := func(g *ssa.Function, idx int) bool {
		for _, r := range ir.Returns(g) {
			if idx < len(r.Results) && taint[ir.ReturnResult(r, idx)] {
				return true
			}
		}
		return false
	}
	changed := nRoots > 0
	for changed {
		changed = false
		for _, f := range funcs {
			for _, p := range f.Params {
				if taint[p] {
					continue
				}
				for i, q := range f.Params {
					if q != p {
						continue
					}
					for _, s := range c.P.Callers(f) {
						if args := s.Instr.Common().Args; i < len(args) && taint[args[i]] {
							taint[p], changed = true, true
						}
					}
				}
			}
			ir.Instrs(f, func(ins ssa.Instruction) {
				v, ok := ins.(ssa.Value)
				if !ok || taint[v] {
					return
				}
				switch x := ins.(type) {
				case *ssa.BinOp:
					if taint[x.X] || taint[x.Y] {
						switch x.Op {
						case token.ADD, token.SUB, token.MUL, token.QUO, token.SHL, token.SHR:
							taint[v], changed = true, true
						}
					}
				case *ssa.Convert:
					if taint[x.X] {
						taint[v], changed = true, true
					}
				case *ssa.Phi:
					for _, e := range x.Edges {
						if taint[e] {
							taint[v], changed = true, true
						}
					}
				case *ssa.UnOp:
					if al, ok := x.X.(*ssa.Alloc); ok && x.Op == token.MUL {
						for _, st := range ir.CellStores(al) {
							if taint[st.Val] {
								taint[v], changed = true, true
							}
						}
					}
				case *ssa.Extract:
					if call, ok := x.Tuple.(*ssa.Call); ok {
						if g := call.Call.StaticCallee(); g != nil && inPkg[g] && returnsTainted(g, x.Index) {
							taint[v], changed = true, true
						}
					}
				case *ssa.Call:
					if g := x.Call.StaticCallee(); g != nil && inPkg[g] && g.Signature.Results().Len() == 1 && returnsTainted(g, 0) {
						taint[v], changed = true, true
					}
				}
			})
		}
	}
	// bounds established by a list of branch outcomes on some tainted value
	boundsOf := func(conds []ir.Cond) (lower, upper bool) {
		for _, cd := range conds {
			x, y, op, ok := ir.Rel(cd)
			if !ok {
				continue
			}
			var k int64
			var isC bool
			switch {
			case taint[x]:
				k, isC = ir.ConstInt(y)
			case taint[y]: // constant on the left: k OP x  ≡  x OP' k
				k, isC = ir.ConstInt(x)
				switch op {
				case token.LSS:
					op = token.GTR
				case token.GTR:
					op = token.LSS
				case token.LEQ:
					op = token.GEQ
				case token.GEQ:
					op = token.LEQ
				}
			default:
				continue
			}
			if !isC {
				continue
			}
			switch op {
			case token.GEQ:
				if k >= 0 {
					lower = true
				}
			case token.GTR:
				if k >= -1 {
					lower = true
				}
			case token.LEQ, token.LSS:
				upper = true
			}
		}
		return
	}
	// what a successful return of a package function guarantees about the tainted value it
	// returns: the outcomes common to all its returns that hand back a tainted value
	successConds := func(g *ssa.Function) []ir.Cond {
		var out []ir.Cond
		first := true
		for _, r := range ir.Returns(g) {
			tainted := false
			for i := range r.Results {
				if taint[ir.ReturnResult(r, i)] {
					tainted = true
				}
			}
			if !tainted {
				continue
			}
			cs := ir.CondsAt(r.Block())
			if first {
				out, first = cs, false
				continue
			}
			var keep []ir.Cond
			for _, a := range out {
				for _, b := range cs {
					if a.V == b.V && a.Truth == b.Truth {
						keep = append(keep, a)
					}
				}
			}
			out = keep
		}
		return out
	}
	// outcomes known at an instruction: those of its block, plus the guarantees of the package
	// functions whose (tainted) results were obtained by calls dominating it
	localConds := func(at ssa.Instruction) []ir.Cond {
		out := append([]ir.Cond{}, ir.CondsAt(at.Block())...)
		ir.Instrs(at.Parent(), func(i2 ssa.Instruction) {
			call, ok := i2.(*ssa.Call)
			if !ok || !ir.InstrDominates(call, at) {
				return
			}
			if g := call.Call.StaticCallee(); g != nil && inPkg[g] && g != at.Parent() {
				out = append(out, successConds(g)...)
			}
		})
		// (a refusal recorded in an error variable and tested once: past the test, the branch
		// that recorded nothing was taken)
		out = append(out, ir.ImpliedByPhiTests(out, nonNilValue)...)
		return out
	}
	// bounds at an instruction in every calling context (through the package's private functions)
	var boundsAt func(at ssa.Instruction, depth int) (bool, bool)
	boundsAt = func(at ssa.Instruction, depth int) (bool, bool) {
		lo, up := boundsOf(localConds(at))
		if (lo && up) || depth > 4 {
			return lo, up
		}
		f := at.Parent()
		sites := c.P.Callers(f)
		if len(sites) == 0 || ir.Exported(f) || c.P.UsedAsValue(f) {
			return lo, up
		}
		allLo, allUp := true, true
		for _, s := range sites {
			l2, u2 := boundsAt(s.Instr, depth+1)
			allLo = allLo && l2
			allUp = allUp && u2
		}
		return lo || allLo, up || allUp
	}
	nSinks := 0
	for _, f := range funcs {
		ir.Instrs(f, func(ins ssa.Instruction) {
			switch x := ins.(type) {
			case *ssa.MakeSlice:
				if !taint[x.Len] && !taint[x.Cap] {
					return
				}
				nSinks++
				lo, up := boundsAt(x, 0)
				lo = lo && lowerOnFinalType(f, taint, x.Block())
				c.Check(lo && up, "PROV.length", f, "allocation sized by a parsed length", x.Pos(), "the parsed length is bounded below by 0 and above by a constant where it sizes an allocation",
					fmt.Sprintf("a length parsed from the stream sizes an allocation without a %s bound: an absurd or overflowing Content-Length would panic in makeslice or exhaust memory", missing(lo, up)))
			case *ssa.Call:
				// a buffer grown (or a slice grown) to the parsed length allocates like make does
				if !ir.IsCallTo(&x.Call, "(*bytes.Buffer).Grow", "(*strings.Builder).Grow") && !strings.HasPrefix(ir.CalleeName(&x.Call), "slices.Grow") {
					return
				}
				n := x.Call.Args[len(x.Call.Args)-1]
				if !taint[n] {
					return
				}
				nSinks++
				lo, up := boundsAt(x, 0)
				lo = lo && lowerOnFinalType(f, taint, x.Block())
				c.Check(lo && up, "PROV.length", f, "allocation sized by a parsed length", x.Pos(), "the parsed length is bounded below by 0 and above by a constant where it sizes an allocation",
					fmt.Sprintf("a length parsed from the stream sizes an allocation (Grow) without a %s bound: an absurd Content-Length would panic or exhaust memory before a single payload byte has arrived", missing(lo, up)))
			case *ssa.Slice:
				if (x.High == nil || !taint[x.High]) && (x.Low == nil || !taint[x.Low]) {
					return
				}
				nSinks++
				lo, _ := boundsAt(x, 0)
				lo = lo && lowerOnFinalType(f, taint, x.Block())
				c.Check(lo, "PROV.length", f, "slice bound by a parsed length", x.Pos(), "the parsed length is known non-negative where it bounds a slice", "a length parsed from the stream bounds a slice without a non-negative check: a negative (or wrapped) value would panic with slice bounds out of range")
			}
		})
	}
	if nSinks < 2 {
		c.Undecided("PROV.length", nil, "length sinks", 0, "found %d uses of a parsed length as an allocation size or slice bound (confirmed by hand: ≥ 2)", nSinks)
	}
}

// lowerOnFinalType: when the parsed value is converted between integer types
// (e.g. uint64 → int), the non-negative check must be on the converted value.
func lowerOnFinalType(f *ssa.Function, taint map[ssa.Value]bool, at *ssa.BasicBlock) bool {
	hasSignChange := false
	var converted ssa.Value
	ir.Instrs(f, func(ins ssa.Instruction) {
		if cv, ok := ins.(*ssa.Convert); ok && taint[cv.X] {
			from, ok1 := cv.X.Type().Underlying().(*types.Basic)
			to, ok2 := cv.Type().Underlying().(*types.Basic)
			if ok1 && ok2 && from.Info()&types.IsUnsigned != 0 && to.Info()&types.IsUnsigned == 0 {
				hasSignChange = true
				converted = cv
			}
		}
	})
	if !hasSignChange {
		return true
	}
	for _, cd := range ir.CondsAt(at) {
		if bo, ok := cd.V.(*ssa.BinOp); ok && bo.X == converted {
			k, _ := ir.ConstInt(bo.Y)
			if (bo.Op == token.LSS && !cd.Truth && k >= 0) || (bo.Op == token.GEQ && cd.Truth && k >= 0) {
				return true
			}
		}
	}
	return false
}

func missing(lo, up bool) string {
	switch {
	case !lo && !up:
		return "lower or upper"
	case !lo:
		return "lower (non-negative)"
	default:
		return "constant upper"
	}
}

// ruleLengthRequired: the length is parsed only when the header was present,
// and parse errors are errors.
func ruleLengthRequired(c *chk.Ctx) {
	for _, f := range pkgFuncs(c, c.M.ChanPkg) {
		var parse *ssa.Call
		ir.Instrs(f, func(ins ssa.Instruction) {
			if call, ok := ins.(*ssa.Call); ok && ir.IsCallTo(&call.Call, "strconv.Atoi", "strconv.ParseInt", "strconv.ParseUint") {
				parse = call
			}
		})
		if parse == nil {
			continue
		}
		present := false
		for _, cd := range ir.CondsAt(parse.Block()) {
			if bo, ok := cd.V.(*ssa.BinOp); ok && bo.Op == token.EQL && !cd.Truth {
				if s, isS := constString(bo.Y); isS && s == "" && (bo.X == parse.Call.Args[0] || ir.SameValue(bo.X, parse.Call.Args[0]) || ir.SameFieldLoad(bo.X, parse.Call.Args[0])) {
					present = true
				}
			}
		}
		c.Check(present, "PROV.length", f, "length header required", parse.Pos(), "the length is parsed only on the 'header present' edge; absence returns an error", "a missing Content-Length is not refused before parsing")
		// the parse error leads to an error return
		okErr := false
		for _, r := range ir.Returns(f) {
			if len(r.Results) == 0 || ir.IsNilConst(ir.ReturnResult(r, len(r.Results)-1)) {
				continue
			}
			// where the returned error is produced: at the return, or — an error variable
			// returned by a shared exit — where a non-nil value is assigned to it
			origins := []*ssa.BasicBlock{r.Block()}
			if phi, isPhi := ir.ReturnResult(r, len(r.Results)-1).(*ssa.Phi); isPhi {
				for i, e := range phi.Edges {
					if !ir.IsNilConst(e) && nonNilValue(e) {
						origins = append(origins, phi.Block().Preds[i])
					}
				}
			}
			for _, ob := range origins {
				for _, cd := range ir.CondsAt(ob) {
					if x, eq, ok := ir.NilCompare(cd.V); ok && ir.IsExtractOf(x, parse, 1) && eq != cd.Truth {
						okErr = true
					}
				}
				// also: reached from the err != nil edge through a shared block
				for _, p := range ob.Preds {
					for _, cd := range ir.EdgeConds(p, ob) {
						if x, eq, ok := ir.NilCompare(cd.V); ok && ir.IsExtractOf(x, parse, 1) && eq != cd.Truth {
							okErr = true
						}
					}
				}
			}
		}
		c.Check(okErr, "PROV.length", f, "unparsable length is an error", parse.Pos(), "the parser's error edge returns a non-nil error", "a Content-Length that does not parse is not reported as an error")
		return
	}
	c.Undecided("PROV.length", nil, "length parse", 0, "no length parse found in a Recv method")
}

// ---------------------------------------------------------------------------
// C12-D3 and accumulation integrity in delimiter framing

// effectiveReturns lists the returns that decide f's results: its own, with
// every `return h(...)` of a private helper h replaced by h's returns.
func effectiveReturns(c *chk.Ctx, f *ssa.Function, depth int) []*ssa.Return {
	var out []*ssa.Return
	for _, r := range ir.Returns(f) {
		var tail *ssa.Call
		if depth < 3 && len(r.Results) >= 1 {
			all := true
			for i := range r.Results {
				v := ir.ReturnResult(r, i)
				var call *ssa.Call
				if e, ok := v.(*ssa.Extract); ok && e.Index == i {
					call, _ = e.Tuple.(*ssa.Call)
				} else if cv, ok := v.(*ssa.Call); ok && len(r.Results) == 1 {
					call = cv
				}
				if call == nil || (tail != nil && call != tail) {
					all = false
					break
				}
				tail = call
			}
			if !all {
				tail = nil
			}
		}
		if tail != nil {
			if g := tail.Call.StaticCallee(); g != nil && c.P.InRepo[g] && !ir.Exported(g) && g != f && g.Signature.Results().Len() == len(r.Results) {
				out = append(out, effectiveReturns(c, g, depth+1)...)
				continue
			}
		}
		out = append(out, r)
	}
	return out
}

// resultAt is one return statement and the index of the result of interest.
type resultAt struct {
	r   *ssa.Return
	idx int
}

// effectiveResults lists the returns that decide result idx of f: its own, with
// a result that is result j of a private helper's call replaced by the helper's
// returns (looking at their result j). Unlike effectiveReturns the helper need
// not have f's signature: `x, err := h(); if err != nil { return err }`.
func effectiveResults(c *chk.Ctx, f *ssa.Function, idx, depth int) []resultAt {
	var out []resultAt
	for _, r := range ir.Returns(f) {
		if idx >= len(r.Results) {
			continue
		}
		v := ir.ReturnResult(r, idx)
		var call *ssa.Call
		j := 0
		if e, ok := v.(*ssa.Extract); ok {
			call, _ = e.Tuple.(*ssa.Call)
			j = e.Index
		} else if cv, ok := v.(*ssa.Call); ok {
			call = cv
		}
		if call != nil && depth < 3 {
			if g := call.Call.StaticCallee(); g != nil && c.P.InRepo[g] && !ir.Exported(g) && g != f && len(g.Blocks) > 0 {
				out = append(out, effectiveResults(c, g, j, depth+1)...)
				continue
			}
		}
		out = append(out, resultAt{r, idx})
	}
	return out
}

// delimModel describes a delimiter-framing receiver: its read-primitive calls,
// its accumulation buffer, and predicates for "the accumulated line" and "the
// read primitive's own error", all decided by provenance so that they hold
// across private helpers.
// bufKey names an accumulation buffer: a local bytes.Buffer, or a Buffer field
// of a local struct (a "pending record" helper type).
type bufKey struct {
	al    *ssa.Alloc
	field int // -1: the local itself
}

func bufferKey(c *chk.Ctx, v ssa.Value) (bufKey, bool) {
	if fa, ok := v.(*ssa.FieldAddr); ok {
		if al := soleAlloc(c, c.P.Canon(fa.X)); al != nil {
			return bufKey{al, fa.Field}, true
		}
		return bufKey{}, false
	}
	if al := soleAlloc(c, v); al != nil {
		return bufKey{al, -1}, true
	}
	return bufKey{}, false
}

type delimModel struct {
	f       *ssa.Function
	reads   []*ssa.Call
	buf     *bufKey
	isAccum func(ssa.Value) bool
	isErr   func(ssa.Value) bool
}

func delimiterRecv(c *chk.Ctx) *delimModel {
	for _, f := range chanMethods(c, "Recv") {
		m := &delimModel{f: f}
		c.P.ExtInstrs(f, func(ins ssa.Instruction) {
			if call, ok := ins.(*ssa.Call); ok && ir.IsCallTo(&call.Call, "(*bufio.Reader).ReadSlice") {
				m.reads = append(m.reads, call)
			}
		})
		if len(m.reads) == 0 {
			continue
		}
		isRead := func(v ssa.Value, idx int) bool {
			for _, rs := range m.reads {
				if ir.IsExtractOf(v, rs, idx) {
					return true
				}
			}
			return false
		}
		// the accumulation buffer: a local bytes.Buffer that receives every chunk read
		written := map[bufKey]int{}
		c.P.ExtCalls(f, func(ci ssa.CallInstruction) {
			if ir.IsCallTo(ci.Common(), "(*bytes.Buffer).Write") && (isRead(ir.NormCell(ci.Common().Args[1]), 0) || isRead(c.P.Canon(ci.Common().Args[1]), 0)) {
				if k, ok := bufferKey(c, ci.Common().Args[0]); ok {
					written[k]++
				}
			}
		})
		for k, n := range written {
			if n == len(m.reads) {
				kk := k
				m.buf = &kk
			}
		}
		isBytes := func(v ssa.Value) bool {
			call, ok := v.(*ssa.Call)
			if !ok || m.buf == nil || !ir.IsCallTo(&call.Call, "(*bytes.Buffer).Bytes") {
				return false
			}
			k, isK := bufferKey(c, call.Call.Args[0])
			return isK && k == *m.buf
		}
		// isDelimOnly: []byte{d} where d is the delimiter every read primitive is given
		isDelimOnly := func(v ssa.Value) bool {
			sl, ok := v.(*ssa.Slice)
			if !ok || sl.Low != nil || sl.High != nil {
				return false
			}
			al, ok := sl.X.(*ssa.Alloc)
			if !ok {
				return false
			}
			arr, ok := al.Type().Underlying().(*types.Pointer).Elem().Underlying().(*types.Array)
			if !ok || arr.Len() != 1 {
				return false
			}
			nStore := 0
			good := true
			for _, ref := range *al.Referrers() {
				switch x := ref.(type) {
				case *ssa.IndexAddr:
					for _, rr := range *x.Referrers() {
						st, isSt := rr.(*ssa.Store)
						if !isSt {
							good = false
							continue
						}
						nStore++
						for _, rs := range m.reads {
							if !ir.SameFieldLoad(st.Val, rs.Call.Args[1]) && st.Val != rs.Call.Args[1] {
								good = false
							}
						}
					}
				case *ssa.Slice, *ssa.DebugRef:
				default:
					good = false
				}
			}
			return good && nStore == 1
		}
		m.isAccum = func(v ssa.Value) bool {
			n := 0
			for _, src := range c.P.SourcesStop(v, isBytes) {
				// a suffix trimmed off the line (the delimiter, when present) leaves a piece of the line
				// (the delimiter alone: a record cannot contain it, so nothing else can be cut)
				if call, ok := src.(*ssa.Call); ok && ir.IsCallTo(&call.Call, "bytes.TrimSuffix") && len(call.Call.Args) == 2 && isBytes(ir.NormCell(call.Call.Args[0])) && isDelimOnly(call.Call.Args[1]) {
					n++
					continue
				}
				if !isBytes(src) {
					return false
				}
				n++
			}
			return n > 0
		}
		m.isErr = func(v ssa.Value) bool {
			if phi, isPhi := v.(*ssa.Phi); isPhi {
				// after a flag-controlled loop, the variable holds what the last iteration stored
				if live := ir.ExitLiveEdges(phi); len(live) < len(phi.Edges) {
					for _, e := range live {
						if !m.isErr(e) {
							return false
						}
					}
					return true
				}
			}
			n := 0
			for _, src := range c.P.SourcesStop(v, func(x ssa.Value) bool { return isRead(x, 1) }) {
				if g := globalLoad(src); g != nil && g.Pkg != nil && g.Pkg.Pkg.Path() == "bufio" && g.Name() == "ErrBufferFull" {
					// the "line incomplete, read on" sentinel used to prime a loop variable: the
					// loop is left only with the read primitive's own result
					continue
				}
				if !isRead(src, 1) {
					return false
				}
				n++
			}
			return n > 0
		}
		return m
	}
	return nil
}

func ruleDelimiterRecv(c *chk.Ctx) {
	m := delimiterRecv(c)
	if m == nil {
		c.Undecided("PAIR.accumulate", nil, "delimiter Recv", 0, "no delimiter-framing Recv found")
		return
	}
	f := m.f
	if m.buf == nil {
		c.Undecided("PAIR.accumulate", f, "accumulation buffer", f.Pos(), "no local buffer accumulating every ReadSlice chunk found")
		return
	}
	emptyKnown := func(conds []ir.Cond) bool {
		for _, cd := range conds {
			x, y, op, ok := ir.Rel(cd)
			if !ok {
				continue
			}
			k, isC := ir.ConstInt(y)
			if !isC {
				continue
			}
			isSubject := false
			if sv, isLen := ir.LenOf(x); isLen && m.isAccum(sv) {
				isSubject = true
			} else if call, ok := x.(*ssa.Call); ok && ir.IsCallTo(&call.Call, "(*bytes.Buffer).Len") && func() bool { k, isK := bufferKey(c, call.Call.Args[0]); return isK && k == *m.buf }() {
				isSubject = true
			}
			if !isSubject {
				continue
			}
			if (op == token.EQL && k == 0) || (op == token.LEQ && k == 0) || (op == token.LSS && k == 1) {
				return true
			}
		}
		return false
	}
	// every way a return's data is produced: the value itself, or — at an exit shared by
	// several outcomes — each value chosen into the returned variable, with the outcomes on its edge
	type dataWay struct {
		r     *ssa.Return
		d     ssa.Value
		conds []ir.Cond
	}
	var dways []dataWay
	for _, r := range effectiveReturns(c, f, 0) {
		d := ir.ReturnResult(r, 0)
		if phi, isPhi := d.(*ssa.Phi); isPhi && phi.Block() == r.Block() {
			for i, e := range phi.Edges {
				pred := phi.Block().Preds[i]
				dways = append(dways, dataWay{r, e, append(append([]ir.Cond{}, ir.CondsAt(pred)...), ir.EdgeConds(pred, phi.Block())...)})
			}
			continue
		}
		dways = append(dways, dataWay{r, d, ir.CondsAt(r.Block())})
	}
	for _, w := range dways {
		r, d := w.r, w.d
		switch {
		case ir.IsNilConst(d):
			c.Check(emptyKnown(w.conds), "PAIR.accumulate", f, "nothing returned only when nothing was read", r.Pos(), "a nil record is returned only where the accumulated line is known to be empty", "Recv can return no data while bytes have been accumulated (on a path where the accumulated line is not known to be empty): a record would be silently dropped or shortened")
		case m.isAccum(d):
			c.Pass("PAIR.accumulate", f, "returned data is the accumulated line", r.Pos(), "data result derives from the accumulation buffer")
		default:
			c.Fail("PAIR.accumulate", f, "returned data", r.Pos(), "the data returned is neither the accumulated line nor nil")
		}
	}
	// no more than the delimiter is removed: the record returned is the accumulated line cut at most once
	for _, w := range dways {
		if ir.IsNilConst(w.d) {
			continue
		}
		if n := cutDepth(c, w.d, nil, 0, map[ssa.Value]bool{}); n > 1 {
			c.Fail("PAIR.strip", f, "only the delimiter is removed", w.r.Pos(), "the record returned is cut %d times out of the accumulated line: bytes other than the delimiter (a trailing CR, padding) would be removed from the record, which may contain any byte but the delimiter", n)
		} else {
			c.Pass("PAIR.strip", f, "only the delimiter is removed", w.r.Pos(), "the record returned is the accumulated line, cut at most once")
		}
	}
	// stripping the last byte only when it is the delimiter
	c.P.ExtInstrs(f, func(ins ssa.Instruction) {
		sl, ok := ins.(*ssa.Slice)
		if !ok || sl.High == nil {
			return
		}
		bo, ok := sl.High.(*ssa.BinOp)
		if !ok || bo.Op != token.SUB {
			return
		}
		if k, isC := ir.ConstInt(bo.Y); !isC || k != 1 {
			return
		}
		okStrip := ir.ProvesNil(ir.CondsAt(sl.Block()), m.isErr)
		c.Check(okStrip, "PAIR.strip", sl.Parent(), "last byte stripped only when it is the delimiter", sl.Pos(), "the final byte is dropped only on the err == nil edge of ReadSlice (the only case in which it is the delimiter)", "the final byte is dropped although ReadSlice may have failed: an unterminated last record loses its last byte")
	})
}

// cutDepth counts how many times v was cut (resliced with a bound, or trimmed)
// on its longest chain back to an uncut value. args maps the parameters of a
// helper being looked through to the caller's arguments.
func cutDepth(c *chk.Ctx, v ssa.Value, args map[*ssa.Parameter]ssa.Value, depth int, seen map[ssa.Value]bool) int {
	if depth > 12 || seen[v] {
		return 0
	}
	seen[v] = true
	defer delete(seen, v)
	switch x := v.(type) {
	case *ssa.Slice:
		n := cutDepth(c, x.X, args, depth+1, seen)
		if x.High != nil || x.Low != nil {
			if k, isC := ir.ConstInt(x.Low); x.High != nil || !isC || k != 0 {
				n++
			}
		}
		return n
	case *ssa.Phi:
		best := 0
		for _, e := range x.Edges {
			if n := cutDepth(c, e, args, depth+1, seen); n > best {
				best = n
			}
		}
		return best
	case *ssa.Parameter:
		if a, ok := args[x]; ok {
			return cutDepth(c, a, nil, depth+1, seen)
		}
	case *ssa.ChangeType:
		return cutDepth(c, x.X, args, depth+1, seen)
	case *ssa.Extract:
		if call, ok := x.Tuple.(*ssa.Call); ok {
			return cutDepthCall(c, call, x.Index, depth, seen)
		}
	case *ssa.Call:
		return cutDepthCall(c, x, 0, depth, seen)
	}
	return 0
}

func cutDepthCall(c *chk.Ctx, call *ssa.Call, res, depth int, seen map[ssa.Value]bool) int {
	cc := &call.Call
	if ir.IsCallTo(cc, "bytes.TrimSuffix", "bytes.TrimRight", "bytes.TrimSpace", "bytes.TrimPrefix", "bytes.TrimLeft", "bytes.Trim", "bytes.TrimFunc", "bytes.TrimRightFunc", "bytes.TrimLeftFunc") {
		return 1 + cutDepth(c, cc.Args[0], nil, depth+1, seen)
	}
	g := cc.StaticCallee()
	if g == nil || !c.P.InRepo[g] || g.Blocks == nil {
		return 0
	}
	m := map[*ssa.Parameter]ssa.Value{}
	for i, p := range g.Params {
		if i < len(cc.Args) {
			m[p] = cc.Args[i]
		}
	}
	best := 0
	for _, r := range ir.Returns(g) {
		if res >= len(r.Results) {
			continue
		}
		if n := cutDepth(c, ir.ReturnResult(r, res), m, depth+1, seen); n > best {
			best = n
		}
	}
	return best
}

// ruleFullReads: a Read whose byte count is ignored cannot fill a record.
func ruleFullReads(c *chk.Ctx) {
	n := 0
	for _, f := range pkgFuncs(c, c.M.ChanPkg) {
		ir.Instrs(f, func(ins ssa.Instruction) {
			call, ok := ins.(*ssa.Call)
			if !ok {
				return
			}
			cc := &call.Call
			full := ir.IsCallTo(cc, "io.ReadFull", "io.ReadAtLeast", "io.CopyN")
			partial := ir.IsCallTo(cc, "(*bufio.Reader).Read") || (cc.IsInvoke() && cc.Method.Name() == "Read")
			if !full && !partial {
				return
			}
			n++
			if full && ir.IsCallTo(cc, "io.ReadAtLeast") && len(cc.Args) == 3 {
				// ReadAtLeast may read more than the minimum when the buffer is longer: the buffer
				// handed over must be cut to exactly that minimum, or bytes of the next record
				// would be consumed with this one
				exact := false
				if sl, isSl := cc.Args[1].(*ssa.Slice); isSl && sl.High != nil && (sl.High == cc.Args[2] || ir.SameValue(sl.High, cc.Args[2])) {
					exact = true
				}
				c.Check(exact, "PAIR.fullread", f, "read stops at the record's end", call.Pos(), "the buffer given to ReadAtLeast is cut to the minimum", "ReadAtLeast is given a buffer longer than the record (not buf[:n] with n the minimum): when the next record's bytes are already available they are read into the spare room and lost to the next Recv")
			}
			if full {
				// its error must be returned on the err != nil edge
				okErr := false
				for _, r := range ir.Returns(f) {
					if ir.IsNilConst(ir.ReturnResult(r, 1)) {
						continue
					}
					for _, p := range append([]*ssa.BasicBlock{}, r.Block().Preds...) {
						for _, cd := range ir.EdgeConds(p, r.Block()) {
							if x, eq, ok := ir.NilCompare(cd.V); ok && ir.IsExtractOf(x, call, 1) && eq != cd.Truth {
								okErr = true
							}
						}
					}
					for _, cd := range ir.CondsAt(r.Block()) {
						if x, eq, ok := ir.NilCompare(cd.V); ok && ir.IsExtractOf(x, call, 1) && eq != cd.Truth {
							okErr = true
						}
					}
					// (one error variable for both ways of reading the body, tested once: the value
					// returned on its != nil edge, with this read's error among what it can hold)
					ev := ir.ReturnResult(r, 1)
					if ir.ProvesNonNil(ir.CondsAt(r.Block()), func(x ssa.Value) bool { return x == ev }) {
						for _, src := range c.P.Sources(ev) {
							if ir.IsExtractOf(src, call, 1) {
								okErr = true
							}
						}
					}
				}
				c.Check(okErr, "PAIR.fullread", f, "short body is an error", call.Pos(), "the body is read with a full-read primitive whose error is returned", "the error of the full read is not returned: a truncated body would be delivered as a record")
				return
			}
			used := false
			for _, r := range *call.Referrers() {
				if e, ok := r.(*ssa.Extract); ok && e.Index == 0 && len(*e.Referrers()) > 0 {
					used = true
				}
			}
			c.Check(used, "PAIR.fullread", f, "partial read count used", call.Pos(), "the byte count of Read is used", "a single Read fills the record buffer and its byte count is ignored: a fragmented body would be returned with a stale tail and the stream would lose framing")
		})
	}
	if n == 0 {
		c.Undecided("PAIR.fullread", nil, "body reads", 0, "no body read found")
	}
}

// ruleContentType: C12-D5.
func ruleContentType(c *chk.Ctx) {
	var mism *types.Named
	if o := c.M.ChanPkg.Pkg.Scope().Lookup("ContentTypeMismatchError"); o != nil {
		mism, _ = o.Type().(*types.Named)
	}
	if mism == nil {
		c.Undecided("TABLE.ctype", nil, "mismatch error type", 0, "not found")
		return
	}
	n := 0
	for _, f := range chanMethods(c, "Recv") {
		// strict: builds the mismatch error on got != want (in the receiver or a private helper)
		c.P.ExtInstrs(f, func(ins ssa.Instruction) {
			al, ok := ins.(*ssa.Alloc)
			if !ok || types.Unalias(al.Type().(*types.Pointer).Elem()) != types.Type(mism) {
				return
			}
			n++
			built := false
			for _, cd := range c.P.CondsWithin(al, f) {
				if x, _, op, isRel := ir.Rel(cd); isRel && op == token.NEQ && x.Type().String() == "string" {
					built = true // got != want, however the test is spelled
				}
			}
			c.Check(built, "TABLE.ctype", f, "mismatch error exactly on got != want", al.Pos(), "the mismatch error is built on the contentType != expected edge", "the content-type mismatch error is not governed by got != want")
			// returned together with the payload on the success path
			// (on every path that returns a payload: a body read by a helper must not lose it)
			together, nPay := true, 0
			for _, r := range effectiveReturns(c, f, 0) {
				if !ir.IsNilConst(ir.ReturnResult(r, 0)) {
					nPay++
					has := false
					for _, src := range c.P.Sources(ir.ReturnResult(r, 1)) {
						if src == ssa.Value(al) {
							has = true
						}
					}
					if !has {
						together = false
					}
				}
			}
			together = together && nPay > 0
			c.Check(together, "TABLE.ctype", f, "mismatch reported with the payload", al.Pos(), "the mismatch error accompanies the payload", "the mismatch error is not returned together with the payload")
		})
		// lenient: clears error only on *Mismatch ∧ Got == "" (the test may sit in a predicate helper)
		c.P.ExtInstrs(f, func(ins ssa.Instruction) {
			ta, ok := ins.(*ssa.TypeAssert)
			if !ok || !ta.CommaOk {
				return
			}
			p, ok := ta.AssertedType.(*types.Pointer)
			if !ok || types.Unalias(p.Elem()) != types.Type(mism) {
				return
			}
			n++
			// the phi/assignment of nil to err is governed by ok ∧ Got == ""
			// every way the receiver can hand back a nil error after the type assertion: a phi edge
			// carrying nil, or a return of the nil constant
			type clearing struct{ conds []ir.Cond }
			var clears []clearing
			taAnchors := []ssa.Instruction{ta}
			if ta.Parent() != f {
				taAnchors = anchorsIn(c, ta, f)
			}
			for _, r := range effectiveReturns(c, f, 0) {
				dominated := false
				for _, a := range taAnchors {
					if a.Parent() == r.Parent() && ir.InstrDominates(a, r) {
						dominated = true
					}
				}
				if r.Parent() == ta.Parent() && ir.InstrDominates(ta, r) {
					dominated = true
				}
				if !dominated || len(r.Results) < 2 {
					continue
				}
				ev := ir.ReturnResult(r, 1)
				if phi, isPhi := ev.(*ssa.Phi); isPhi {
					for i, e := range phi.Edges {
						if ir.IsNilConst(e) {
							for _, a := range expandPredicateHelpers(c, ir.EdgeConds(phi.Block().Preds[i], phi.Block()), 0) {
								clears = append(clears, clearing{a})
							}
						}
					}
					continue
				}
				// the error filtered by a private helper that holds the assertion: the helper's
				// own nil returns after the assertion are the clearings
				if hc, isCall := ir.NormCell(ev).(*ssa.Call); isCall && hc.Call.StaticCallee() == ta.Parent() && ta.Parent() != f && ta.Parent().Signature.Results().Len() == 1 {
					for _, r2 := range ir.Returns(ta.Parent()) {
						if !ir.IsNilConst(ir.ReturnResult(r2, 0)) || !ir.InstrDominates(ta, r2) {
							continue
						}
						for _, alt := range ir.CondAltsAt(r2.Block()) {
							for _, a := range expandPredicateHelpers(c, alt, 0) {
								clears = append(clears, clearing{a})
							}
						}
					}
					continue
				}
				if ir.IsNilConst(ev) {
					for _, alt := range ir.CondAltsAt(r.Block()) {
						for _, a := range expandPredicateHelpers(c, alt, 0) {
							clears = append(clears, clearing{a})
						}
					}
				}
			}
			okClear := len(clears) > 0
			for _, cl := range clears {
				var kinds []string
				for _, cd := range cl.conds {
					if ex, ok := cd.V.(*ssa.Extract); ok && ex.Tuple == ssa.Value(ta) && ex.Index == 1 && cd.Truth {
						kinds = append(kinds, "isMismatch")
					}
					if x, y, op, ok := ir.Rel(cd); ok && op == token.EQL {
						sy, isY := constString(y)
						sx, isX := constString(x)
						if (isY && sy == "") || (isX && sx == "") {
							kinds = append(kinds, "Got==\"\"")
						}
					}
				}
				kinds = dedupStrings(kinds)
				sort.Strings(kinds)
				if strings.Join(kinds, "∧") != "Got==\"\"∧isMismatch" {
					okClear = false
				}
			}
			c.Check(okClear, "TABLE.ctype", f, "lenient receiver forgives only an absent type", ta.Pos(), "the error is cleared exactly when it is a mismatch error with an empty observed type", "the lenient receiver clears errors other than 'content type absent'")
		})
	}
	if n < 2 {
		c.Undecided("TABLE.ctype", nil, "content-type policy sites", 0, "found %d (want 2)", n)
	}
}

// ruleReaderAcceptsDataEOF: the server's reader accepts data with an error
// only for err == io.EOF ∧ len(bits) != 0.
func ruleReaderAcceptsDataEOF(c *chk.Ctx) {
	for _, s := range chanSites(c, "Recv") {
		if !(len(s.owners) == 1 && s.owners["server"] && !s.other) {
			continue
		}
		f := s.fn
		call, _ := s.instr.(*ssa.Call)
		// the parser call is reached under: err == nil, or err == io.EOF ∧ len(bits) != 0
		var parse ssa.CallInstruction
		ir.Calls(f, func(ci ssa.CallInstruction) {
			if g := ci.Common().StaticCallee(); g != nil && isListParser(c, g) {
				parse = ci
			}
		})
		if parse == nil || call == nil {
			c.Undecided("TABLE.dataeof", f, "reader parse", f.Pos(), "parser call not found in the reader")
			return
		}
		var kinds []string
		for _, p := range parse.Block().Preds {
			var ks []string
			for _, cd := range ir.EdgeConds(p, parse.Block()) {
				if x, eq, ok := ir.NilCompare(cd.V); ok && ir.IsExtractOf(x, call, 1) {
					if eq == cd.Truth {
						ks = append(ks, "err==nil")
					} else {
						ks = append(ks, "err!=nil")
					}
					continue
				}
				if x, y, op, ok := ir.Rel(cd); ok {
					g := globalLoad(y)
					if g == nil {
						g = globalLoad(x)
					}
					if g != nil && g.Name() == "EOF" && op == token.EQL {
						ks = append(ks, "err==EOF")
						continue
					}
				}
				if _, ok := ir.NonEmptyLen(cd); ok {
					ks = append(ks, "len!=0")
					continue
				}
			}
			ks = dedupStrings(ks)
			sort.Strings(ks)
			kinds = append(kinds, strings.Join(ks, "∧"))
		}
		sort.Strings(kinds)
		got := strings.Join(kinds, " | ")
		ok := got == "err!=nil∧err==EOF∧len!=0 | err==nil"
		c.Check(ok, "TABLE.dataeof", f, "data with an error accepted only for EOF with data", parse.Pos(), "the record is parsed exactly when err == nil, or err == io.EOF ∧ len(bits) != 0", "the reader parses a record under ["+got+"]: data accompanied by another error (e.g. a truncated body) could be treated as a request")
		return
	}
}

// ruleRecordFilledByFullRead: in the length-prefixed receiver, every return of
// a non-nil record is dominated by the err == nil edge of a full-read
// primitive (io.ReadFull / io.ReadAtLeast / io.CopyN) whose size is the
// parsed length.
func ruleRecordFilledByFullRead(c *chk.Ctx) {
	for _, f := range chanMethods(c, "Recv") {
		// the length-prefixed receiver: the one in whose extended body a length is parsed
		var parse *ssa.Call
		c.P.ExtInstrs(f, func(ins ssa.Instruction) {
			if call, ok := ins.(*ssa.Call); ok && ir.IsCallTo(&call.Call, "strconv.Atoi", "strconv.ParseInt", "strconv.ParseUint") {
				parse = call
			}
		})
		if parse == nil {
			continue
		}
		n := 0
		isFull := func(ins ssa.Instruction) (*ssa.Call, bool) {
			fr, isCall := ins.(*ssa.Call)
			return fr, isCall && ir.IsCallTo(&fr.Call, "io.ReadFull", "io.ReadAtLeast", "io.CopyN")
		}
		// complete: the record value v, as returned (or handed on) at `at`, was filled by a
		// full read that succeeded. knownNil says which error values are known nil there.
		var complete func(v ssa.Value, at ssa.Instruction, knownNil func(ssa.Value) bool, depth int) bool
		complete = func(v ssa.Value, at ssa.Instruction, knownNil func(ssa.Value) bool, depth int) bool {
			if depth > 3 {
				return false
			}
			g := at.Parent()
			done := false
			ir.Instrs(g, func(ins ssa.Instruction) {
				if fr, ok := isFull(ins); ok && ir.InstrDominates(fr, at) {
					for _, ref := range *fr.Referrers() {
						if e, isE := ref.(*ssa.Extract); isE && e.Index == 1 && knownNil(e) {
							done = true
						}
					}
				}
			})
			if done {
				return true
			}
			v = ir.NormCell(v)
			// chosen on the way into a shared exit: each way for itself; an error variable chosen
			// alongside stands, on that way, for the value that flowed into it
			if phi, isPhi := v.(*ssa.Phi); isPhi {
				blk := phi.Block()
				for i, e := range phi.Edges {
					pred := blk.Preds[i]
					edge := append(append([]ir.Cond{}, ir.CondsAt(pred)...), ir.EdgeConds(pred, blk)...)
					i := i
					kn := func(x ssa.Value) bool {
						if ir.ProvesNil(edge, func(y ssa.Value) bool { return y == x }) || knownNil(x) {
							return true
						}
						for _, ins := range blk.Instrs {
							p2, isP := ins.(*ssa.Phi)
							if !isP {
								break
							}
							if i < len(p2.Edges) && p2.Edges[i] == x && knownNil(p2) {
								return true
							}
							// (the error may have been replaced by a sentinel on the way:
							// `if err == io.EOF && n != 0 { err = io.ErrUnexpectedEOF }` — a nil
							// outcome can only be the original error)
							if i < len(p2.Edges) && knownNil(p2) {
								if inner, isInner := p2.Edges[i].(*ssa.Phi); isInner {
									has, rest := false, true
									for _, ie := range inner.Edges {
										if ie == x {
											has = true
										} else if !nonNilValue(ie) {
											rest = false
										}
									}
									if has && rest {
										return true
									}
								}
							}
						}
						return false
					}
					if !complete(e, pred.Instrs[len(pred.Instrs)-1], kn, depth+1) {
						return false
					}
				}
				return len(phi.Edges) > 0
			}
			// one result of a private helper that reads the body: every record the helper
			// returns is complete
			var call *ssa.Call
			idx := 0
			if e, isE := v.(*ssa.Extract); isE {
				call, _ = e.Tuple.(*ssa.Call)
				idx = e.Index
			} else if cv, isCall := v.(*ssa.Call); isCall {
				call = cv
			}
			if call == nil {
				return false
			}
			h := call.Call.StaticCallee()
			if h == nil || !c.P.InRepo[h] || ir.Exported(h) || len(h.Blocks) == 0 {
				return false
			}
			// (every record the helper can return is judged where the helper returns it; whether
			// it also reports an error there does not matter)
			some := false
			for _, r2 := range ir.Returns(h) {
				rv := ir.ReturnResult(r2, idx)
				if ir.IsNilConst(rv) {
					continue
				}
				some = true
				conds := ir.CondsAt(r2.Block())
				if !complete(rv, r2, func(x ssa.Value) bool { return ir.ProvesNil(conds, func(y ssa.Value) bool { return y == x }) }, depth+1) {
					return false
				}
			}
			return some
		}
		for _, r := range ir.Returns(f) {
			if len(r.Results) == 0 || ir.IsNilConst(ir.ReturnResult(r, 0)) {
				continue
			}
			if r.Parent().Recover != nil && r.Block() == r.Parent().Recover {
				continue
			}
			n++
			conds := ir.CondsAt(r.Block())
			ok := complete(ir.ReturnResult(r, 0), r, func(x ssa.Value) bool { return ir.ProvesNil(conds, func(y ssa.Value) bool { return y == x }) }, 0)
			c.Check(ok, "PAIR.fullread", f, "record returned only after a complete read", r.Pos(), "the record is returned only on the err == nil edge of io.ReadFull/io.CopyN for the declared length", "a record is returned without the success of a full-read primitive for the declared length (e.g. a limited ReadFrom, which swallows EOF): a body cut off by end of stream would be delivered shortened, with no error")
		}
		if n == 0 {
			c.Undecided("PAIR.fullread", f, "record returns", f.Pos(), "no record-returning path found")
		}
		return
	}
	c.Undecided("PAIR.fullread", nil, "length-prefixed receiver", 0, "no Recv method that parses a length found")
}

// ruleDataWithReaderError: a delimiter receiver that hands back data together
// with an error hands back the read primitive's own error (the server accepts
// data only with io.EOF).
func ruleDataWithReaderError(c *chk.Ctx) {
	m := delimiterRecv(c)
	if m == nil {
		c.Undecided("PAIR.dataerr", nil, "ruleDataWithReaderError: anchor", 0, "the code this rule is anchored in was not found (m == nil)")
		return
	}
	for _, r := range effectiveReturns(c, m.f, 0) {
		d, e := ir.ReturnResult(r, 0), ir.ReturnResult(r, 1)
		if ir.IsNilConst(e) {
			continue
		}
		if ir.IsNilConst(d) {
			continue
		}
		c.Check(m.isErr(e), "PAIR.dataerr", m.f, "data is returned with the reader's own error", r.Pos(), "an unterminated final record is returned with ReadSlice's own error (io.EOF at end of stream), which is the case the server's reader accepts", "data is returned together with an error that is not the read primitive's own: the server accepts data-with-error only for io.EOF, so a final unterminated record would be dropped")
	}
}

func dedupStrings(in []string) []string {
	seen := map[string]bool{}
	var out []string
	for _, s := range in {
		if !seen[s] {
			seen[s] = true
			out = append(out, s)
		}
	}
	return out
}

// soleAlloc resolves v to the one local variable it denotes: the Alloc itself,
// or a parameter of a private helper to which every call site passes the same
// Alloc.
func soleAlloc(c *chk.Ctx, v ssa.Value) *ssa.Alloc {
	if al, ok := v.(*ssa.Alloc); ok {
		return al
	}
	var out *ssa.Alloc
	for _, src := range c.P.SourcesStop(v, func(x ssa.Value) bool { _, isAl := x.(*ssa.Alloc); return isAl }) {
		al, ok := src.(*ssa.Alloc)
		if !ok || (out != nil && out != al) {
			return nil
		}
		out = al
	}
	return out
}
