// Code generated from the seeded-breakage records (tools: see DESIGN.md section 8); edit by hand only to add a reason.
package props

// sharedRules lists, per property, clauses that are evaluated by another
// property's rule set and are necessary conditions of this property as well: each
// was violated by a confirmed breakage of this property (its demonstration fails
// with the change and passes without it) that no clause of the property's own
// list reported. The clause is evaluated by the owning property's rules and its
// obligations are reported under this property too.
var sharedRules = map[string]map[string][]string{
	"C01": {
		"C02": {"PAIR.release", "PROV.nullid", "RUN.guard", "TABLE.null", "TABLE.space", "WHO.filter"},
		"C03": {"PAIR.barrier", "WHO.queue"},
		"C06": {"PAIR.sem"},
		"C07": {"PAIR.reserve"},
		"C10": {"PROV.errmap"},
		"C14": {"TABLE.classify"},
		"C17": {"TABLE.decode"},
	},
	"C02": {
		"C01": {"PAIR.countdown", "PAIR.noteerr", "PROV.errmap"},
		"C07": {"PAIR.release"},
		"C08": {"RUN.restart"},
		"C09": {"TABLE.request", "TOKEN.write"},
		"C12": {"TABLE.dataeof"},
		"C17": {"TABLE.prefix"},
	},
	"C03": {
		"C01": {"GO.nowait"},
		"C06": {"PAIR.sem", "WHO.builtin"},
	},
	"C04": {
		"C01": {"PROV.batchflag"},
		"C02": {"TABLE.space"},
		"C05": {"PROV.settle", "TABLE.ctxerr", "TOKEN.stop"},
		"C13": {"PROV.errimmutable"},
	},
	"C05": {
		"C04": {"LOCK.atomicRMW", "TOKEN.register"},
	},
	"C06": {
		"C01": {"GO.nowait", "PAIR.barrier"},
	},
	"C07": {
		"C01": {"PROV.batchflag"},
		"C03": {"PAIR.barrier"},
		"C08": {"TOKEN.stop"},
	},
	"C08": {
		"C03": {"PAIR.barrier", "WHO.queue"},
		"C11": {"TABLE.direct"},
	},
	"C09": {
		"C01": {"LOCK.common"},
		"C03": {"PAIR.barrier"},
		"C05": {"PROV.settle"},
		"C08": {"RUN.readerexit"},
		"C13": {"ERR.checked", "ERR.propagate", "PROV.raw"},
	},
	"C10": {
		"C08": {"RUN.readerexit"},
	},
	"C11": {
		"C12": {"PAIR.hdrloop", "PROV.length", "TABLE.ctype"},
	},
	"C12": {
		"C08": {"RUN.readerexit"},
		"C11": {"WHO.chanstate"},
	},
	"C13": {
		"C02": {"TABLE.null"},
		"C04": {"PROV.order"},
		"C06": {"PAIR.sem"},
		"C14": {"EFFECT.pure", "ERR.propagate", "PROV.errimmutable"},
		"C18": {"PAIR.ids", "PROV.encoder"},
	},
	"C14": {
		"C01": {"PAIR.invoke", "PAIR.join"},
		"C04": {"PROV.settle"},
		"C10": {"PROV.encoder"},
		"C18": {"PAIR.ids"},
	},
	"C15": {
		"C16": {"PAIR.positional"},
	},
	"C16": {
		"C15": {"PAIR.length", "PAIR.wrap", "PROV.invalidparams"},
	},
	"C17": {
		"C01": {"PAIR.countdown", "WHO.filter"},
		"C06": {"WHO.builtin"},
		"C10": {"PROV.encoder"},
		"C19": {"PROV.params"},
	},
	"C18": {
		"C01": {"PAIR.countdown", "TABLE.space"},
		"C02": {"WHO.filter"},
		"C04": {"PAIR.loop"},
		"C06": {"PAIR.sem"},
		"C10": {"PROV.encoder"},
		"C14": {"EFFECT.pure", "PROV.errimmutable"},
		"C17": {"TABLE.prefix"},
	},
	"C19": {
		"C18": {"PAIR.ids", "PROV.body"},
	},
	"C20": {
		"C01": {"PAIR.invoke", "PAIR.join", "PAIR.sem"},
		"C03": {"PAIR.barrier", "RUN.retain"},
		"C08": {"GO.class", "GO.lifetime", "RUN.readerstops", "TOKEN.stop"},
	},
}
