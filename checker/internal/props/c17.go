package props

import (
	"jrpcvet/internal/chk"
	"jrpcvet/internal/ir"
)

func pkgGo(c *chk.Ctx, which string) func(goClass) bool {
	return func(gc goClass) bool {
		switch which {
		case "jhttp":
			return inPkg(c, gc.g.Parent(), c.M.JhttpPkg)
		case "server":
			return inPkg(c, gc.g.Parent(), c.M.ServerPkg)
		}
		return false
	}
}

func init() {
	register(&Def{
		ID:          "C17",
		Technique:   "edge-condition extraction at the assigner call (reserved-prefix gate), accepted-idiom table for the service split, sort-dominates-return rule, writer/reader type agreement for context keys",
		Explanation: "Decides: (D1) the assigner is consulted exactly on ¬builtin or builtin ∧ ¬HasPrefix(name, \"rpc.\"); on the reserved edge a handler is returned only under equality with a constant reserved name; builtin = ¬DisableBuiltin with nil options enabled; (D2) Map.Assign indexes with the unmodified name; ServiceMap.Assign splits with a first-separator idiom, returns nil without separator or service, and forwards the remainder unmodified; (D3) every Names method returns a slice that passed through sort.Strings after its last append; (D4) each context accessor's key has a WithValue writer storing exactly the type it asserts; the assigner is called with the task's own context after the request was attached; the handler's context carries the server; (D5) ServerInfo takes its method list from the assigner's Names(). (D6) the method member is decoded by encoding/json into the message itself; the start time is stored only when unset. (D7) the request predicate is exactly method ≠ \"\" ∧ no error ∧ no result; option accessors with a default supply it whenever the option is unset. (D8) an accessor that forwards a ServerOptions/ClientOptions returns the caller's struct itself, never a partial copy; the Names methods append every key unconditionally. Also decided: outside the start function the server's start time never comes from the clock.",
		NotDecided:  []string{"behaviour for every unicode method name (map/string semantics assumed)", "metrics and start-time content of rpc.serverInfo"},
		Assumptions: []string{"strings.SplitN/Cut/HasPrefix semantics"},
		RuleText:    ruleText,
		Run: func(c *chk.Ctx, tier string) {
			d := dispatchOrUndecided(c, "ROLE.dispatch")
			c.Clause("C17-D1")
			ruleReservedPrefix(c)
			c.Clause("C17-D2")
			ruleMapAssign(c)
			c.Clause("C17-D3")
			ruleSortedNames(c)
			ruleNamesOwnSlice(c)
			c.Clause("C17-D4")
			ruleContextKeys(c, d)
			if d != nil {
				ruleHandlerFromAssigner(c, d)
			}
			c.Clause("C17-D5")
			ruleServerInfo(c)
			ruleStartTimeOnlyWhenUnset(c)
			ruleMethodDecodedAsJSON(c)
			ruleRequestPredicateTable(c)
			ruleOptionsForwardedWhole(c)
			ruleNamesListEveryKey(c)
			ruleAccessorDefaults(c, "TABLE.default", c.M.Pkg)
		},
	})
	register(&Def{
		ID:          "C18",
		Technique:   "edge-condition extraction at the bridge's gate, status-constant table, lock-step predicate agreement between the Notify flag and the caller-id list, index provenance of SetID, id-counter rule of the shared client",
		Explanation: "Decides: (D1) the internal serve function is reached exactly when a parse hook is set or method == POST ∧ media type == application/json ∧ charset ∈ {absent, utf-8, utf8}; the failing edges write 405/415 and a failed serve an error status; (D2) the caller's id is recorded exactly when the spec appended in the same iteration is not a notification (negated predicate on the same member field) and response i is relabelled with recorded id i; (D3) a spec is appended only for members without a static error, whose own error object is appended instead; (D4) 204 exactly when the combined result list is empty, bare object exactly for one result; (D5) the shared client issues fresh ids (C04-D1). (D6) ParseRequests reports the null-normalised id. (D7) ParseRequests receives the complete body (io.ReadAll's result). (D8) the server's per-batch duplicate table records only members that have an id (the notifications of one POST are never taken for duplicates of each other). (D9) the member parser records a failure exactly when a member has a method together with a result or an error.",
		NotDecided:  []string{"'exactly its own responses' under concurrent callers reduces to C04/C01 and is not re-argued"},
		Assumptions: []string{"mime.ParseMediaType semantics"},
		RuleText:    ruleText,
		Run: func(c *chk.Ctx, tier string) {
			c.Clause("C18-D1")
			ruleBridgeGate(c)
			c.Clause("C18-D2/D3/D4")
			ruleBridgeIDs(c)
			ruleSendFailureReported(c)
			ruleParseRequestsNormalisesID(c)
			ruleMixedFieldsRejected(c)
			ruleBridgeParsesWholeBody(c)
			ruleResponseMarshal(c)
			ruleConstantFormats(c)
			if d := dispatchOrUndecided(c, "ROLE.dispatch"); d != nil {
				ruleDupTableHoldsOnlyIDs(c, d)
			}
			c.Clause("C18-D5")
			ruleAtomicCounter(c, "client", c.M.CNextID)
		},
	})
	register(&Def{
		ID:          "C19",
		Technique:   "status-constant table of the Getter, dynamic-type inventory and finiteness guard for query parameters, obtained-response/Body.Close pairing, goroutine accounting in jhttp.Channel",
		Explanation: "Decides: (D1) the Getter writes 400 on the parse-error edge, 404 under ErrorCode == MethodNotFound, 500 otherwise, 200 on success, and bodies are checked json.Marshal results; (D2) every value stored into a parameter map is a string, int64, bool, []byte, nil or a float64 that — when it comes from strconv.ParseFloat — is guarded by ¬IsNaN ∧ ¬IsInf; (D3) a successful parse returns strings.Trim(path, \"/\") on its non-empty edge; (D4) every function that takes HTTP responses off the result channel closes their bodies, and the sender closes or forwards every response it obtains; (D5) the per-POST goroutine is registered with the WaitGroup before it starts and the closer goroutine waits for it before closing the result channel. (D6) every path through the Getter's ServeHTTP writes a response. (D7) option accessors with a default supply it whenever the option is unset (the HTTP client is never nil); a string stored by ParseQuery is a whole query value or encoding/json's decoding of it. (D8) no case folding in the typing of query values, and integer conversions there use base 10. (D10) an Error built in the jhttp package has a constant code: the Getter writes a failed call's own error. (D9) the function that takes an HTTP response off the result channel looks into the response only under err == nil of the received record or a nil test of the pointer. Also decided: the query parsers call ParseForm on every path, return its error and use no lenient accessor (URL.Query); the Getter writes the result's own bytes with 200. Also decided: the Getter's reply writer writes no body other than marshalled JSON outside the json.Marshal failure fallback.",
		NotDecided:  []string{"the typing cascade for every string (strconv's number language is wider than documented)", "result equivalence over the HTTP channel"},
		Assumptions: []string{"net/http client contract: a non-nil response has a non-nil Body"},
		RuleText:    ruleText,
		Run: func(c *chk.Ctx, tier string) {
			c.Clause("C19-D1")
			ruleGetterStatus(c)
			c.Clause("C19-D2/D3")
			ruleQueryParams(c)
			ruleQueryStringsWhole(c)
			ruleQueryValuesCaseSensitive(c)
			ruleQuotedBytesAnyPadding(c)
			ruleQueryFromParsedForm(c)
			ruleGetterForwardsRawResult(c)
			ruleHTTPNeverRebuildsErrors(c)
			ruleResponseMarshal(c)
			ruleQuerySliceBounds(c)
			c.Clause("C19-D4")
			ruleBodiesClosed(c)
			ruleRecvClosesBody(c)
			ruleGetterAlwaysAnswers(c)
			ruleAccessorDefaults(c, "TABLE.default", c.M.JhttpPkg)
			c.Clause("C19-D5")
			ruleGo(c, pkgGo(c, "jhttp"), 2, "Send, Close")
		},
	})
	register(&Def{
		ID:          "C20",
		Technique:   "dominance and path queries over the per-connection goroutine (life-cycle order, argument provenance, close on the failure edge), goroutine accounting against Loop's WaitGroup, edge conditions of the accept-error mapping, error provenance in NetAccepter",
		Explanation: "Decides: (D1) newService() is called inside each connection's goroutine; (D2) exactly one Finish, dominated by WaitStatus, dominated by Start on the Assigner-succeeded edge, with this service's assigner and the status of the server started with it on the accepted channel; (D3) on the Assigner error edge neither Start nor Finish is reachable and every path closes the accepted channel; (D4) every return of Loop is dominated by wg.Wait() and the per-connection goroutine is registered before it starts; (D5) a watcher on a child context (cancel deferred) stops this connection's server; (D6) Loop returns nil exactly for IsErrClosing errors and the accepter's error otherwise; NetAccepter returns only the listener's own error and closes the listener at context end through a watcher started before Accept. (D7) from the failing edge of Accept no path leads back to Accept. (D8) IsErrClosing is exactly err ≠ nil ∧ (errors.Is(ErrClosed) ∨ errors.Is(net.ErrClosed)).",
		NotDecided:  []string{"interleavings of connect/close/cancel as histories"},
		Assumptions: []string{"sync.WaitGroup semantics", "net.Listener.Close unblocks Accept with a net.ErrClosed error"},
		RuleText:    ruleText,
		Run: func(c *chk.Ctx, tier string) {
			c.Clause("C20-D1..D6")
			ruleLoop(c)
			ruleLoopSuccessReachesFinish(c)
			ruleAcceptFailureEndsLoop(c)
			ruleIsErrClosingTable(c)
			c.Clause("C20-D4")
			ruleGo(c, pkgGo(c, "server"), 3, "netAccepter watcher, per-connection goroutine, stop watcher")
			_ = ir.Name
		},
	})
}
