package props

import (
	"fmt"
	"go/token"
	"go/types"
	"sort"
	"strings"

	"golang.org/x/tools/go/ssa"

	"jrpcvet/internal/chk"
	"jrpcvet/internal/ir"
)

// Rules added after the sixth round of independently seeded breakages. As in
// rules_round4.go, each is a structural necessary condition of the property it
// is listed under.

// ruleQueryValuesCaseSensitive (C19): the query-value typing compares the value
// as given — no case folding anywhere between the form value and the tests
// that type it (only exactly true / false / null are constants).
func ruleQueryValuesCaseSensitive(c *chk.Ctx) {
	f := c.M.Func(c.M.JhttpPkg, "ParseQuery")
	if f == nil {
		c.Undecided("TABLE.query", nil, "ParseQuery", 0, "not found")
		return
	}
	bad := ""
	c.P.ExtInstrs(f, func(ins ssa.Instruction) {
		call, ok := ins.(*ssa.Call)
		if !ok {
			return
		}
		if ir.IsCallTo(&call.Call, "strings.ToLower", "strings.ToUpper", "strings.ToTitle", "strings.EqualFold", "bytes.EqualFold", "bytes.ToLower", "bytes.ToUpper", "strings.Title") {
			bad = ir.CalleeName(&call.Call) + " at " + c.P.Pos(call.Pos())
		}
	})
	// integers are decimal: a value is a number exactly when it is optionally signed decimal
	// digits (base 0 would read 010 as 8 and type 0x10, 0b11, 1_000 as numbers)
	notDecimal := ""
	c.P.ExtInstrs(f, func(ins ssa.Instruction) {
		call, ok := ins.(*ssa.Call)
		if !ok || !ir.IsCallTo(&call.Call, "strconv.ParseInt", "strconv.ParseUint") || len(call.Call.Args) < 2 {
			return
		}
		if k, isK := ir.ConstInt(call.Call.Args[1]); !isK || k != 10 {
			notDecimal = c.P.Pos(call.Pos())
		}
	})
	c.Check(notDecimal == "", "TABLE.query", f, "integer query values are decimal", f.Pos(), "every integer conversion in the typing of query values uses base 10", "an integer query value is not parsed in base 10 (at "+notDecimal+"): a zero-padded value would be read as octal and 0x / 0b / underscore spellings, which the documented rules type as strings, would become numbers")
	c.Check(bad == "", "TABLE.query", f, "query values are typed as given (case-sensitive)", f.Pos(), "no case folding in the typing of query values", "the typing of query values folds case ("+bad+"): a literal string such as True or NULL would be delivered as a constant instead of the string the documented rules give")
}

// ruleDuplicateCheckForAllMembers (C07): the in-batch duplicate bookkeeping (a
// map local to the check/assign function, keyed by id) is consulted and updated
// for every member with a usable id — not only for members that passed
// validation so far: a malformed member still occupies its id, so its
// well-formed twin must fail too.
func ruleDuplicateCheckForAllMembers(c *chk.Ctx, d *dispatchModel) {
	n := 0
	c.P.ExtInstrs(d.checkAssign, func(ins ssa.Instruction) {
		var m ssa.Value
		switch x := ins.(type) {
		case *ssa.Lookup:
			m = x.X
		case *ssa.MapUpdate:
			m = x.Map
		default:
			return
		}
		mk, ok := c.P.Canon(m).(*ssa.MakeMap)
		if !ok {
			return
		}
		mt, ok := mk.Type().Underlying().(*types.Map)
		if !ok || mt.Key().String() != "string" {
			return
		}
		n++
		bad := ""
		for _, cd := range c.P.CondsWithin(ins, d.checkAssign) {
			x, _, isNil := ir.NilCompare(cd.V)
			if !isNil {
				continue
			}
			if chk.LoadsField(x, c.M.JErr) {
				bad = "the member's validation error"
			}
			if _, fv, isTask := taskFieldLoad(c, x); isTask && fv == c.M.TErr {
				bad = "the task's error"
			}
		}
		c.Check(bad == "", "PAIR.reserve", ins.Parent(), "in-batch duplicates are tracked for every member", ins.Pos(), "the batch-local id table is consulted/updated whatever the member's validity", "the in-batch duplicate table is skipped depending on "+bad+": a member that failed validation would not occupy its id, and a well-formed member with the same id in the same batch would run instead of failing too")
	})
	if n == 0 {
		// in-batch duplicates may be found some other way (that they are found is PAIR.reserve's
		// "duplicate detection" obligation); nothing for this rule to compare
		c.Pass("PAIR.reserve", d.checkAssign, "in-batch duplicates are tracked for every member", d.checkAssign.Pos(), "no batch-local id table in the check/assign function")
	}
}

// optionAccessors lists the parameterless methods on pointers to *Options
// structs of the given packages.
func optionAccessors(c *chk.Ctx, pkgs ...*ssa.Package) []*ssa.Function {
	var out []*ssa.Function
	for _, pkg := range pkgs {
		for _, f := range pkgFuncs(c, pkg) {
			if f.Parent() != nil || f.Signature.Recv() == nil || f.Signature.Params().Len() != 0 || len(f.Blocks) == 0 {
				continue
			}
			pt, ok := f.Signature.Recv().Type().(*types.Pointer)
			if !ok {
				continue
			}
			named, ok := pt.Elem().(*types.Named)
			if !ok || !strings.HasSuffix(named.Obj().Name(), "Options") {
				continue
			}
			out = append(out, f)
		}
	}
	sort.Slice(out, func(i, j int) bool { return out[i].Pos() < out[j].Pos() })
	return out
}

// ruleAccessorsDoNotCallBack (C07, C05): an option accessor runs once, when the
// server or client is built. It hands the user's callbacks on; it does not call
// them (a NewContext evaluated at construction would give every request the
// same base context) and it does not wrap them in a function that may skip the
// call (an OnCancel hook that is silently not run).
func ruleAccessorsDoNotCallBack(c *chk.Ctx, rule string, pkgs ...*ssa.Package) {
	n := 0
	for _, f := range optionAccessors(c, pkgs...) {
		if _, isFn := f.Signature.Results().At(0).Type().Underlying().(*types.Signature); f.Signature.Results().Len() != 1 || !isFn {
			continue
		}
		n++
		optLoad := func(v ssa.Value) bool {
			u, ok := ir.NormCell(v).(*ssa.UnOp)
			if !ok || u.Op != token.MUL {
				return false
			}
			fa, ok := u.X.(*ssa.FieldAddr)
			return ok && fa.X == ssa.Value(f.Params[0])
		}
		bad := ""
		ir.Calls(f, func(ci ssa.CallInstruction) {
			if optLoad(ci.Common().Value) {
				bad = "calls the option itself at " + c.P.Pos(ci.Pos())
			}
		})
		// a returned closure that calls the captured option under a condition
		for _, an := range f.AnonFuncs {
			ir.Calls(an, func(ci ssa.CallInstruction) {
				v := ci.Common().Value
				fromOpt := optLoad(v)
				if fv, isFV := v.(*ssa.FreeVar); isFV {
					for _, src := range c.P.Sources(fv) {
						if optLoad(src) {
							fromOpt = true
						}
					}
				}
				if u, isU := v.(*ssa.UnOp); isU {
					if fv, isFV := u.X.(*ssa.FreeVar); isFV {
						for _, src := range c.P.Sources(fv) {
							if optLoad(src) {
								fromOpt = true
							}
						}
					}
				}
				if fromOpt && len(ir.CondsAt(ci.Block())) > 0 {
					bad = "wraps the option in a function that calls it only conditionally (" + c.P.Pos(ci.Pos()) + ")"
				}
			})
		}
		c.Check(bad == "", rule, f, "the user's callback is handed on, not called or filtered", f.Pos(), "the accessor neither calls the option nor wraps it in a conditional call", "the accessor "+bad+": the callback would run at construction instead of per use, or be silently skipped")
	}
	if n == 0 {
		c.Pass(rule, nil, "the user's callback is handed on, not called or filtered", 0, "no accessor of a function-typed option in these packages")
	}
}

// ruleSendRecvDisjointState (C11): the two directions of a channel value share
// no mutable buffer: a field of buffer kind (a pointer, slice or map) that
// Send touches is not touched by Recv. A channel is used full duplex — one
// goroutine in Recv while another is in Send — so shared scratch space would
// let a Send overwrite a record that is still being received.
func ruleSendRecvDisjointState(c *chk.Ctx) {
	type key struct{ owner *types.Named }
	touched := map[*types.Named]map[string]map[*types.Var]bool{}
	for _, dir := range []string{"Send", "Recv"} {
		for _, f := range chanMethods(c, dir) {
			owner := ir.RecvNamed(f)
			if owner == nil {
				continue
			}
			if touched[owner] == nil {
				touched[owner] = map[string]map[*types.Var]bool{"Send": {}, "Recv": {}}
			}
			c.P.ExtInstrs(f, func(ins ssa.Instruction) {
				fa, ok := ins.(*ssa.FieldAddr)
				if !ok || ir.FieldOwner(fa) != owner {
					return
				}
				fv := ir.FieldVar(fa)
				switch fv.Type().Underlying().(type) {
				case *types.Pointer, *types.Slice, *types.Map:
					touched[owner][dir][fv] = true
				}
			})
		}
	}
	n := 0
	var owners []*types.Named
	for o := range touched {
		owners = append(owners, o)
	}
	sort.Slice(owners, func(i, j int) bool { return owners[i].Obj().Name() < owners[j].Obj().Name() })
	for _, o := range owners {
		n++
		var shared []string
		for fv := range touched[o]["Send"] {
			if touched[o]["Recv"][fv] {
				shared = append(shared, fv.Name())
			}
		}
		sort.Strings(shared)
		c.Check(len(shared) == 0, "WHO.chanstate", nil, "Send and Recv of "+o.Obj().Name()+" share no buffer", 0, "no pointer/slice/map field is touched by both directions", "field(s) "+strings.Join(shared, ", ")+" of "+o.Obj().Name()+" are used by both Send and Recv: with one goroutine sending while another receives, a Send would overwrite the record being received")
	}
	if n == 0 {
		c.Pass("WHO.chanstate", nil, "Send and Recv share no buffer", 0, "no channel type keeps pointer/slice/map fields")
	}
}

// ruleCacheKeysAreIdentities (C15, C16): where the handler package remembers
// something per function or per type in a package-level table, the key is the
// reflect.Type / function value itself — never a lossy stand-in such as the
// type's name or a function's code pointer, under which distinct types or
// closures collide and one handler would be built from another's data.
func ruleCacheKeysAreIdentities(c *chk.Ctx) {
	lossy := func(v ssa.Value) string {
		for _, src := range c.P.SourcesStop(v, func(x ssa.Value) bool { _, isCall := x.(*ssa.Call); return isCall }) {
			call, ok := src.(*ssa.Call)
			if !ok {
				continue
			}
			if call.Call.IsInvoke() {
				switch call.Call.Method.Name() {
				case "String", "Name", "PkgPath":
					if strings.HasSuffix(call.Call.Value.Type().String(), "reflect.Type") {
						return "reflect.Type." + call.Call.Method.Name() + "()"
					}
				}
			}
			if g := call.Call.StaticCallee(); g != nil {
				switch g.String() {
				case "(reflect.Value).Pointer", "(reflect.Value).UnsafePointer", "(reflect.Value).String":
					return g.String()
				}
				if g.Pkg != nil && g.Pkg.Pkg.Path() == "fmt" && strings.HasPrefix(g.Name(), "Sprint") {
					return "fmt." + g.Name()
				}
			}
		}
		return ""
	}
	n := 0
	for _, f := range pkgFuncs(c, c.M.HandlerPkg) {
		ir.Instrs(f, func(ins ssa.Instruction) {
			var key ssa.Value
			switch x := ins.(type) {
			case *ssa.Call:
				if ir.IsCallTo(&x.Call, "(*sync.Map).Load", "(*sync.Map).Store", "(*sync.Map).LoadOrStore", "(*sync.Map).LoadAndDelete") && len(x.Call.Args) >= 2 {
					if _, isG := x.Call.Args[0].(*ssa.Global); isG {
						key = x.Call.Args[1]
					}
				}
			case *ssa.MapUpdate:
				if globalLoad(x.Map) != nil {
					key = x.Key
				}
			case *ssa.Lookup:
				if globalLoad(x.X) != nil && !isConstLike(x.Index) {
					key = x.Index
				}
			}
			if key == nil {
				return
			}
			n++
			// look through struct keys: every field value
			vals := []ssa.Value{key}
			if mi, ok := key.(*ssa.MakeInterface); ok {
				vals = []ssa.Value{mi.X}
				if u, ok := mi.X.(*ssa.UnOp); ok {
					if al, ok := u.X.(*ssa.Alloc); ok {
						for _, r := range *al.Referrers() {
							if fa, ok := r.(*ssa.FieldAddr); ok {
								for _, r2 := range *fa.Referrers() {
									if st, ok := r2.(*ssa.Store); ok {
										vals = append(vals, st.Val)
									}
								}
							}
						}
					}
				}
			}
			why := ""
			for _, v := range vals {
				if w := lossy(v); w != "" {
					why = w
				}
			}
			c.Check(why == "", "PROV.cachekey", f, "package-level table keyed by identity", ins.Pos(), "the key is not derived from a type's name or a function's code pointer", "a package-level table of the handler package is keyed by "+why+": distinct types of the same name, or closures of one function literal, collide, and a handler would be built from another's field names or call another's function")
		})
	}
	if n == 0 {
		c.Pass("PROV.cachekey", nil, "package-level table keyed by identity", 0, "the handler package keeps no run-time table keyed by types or functions")
	}
}

func isConstLike(v ssa.Value) bool {
	_, ok := v.(*ssa.Const)
	return ok
}

// ruleFuncInfoFixedAfterCheck (C15): what Check computes about a function —
// its type, argument, result, the positional field names, the function value —
// is written only while the FuncInfo is built. The option setters change their
// own flag and nothing else, so that toggling an option back restores the
// documented behaviour.
func ruleFuncInfoFixedAfterCheck(c *chk.Ctx) {
	check := c.M.Func(c.M.HandlerPkg, "Check")
	if check == nil {
		c.Undecided("WHO.snapshot", nil, "Check", 0, "not found")
		return
	}
	var fiT *types.Named
	if o := c.M.HandlerPkg.Pkg.Scope().Lookup("FuncInfo"); o != nil {
		fiT, _ = o.Type().(*types.Named)
	}
	if fiT == nil {
		c.Undecided("WHO.snapshot", nil, "FuncInfo", 0, "not found")
		return
	}
	st := fiT.Underlying().(*types.Struct)
	flag := map[*types.Var]bool{}
	for i := 0; i < st.NumFields(); i++ {
		if st.Field(i).Type().String() == "bool" && !st.Field(i).Exported() {
			flag[st.Field(i)] = true
		}
	}
	n := 0
	for _, f := range pkgFuncs(c, c.M.HandlerPkg) {
		ir.Instrs(f, func(ins ssa.Instruction) {
			s, ok := ins.(*ssa.Store)
			if !ok {
				return
			}
			fa, ok := s.Addr.(*ssa.FieldAddr)
			if !ok || ir.FieldOwner(fa) != fiT || flag[ir.FieldVar(fa)] {
				return
			}
			n++
			fresh := false
			if _, isAl := c.P.Canon(fa.X).(*ssa.Alloc); isAl {
				fresh = true
			}
			// the builders: Check itself and whoever finishes what Check returned before handing
			// it out (Positional fills in its names on Check's result)
			fromCheck := false
			for _, src := range c.P.SourcesStop(fa.X, func(v ssa.Value) bool {
				if e, isE := v.(*ssa.Extract); isE {
					v = e.Tuple
				}
				call, isCall := v.(*ssa.Call)
				return isCall && call.Call.StaticCallee() == check
			}) {
				if e, isE := src.(*ssa.Extract); isE {
					src = e.Tuple
				}
				if call, isCall := src.(*ssa.Call); isCall && call.Call.StaticCallee() == check {
					fromCheck = true
				}
			}
			c.Check(fresh || fromCheck || c.P.InExt(check, f), "WHO.snapshot", f, "FuncInfo."+ir.FieldVar(fa).Name()+" written only while it is built", s.Pos(), "the field is stored into a FuncInfo under construction", "FuncInfo."+ir.FieldVar(fa).Name()+" is rewritten after Check produced it (e.g. by an option setter): a later Wrap would be built from altered data — switching the option back would not restore the documented array decoding")
		})
	}
	if n == 0 {
		c.Undecided("WHO.snapshot", nil, "FuncInfo construction", 0, "no store into the computed fields of FuncInfo found")
	}
}

// ruleWrapperRecvKeepsPayload (C12): a receiver that wraps another receiver
// (the lenient header framing around the strict one) hands on the payload it
// was given on every path: the inner receiver deliberately returns the decoded
// record together with a content-type error, for the caller to judge.
func ruleWrapperRecvKeepsPayload(c *chk.Ctx) {
	n := 0
	for _, f := range chanMethods(c, "Recv") {
		var inner *ssa.Call
		ir.Instrs(f, func(ins ssa.Instruction) {
			call, ok := ins.(*ssa.Call)
			if !ok {
				return
			}
			cc := &call.Call
			if (cc.IsInvoke() && cc.Method.Name() == "Recv") || (cc.StaticCallee() != nil && ir.BaseName(cc.StaticCallee()) == "Recv" && cc.StaticCallee() != f) {
				inner = call
			}
		})
		if inner == nil {
			continue
		}
		n++
		bad := ""
		// (the results may pass through a private filter function: its parameter is the record)
		for _, r := range effectiveReturns(c, f, 0) {
			if len(r.Results) != 2 || (r.Parent() == f && !ir.InstrDominates(inner, r)) {
				continue
			}
			v := ir.ReturnResult(r, 0)
			if !ir.IsExtractOf(ir.NormCell(v), inner, 0) && !ir.IsExtractOf(c.P.Canon(v), inner, 0) {
				bad = c.P.Pos(r.Pos())
			}
		}
		c.Check(bad == "", "TABLE.ctype", f, "wrapping receiver hands on the payload", inner.Pos(), "every return after the inner Recv yields the inner Recv's record", "the wrapping receiver returns something other than the record it received (at "+bad+"): a frame whose content type does not match would be consumed from the stream and its payload lost, although the mismatch is reported together with the payload")
	}
	if n == 0 {
		c.Pass("TABLE.ctype", nil, "wrapping receiver hands on the payload", 0, "no Recv wraps another Recv")
	}
}

// ruleReadLinePrefixUsed (C12): bufio.Reader.ReadLine hands a long line back in
// pieces and says so through its isPrefix result; a caller that drops that
// result treats each piece as a line of its own (a long unknown header field
// would be split, and its tail parsed as further header fields).
func ruleReadLinePrefixUsed(c *chk.Ctx) {
	for _, f := range pkgFuncs(c, c.M.ChanPkg) {
		ir.Instrs(f, func(ins ssa.Instruction) {
			call, ok := ins.(*ssa.Call)
			if !ok || !ir.IsCallTo(&call.Call, "(*bufio.Reader).ReadLine") {
				return
			}
			used := false
			for _, r := range *call.Referrers() {
				if e, ok := r.(*ssa.Extract); ok && e.Index == 1 && len(*e.Referrers()) > 0 {
					used = true
				}
			}
			c.Check(used, "PAIR.hdrloop", f, "ReadLine's isPrefix is honoured", call.Pos(), "the isPrefix result is used", "bufio.Reader.ReadLine is called and its isPrefix result dropped: a header line longer than the reader's buffer arrives in pieces, each of which would be parsed as a header line of its own (a valid record refused, or a field smuggled in through a long value)")
		})
	}
}

// ruleInlineDecisionNotByIndex (C01): the decision "this is the last runnable
// task" compares the count of runnable tasks with something that also counts
// runnable tasks only. The position of a task in the batch counts failed
// members as well, so comparing the two ends the loop early whenever a failed
// member precedes two runnable ones.
func ruleInlineDecisionNotByIndex(c *chk.Ctx, d *dispatchModel) {
	loopFn := taskLoopFunc(c, d)
	if loopFn == nil || d.numToDo == nil {
		c.Undecided("PAIR.countdown", nil, "ruleInlineDecisionNotByIndex: anchor", 0, "the code this rule is anchored in was not found (loopFn == nil || d.numToDo == nil)")
		return
	}
	isCount := func(x ssa.Value) bool {
		if e, ok := x.(*ssa.Extract); ok {
			x = e.Tuple
		}
		call, ok := x.(*ssa.Call)
		return ok && call.Call.StaticCallee() == d.numToDo
	}
	fromCount := func(v ssa.Value) bool {
		// (count - 1, count + k: still the count)
		for i := 0; i < 3; i++ {
			bo, ok := v.(*ssa.BinOp)
			if !ok || (bo.Op != token.SUB && bo.Op != token.ADD) {
				break
			}
			if _, isC := ir.ConstInt(bo.Y); !isC {
				break
			}
			v = bo.X
		}
		for _, src := range c.P.SourcesStop(v, isCount) {
			if isCount(src) {
				return true
			}
		}
		return false
	}
	isIndex := func(v ssa.Value) bool {
		v = ir.NormCell(v)
		if phi, ok := v.(*ssa.Phi); ok && strings.Contains(phi.Comment, "rangeindex") {
			return true
		}
		if bo, ok := v.(*ssa.BinOp); ok && bo.Op == token.ADD {
			if phi, ok := bo.X.(*ssa.Phi); ok && strings.Contains(phi.Comment, "rangeindex") {
				return true
			}
		}
		return false
	}
	bad := ""
	c.P.ExtInstrs(loopFn, func(ins ssa.Instruction) {
		bo, ok := ins.(*ssa.BinOp)
		if !ok {
			return
		}
		switch bo.Op {
		case token.EQL, token.NEQ, token.LSS, token.LEQ, token.GTR, token.GEQ:
		default:
			return
		}
		for _, pr := range [][2]ssa.Value{{bo.X, bo.Y}, {bo.Y, bo.X}} {
			if fromCount(pr[0]) && isIndex(pr[1]) {
				bad = c.P.Pos(bo.Pos())
			}
		}
	})
	c.Check(bad == "", "PAIR.countdown", loopFn, "runnable count not compared with a batch position", loopFn.Pos(), "no comparison of the runnable-task count with the loop index", "the count of runnable tasks is compared with a task's position in the batch (at "+bad+"): positions count failed members too, so the loop would end before the last runnable task and the ones after it would never be invoked")
}

// ruleOptionsForwardedWhole (C17): an accessor that hands a whole options
// struct on to an inner server or client (the Getter's and the Bridge's
// ServerOptions / ClientOptions) returns the caller's struct itself (or nil).
// A rebuilt copy silently drops whatever field it does not mention — e.g.
// DisableBuiltin, and with it the rule that rpc.* names reach the assigner.
func ruleOptionsForwardedWhole(c *chk.Ctx) {
	n := 0
	for _, f := range optionAccessors(c, c.M.JhttpPkg, c.M.ServerPkg) {
		if f.Signature.Results().Len() != 1 {
			continue
		}
		pt, ok := f.Signature.Results().At(0).Type().(*types.Pointer)
		if !ok {
			continue
		}
		named, ok := pt.Elem().(*types.Named)
		if !ok || !strings.HasSuffix(named.Obj().Name(), "Options") || named.Obj().Pkg() != c.M.Pkg.Pkg {
			continue
		}
		n++
		bad := ""
		for _, r := range ir.Returns(f) {
			for _, src := range c.P.SourcesStop(ir.ReturnResult(r, 0), func(v ssa.Value) bool { _, isAl := v.(*ssa.Alloc); return isAl }) {
				al, isAl := src.(*ssa.Alloc)
				if !isAl {
					continue
				}
				// a rebuilt struct: which fields does it set, and from where?
				st := named.Underlying().(*types.Struct)
				set := map[*types.Var]bool{}
				// a whole-struct copy (cp := *o.Server) carries every field
				whole := false
				for _, ref := range *al.Referrers() {
					if s, ok := ref.(*ssa.Store); ok && s.Addr == ssa.Value(al) {
						if u, ok := s.Val.(*ssa.UnOp); ok && u.Op == token.MUL && types.Identical(u.Type(), named) {
							whole = true
						}
					}
				}
				if whole {
					continue
				}
				for _, ref := range *al.Referrers() {
					if fa, ok := ref.(*ssa.FieldAddr); ok {
						for _, r2 := range *fa.Referrers() {
							if s, ok := r2.(*ssa.Store); ok {
								// copied from the same field of the caller's struct?
								if u, ok := s.Val.(*ssa.UnOp); ok {
									if fa2, ok := u.X.(*ssa.FieldAddr); ok && ir.FieldVar(fa2) == ir.FieldVar(fa) {
										set[ir.FieldVar(fa)] = true
									}
								}
							}
						}
					}
				}
				var missing []string
				for i := 0; i < st.NumFields(); i++ {
					if !set[st.Field(i)] {
						missing = append(missing, st.Field(i).Name())
					}
				}
				if len(missing) > 0 {
					bad = fmt.Sprintf("a rebuilt %s that does not copy %s", named.Obj().Name(), strings.Join(missing, ", "))
				}
			}
		}
		c.Check(bad == "", "TABLE.default", f, "options handed on whole", f.Pos(), "the accessor returns the caller's options struct itself", "the accessor returns "+bad+": the inner server would run without those settings (e.g. with built-in rpc.* methods although DisableBuiltin was asked for)")
	}
	if n == 0 {
		c.Pass("TABLE.default", nil, "options handed on whole", 0, "no accessor forwards a ServerOptions/ClientOptions")
	}
}

// ruleNamesListEveryKey (C17): Names of the map assigners lists every key: in
// the loop over the map each key is appended unconditionally.
func ruleNamesListEveryKey(c *chk.Ctx) {
	n := 0
	for _, name := range []string{"(Map).Names", "(ServiceMap).Names"} {
		f := handlerFunc(c, name)
		if f == nil {
			continue
		}
		c.P.ExtInstrs(f, func(ins ssa.Instruction) {
			call, ok := ins.(*ssa.Call)
			if !ok {
				return
			}
			b, isB := call.Call.Value.(*ssa.Builtin)
			if !isB || b.Name() != "append" || !ir.InCycle(call.Block()) {
				return
			}
			n++
			var extra []string
			for _, cd := range ir.CondsAt(call.Block()) {
				if isLoopCond(cd) || isLenCond(cd) {
					continue
				}
				if e, isE := cd.V.(*ssa.Extract); isE {
					if _, isNext := e.Tuple.(*ssa.Next); isNext {
						continue
					}
				}
				if x, _, isNil := ir.NilCompare(cd.V); isNil {
					_ = x
					continue // a nil check of a nested assigner / its Namer
				}
				if e, isE := cd.V.(*ssa.Extract); isE {
					if _, isTA := e.Tuple.(*ssa.TypeAssert); isTA {
						continue // "is this assigner a Namer?"
					}
				}
				extra = append(extra, describeGateCond(c, cd))
			}
			c.Check(len(extra) == 0, "TABLE.sorted", f, "every key is listed", call.Pos(), "keys are appended unconditionally", "Names skips keys under ["+strings.Join(extra, "∧")+"]: a method the map dispatches (e.g. an rpc.* name on a server with DisableBuiltin) would be missing from the listing and from rpc.serverInfo")
		})
	}
	if n == 0 {
		c.Pass("TABLE.sorted", nil, "every key is listed", 0, "the Names methods collect keys without a hand-written loop")
	}
}

// ruleNoReorderingOfMessages (C01, C04): the lists that carry the members of a
// batch from parse to reply — messages, tasks, responses — are never sorted,
// reversed or otherwise permuted: the reply lists its members in request order
// and response i of a Batch belongs to spec i only because every stage keeps
// the order it was given.
func ruleNoReorderingOfMessages(c *chk.Ctx) {
	ordered := func(t types.Type) bool {
		sl, ok := t.Underlying().(*types.Slice)
		if !ok {
			return false
		}
		el := sl.Elem()
		if p, isP := el.(*types.Pointer); isP {
			el = p.Elem()
		}
		n, isN := types.Unalias(el).(*types.Named)
		if !isN {
			return false
		}
		return n == c.M.Task || n == c.M.Jmessage || n == c.M.Response
	}
	bad := ""
	for _, f := range pkgFuncs(c, c.M.Pkg) {
		ir.Calls(f, func(ci ssa.CallInstruction) {
			g := ci.Common().StaticCallee()
			if g == nil || g.Pkg == nil {
				return
			}
			path := g.Pkg.Pkg.Path()
			if o := g.Origin(); o != nil && o.Pkg != nil {
				path = o.Pkg.Pkg.Path()
			}
			if path != "sort" && path != "slices" {
				return
			}
			name := g.Name()
			if o := g.Origin(); o != nil {
				name = o.Name()
			}
			if path == "slices" && !(strings.HasPrefix(name, "Sort") || name == "Reverse") {
				return
			}
			for _, a := range ci.Common().Args {
				if mi, ok := a.(*ssa.MakeInterface); ok {
					a = mi.X
				}
				if ordered(a.Type()) {
					bad = path + "." + name + " at " + c.P.Pos(ci.Pos())
				}
			}
		})
	}
	c.Check(bad == "", "PROV.order", nil, "batch members are never reordered", 0, "no sort or reverse of a message, task or response list", "a list of batch members is permuted ("+bad+"): the reply would no longer list its members in request order (and a batch's responses would no longer line up with its specs)")
}

// ruleSlotWaitErrorReturnedAsIs (C06): when the wait for an execution slot
// fails (the request was cancelled or timed out while waiting), the invoke
// function hands that very error back: the response builder classifies it by
// errors.Is, so a reformatted text would be answered as a system error instead
// of a cancellation.
func ruleSlotWaitErrorReturnedAsIs(c *chk.Ctx, d *dispatchModel) {
	f := d.invoke
	ops := semOps(c)
	if ops == nil {
		c.Undecided("PAIR.sem", nil, "ruleSlotWaitErrorReturnedAsIs: anchor", 0, "the code this rule is anchored in was not found (ops == nil)")
		return
	}
	var acq *ssa.Call
	ir.Instrs(f, func(ins ssa.Instruction) {
		if call, ok := ins.(*ssa.Call); ok {
			if _, isAcq := ops["Acquire"][call]; isAcq {
				acq = call
			}
		}
	})
	if acq == nil {
		c.Undecided("PAIR.sem", nil, "ruleSlotWaitErrorReturnedAsIs: anchor", 0, "the code this rule is anchored in was not found (acq == nil)")
		return
	}
	sameErr := func(x ssa.Value) bool { return x == ssa.Value(acq) || ir.NormCell(x) == ssa.Value(acq) }
	n := 0
	bad := ""
	for _, r := range invokeOutcomes(c, d) {
		if r.at.Parent() != f || !ir.InstrDominates(acq, r.at) {
			continue
		}
		if !ir.ProvesNonNil(r.conds, func(x ssa.Value) bool { return r.as(x, sameErr) }) {
			continue
		}
		n++
		if r.err == nil || !sameErr(r.err) {
			bad = c.P.Pos(r.at.Pos())
		}
	}
	if n == 0 {
		c.Undecided("PAIR.sem", f, "slot-wait failure returned as is", acq.Pos(), "no return on the failure edge of Acquire found")
		return
	}
	c.Check(bad == "", "PAIR.sem", f, "slot-wait failure returned as is", acq.Pos(), "on the failure edge of Acquire the function returns Acquire's own error", "on the failure edge of Acquire the function returns a different error (at "+bad+"): the cancellation of a waiting request would be answered with a system error instead of a cancellation error")
}

// ruleRecvBufferNotRetained: a framing may hand out a buffer that is only
// valid until its next Recv (the header framings reuse one). The reading side
// must therefore be done with the bytes — decoded them — before it can call
// Recv again: the bytes a Recv returned are never given to a goroutine, a
// stored closure, or a field. (Decides only that the raw bytes stay inside the
// receiving call; that the decoder copies is encoding/json's contract.)
func ruleRecvBufferNotRetained(c *chk.Ctx, rule string) {
	n := 0
	for _, f := range pkgFuncs(c, c.M.Pkg) {
		var recvs []*ssa.Call
		ir.Instrs(f, func(ins ssa.Instruction) {
			if call, ok := ins.(*ssa.Call); ok && call.Call.IsInvoke() && call.Call.Method.Name() == "Recv" && call.Call.Signature().Results().Len() == 2 && call.Call.Signature().Results().At(0).Type().String() == "[]byte" {
				recvs = append(recvs, call)
			}
		})
		for _, rc := range recvs {
			n++
			derived := map[ssa.Value]bool{}
			cells := map[*ssa.Alloc]bool{}
			bad := ""
			var work []ssa.Value
			add := func(v ssa.Value) {
				if !derived[v] {
					derived[v] = true
					work = append(work, v)
				}
			}
			for _, ref := range *rc.Referrers() {
				if e, ok := ref.(*ssa.Extract); ok && e.Index == 0 {
					add(e)
				}
			}
			for len(work) > 0 {
				v := work[len(work)-1]
				work = work[:len(work)-1]
				refs := v.Referrers()
				if refs == nil {
					continue
				}
				for _, ref := range *refs {
					switch x := ref.(type) {
					case *ssa.Phi, *ssa.ChangeType, *ssa.Slice, *ssa.MakeInterface:
						add(x.(ssa.Value))
					case *ssa.Convert:
						if _, isStr := x.Type().Underlying().(*types.Basic); !isStr {
							add(x)
						}
					case *ssa.Store:
						if x.Val != v {
							continue
						}
						if al, ok := x.Addr.(*ssa.Alloc); ok {
							if !cells[al] {
								cells[al] = true
								for _, r2 := range *al.Referrers() {
									switch y := r2.(type) {
									case *ssa.UnOp:
										add(y)
									case *ssa.MakeClosure:
										// a variable holding the bytes is shared with a function literal:
										// only one run before the receiving call returns (a defer) is in time
										deferred := true
										for _, r3 := range *y.Referrers() {
											if _, isDefer := r3.(*ssa.Defer); !isDefer {
												deferred = false
											}
										}
										if !deferred {
											bad = c.P.Pos(y.Fn.Pos())
										}
									}
								}
							}
						} else {
							bad = c.P.Pos(x.Pos())
						}
					case *ssa.Go:
						bad = c.P.Pos(x.Pos())
					case *ssa.MakeClosure:
						bad = c.P.Pos(x.Pos())
					case *ssa.Send:
						bad = c.P.Pos(x.Pos())
					}
				}
			}
			c.Check(bad == "", rule, f, "received bytes stay inside the receiving call", rc.Pos(), "the bytes Recv returned are decoded in place: no goroutine, stored closure, field or channel gets them", "the bytes Recv returned are handed on (at "+bad+") and can be read after the next Recv has started: a framing that reuses its buffer would then deliver a later record's bytes in place of this one")
		}
	}
	if n < 2 {
		c.Undecided(rule, nil, "received bytes stay inside the receiving call", 0, "found %d Recv calls in the client and server readers (confirmed by hand: 2)", n)
	}
}
