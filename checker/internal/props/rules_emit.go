package props

import (
	"go/constant"
	"go/types"

	"golang.org/x/tools/go/ssa"

	"jrpcvet/internal/chk"
	"jrpcvet/internal/ir"
)

// An emit is one piece of output produced by an encoder function: a write into
// a bytes.Buffer / strings.Builder, or an append onto a byte slice, performed
// by the function itself or by a private helper it calls (a writer type's
// method). at is the instruction inside the encoder through which the piece is
// produced (the write itself, or the call of the helper); arg is what is
// written, with a helper's parameters replaced by the arguments of the call.
type emit struct {
	at    ssa.Instruction
	inner ssa.Instruction
	arg   ssa.Value
	chain []ssa.Instruction // the sites from the encoder down to the write
}

// conds returns the branch outcomes known along the whole chain of sites.
func (e emit) conds() []ir.Cond {
	var out []ir.Cond
	for _, s := range e.chain {
		out = append(out, ir.CondsAt(s.Block())...)
	}
	return out
}

func isByteSlice(t types.Type) bool {
	sl, ok := t.Underlying().(*types.Slice)
	if !ok {
		return false
	}
	b, ok := sl.Elem().Underlying().(*types.Basic)
	return ok && b.Kind() == types.Byte
}

// appendedPayload: for `append(acc, x...)` / `append(acc, 'c')` onto a byte
// slice, the value appended (a constant for literal bytes and for string or
// []byte("...") constants).
func appendedPayload(call *ssa.Call) (ssa.Value, bool) {
	b, isB := call.Call.Value.(*ssa.Builtin)
	if !isB || b.Name() != "append" || len(call.Call.Args) != 2 || !isByteSlice(call.Type()) {
		return nil, false
	}
	v := call.Call.Args[1]
	switch x := v.(type) {
	case *ssa.Convert:
		if k, ok := x.X.(*ssa.Const); ok {
			return k, true
		}
	case *ssa.Slice:
		// literal elements: a fresh array whose stores are constants
		if al, ok := x.X.(*ssa.Alloc); ok {
			var k *ssa.Const
			allConst := true
			for _, r := range *al.Referrers() {
				if ia, ok := r.(*ssa.IndexAddr); ok {
					for _, r2 := range *ia.Referrers() {
						if st, ok := r2.(*ssa.Store); ok {
							if kc, isK := st.Val.(*ssa.Const); isK {
								k = kc
							} else {
								allConst = false
							}
						}
					}
				}
			}
			if allConst && k != nil {
				return k, true
			}
		}
	}
	return v, true
}

// formattedPieces: for fmt.Appendf(dst, format, args...) / fmt.Fprintf(w, format, args...)
// with a constant format made of literal text and plain %s / %v verbs only, the
// pieces written, in order: the literal chunks (as constants) and the operands.
func formattedPieces(cc *ssa.CallCommon) ([]ssa.Value, bool) {
	if !ir.IsCallTo(cc, "fmt.Appendf", "fmt.Fprintf") || len(cc.Args) != 3 {
		return nil, false
	}
	format, ok := constString(cc.Args[1])
	if !ok {
		return nil, false
	}
	// the operands: a fresh array filled with interface conversions
	var ops []ssa.Value
	if sl, isSl := cc.Args[2].(*ssa.Slice); isSl {
		al, isAl := sl.X.(*ssa.Alloc)
		if !isAl {
			return nil, false
		}
		byIdx := map[int64]ssa.Value{}
		for _, r := range *al.Referrers() {
			ia, isIA := r.(*ssa.IndexAddr)
			if !isIA {
				continue
			}
			k, isK := ir.ConstInt(ia.Index)
			if !isK {
				return nil, false
			}
			for _, r2 := range *ia.Referrers() {
				if st, isSt := r2.(*ssa.Store); isSt {
					v := st.Val
					if mi, isMI := v.(*ssa.MakeInterface); isMI {
						v = mi.X
					}
					byIdx[k] = v
				}
			}
		}
		for i := int64(0); i < int64(len(byIdx)); i++ {
			v, has := byIdx[i]
			if !has {
				return nil, false
			}
			ops = append(ops, v)
		}
	} else if k, isK := cc.Args[2].(*ssa.Const); !isK || !k.IsNil() {
		return nil, false
	}
	var out []ssa.Value
	lit := ""
	flush := func() {
		if lit != "" {
			out = append(out, ssa.NewConst(constant.MakeString(lit), types.Typ[types.String]))
			lit = ""
		}
	}
	next := 0
	for i := 0; i < len(format); i++ {
		if format[i] != '%' {
			lit += string(format[i])
			continue
		}
		if i+1 >= len(format) {
			return nil, false
		}
		i++
		switch format[i] {
		case '%':
			lit += "%"
		case 's', 'v':
			if next >= len(ops) {
				return nil, false
			}
			// %s writes a string or byte slice as it is; %v does so for a string only
			if b, isB := ops[next].Type().Underlying().(*types.Basic); !(isB && b.Info()&types.IsString != 0) && !(format[i] == 's' && isByteSlice(ops[next].Type())) {
				return nil, false
			}
			flush()
			out = append(out, ops[next])
			next++
		default:
			return nil, false // a verb that reformats its operand
		}
	}
	flush()
	if next != len(ops) {
		return nil, false
	}
	return out, true
}

// emitsOf lists the pieces of output of f (see emit), looking through private
// helpers up to two levels deep. encs are the encoder functions themselves:
// calls to them produce checked results, not pieces.
func emitsOf(c *chk.Ctx, f *ssa.Function, encs map[*ssa.Function]bool) []emit {
	return emitsRec(c, f, encs, 0)
}

func emitsRec(c *chk.Ctx, f *ssa.Function, encs map[*ssa.Function]bool, depth int) []emit {
	var out []emit
	ir.Instrs(f, func(ins ssa.Instruction) {
		ci, ok := ins.(ssa.CallInstruction)
		if !ok {
			return
		}
		cc := ci.Common()
		if isBufferWrite(cc) && len(cc.Args) >= 2 {
			out = append(out, emit{at: ins, inner: ins, arg: cc.Args[1], chain: []ssa.Instruction{ins}})
			return
		}
		if call, isCall := ins.(*ssa.Call); isCall {
			if v, ok := appendedPayload(call); ok {
				out = append(out, emit{at: ins, inner: ins, arg: v, chain: []ssa.Instruction{ins}})
				return
			}
		}
		if parts, ok := formattedPieces(cc); ok {
			for _, v := range parts {
				out = append(out, emit{at: ins, inner: ins, arg: v, chain: []ssa.Instruction{ins}})
			}
			return
		}
		h := cc.StaticCallee()
		if h == nil || !c.P.InRepo[h] || encs[h] || h == f || depth >= 2 || len(h.Blocks) == 0 {
			return
		}
		for _, e := range emitsRec(c, h, encs, depth+1) {
			arg := e.arg
			base := arg
			if ct, isCT := base.(*ssa.ChangeType); isCT {
				base = ct.X
			}
			if cv, isCV := base.(*ssa.Convert); isCV {
				base = cv.X
			}
			if par, isPar := base.(*ssa.Parameter); isPar && par.Parent() == h {
				for i, q := range h.Params {
					if q == par && i < len(cc.Args) {
						arg = cc.Args[i]
					}
				}
			}
			out = append(out, emit{at: ins, inner: e.inner, arg: arg, chain: append([]ssa.Instruction{ins}, e.chain...)})
		}
	})
	return out
}
