package props

import (
	"fmt"
	"go/token"
	"go/types"
	"strings"

	"golang.org/x/tools/go/ssa"

	"jrpcvet/internal/chk"
	"jrpcvet/internal/facts"
	"jrpcvet/internal/ir"
)

// ruleLockField: every access to the given owner fields happens under the
// owner's lock, except in constructors (fresh owner) and after a Wait on the
// owner's lifetime WaitGroup in the same function.
func ruleLockField(c *chk.Ctx, owner string, fields ...*types.Var) {
	lock := ownerLock(c, owner)
	want := map[*types.Var]bool{}
	for _, f := range fields {
		want[f] = true
	}
	lifetime := chk.PathOfVar(c.M.Server, c.M.SWg).String()
	if owner == "client" {
		lifetime = chk.PathOfVar(c.M.Client, c.M.CDone).String()
	}
	n := 0
	for _, f := range pkgFuncs(c, c.M.Pkg) {
		c.F.Walk(f, func(ins ssa.Instruction, st facts.State) {
			fa, ok := ins.(*ssa.FieldAddr)
			if !ok || !want[ir.FieldVar(fa)] {
				return
			}
			// the field is declared by the owner, or by the helper type it was found in
			if o := ir.FieldOwner(fa); o != ownerType(c, owner) && (o == nil || chk.PathOfVar(ownerType(c, owner), ir.FieldVar(fa)).Owner != o.Obj()) {
				return
			}
			n++
			name := owner + " field " + ir.FieldVar(fa).Name()
			if st.Has(facts.Held, lock) {
				c.Pass("LOCK.field", f, name, fa.Pos(), "accessed with %s held", lock)
				return
			}
			// (or a private helper called from the constructor only, on the value being built)
			fresh := freshOwner(c, fa.X)
			if fresh {
				c.Exists("LOCK.field", f, name, fa.Pos(), "constructor: the owner is freshly allocated and has not escaped")
				return
			}
			// after a lifetime Wait in the same function
			after := false
			ir.Instrs(f, func(i2 ssa.Instruction) {
				if call, ok := i2.(*ssa.Call); ok {
					if id, ok := wgCall(call, "Wait"); ok && id == lifetime && ir.InstrDominates(call, fa) {
						after = true
					}
				}
			})
			if after {
				c.Pass("LOCK.field", f, name, fa.Pos(), "read after %s.Wait(): every writer goroutine has exited", lifetime)
				return
			}
			// an accessor method of a helper type (`isEmpty`, `len`): judged at each of its call
			// sites — the lock held there, or the call made after the lifetime Wait
			var sitesOK func(g *ssa.Function, depth int) bool
			sitesOK = func(g *ssa.Function, depth int) bool {
				if depth > 2 || g.Parent() != nil || ir.Exported(g) || c.P.UsedAsValue(g) {
					return false
				}
				sites := c.P.Callers(g)
				if len(sites) == 0 {
					return false
				}
				for _, s := range sites {
					if _, isCall := s.Instr.(*ssa.Call); !isCall {
						return false
					}
					if c.F.At(s.Instr).Has(facts.Held, lock) {
						continue
					}
					waited := false
					ir.Instrs(s.Caller, func(i2 ssa.Instruction) {
						if call, ok := i2.(*ssa.Call); ok {
							if id, ok := wgCall(call, "Wait"); ok && id == lifetime && ir.InstrDominates(call, s.Instr) {
								waited = true
							}
						}
					})
					if waited || sitesOK(s.Caller, depth+1) {
						continue
					}
					return false
				}
				return true
			}
			if sitesOK(f, 0) {
				c.Pass("LOCK.field", f, name, fa.Pos(), "accessor of a helper type: at every call site %s is held or %s.Wait() has returned", lock, lifetime)
				return
			}
			c.Fail("LOCK.field", f, name, fa.Pos(), "%s.%s is accessed without %s held%s", ownerType(c, owner).Obj().Name(), ir.FieldVar(fa).Name(), lock, describeEntry(c, f, lock))
		})
	}
	if n == 0 {
		c.Undecided("LOCK.field", nil, owner+" fields", 0, "no access found")
	}
}

func isDeleteOn(ins ssa.Instruction, f *types.Var) (*ssa.Call, bool) {
	call, ok := ins.(*ssa.Call)
	if !ok {
		return nil, false
	}
	b, isB := call.Call.Value.(*ssa.Builtin)
	if !isB || b.Name() != "delete" || len(call.Call.Args) != 2 {
		return nil, false
	}
	return call, chk.LoadsField(call.Call.Args[0], f)
}

// isClearOn: ins is clear(m) for the map field f (removes every entry).
func isClearOn(ins ssa.Instruction, f *types.Var) (*ssa.Call, bool) {
	call, ok := ins.(*ssa.Call)
	if !ok {
		return nil, false
	}
	// maps.DeleteFunc(m, func(k, v) bool { …; return true }) removes every entry as well
	if strings.HasPrefix(ir.CalleeName(&call.Call), "maps.DeleteFunc") && len(call.Call.Args) == 2 && chk.LoadsField(call.Call.Args[0], f) {
		var yf *ssa.Function
		switch y := call.Call.Args[1].(type) {
		case *ssa.MakeClosure:
			yf = y.Fn.(*ssa.Function)
		case *ssa.Function:
			yf = y
		}
		if yf != nil {
			all := true
			for _, r := range ir.Returns(yf) {
				if k, isK := ir.ReturnResult(r, 0).(*ssa.Const); !isK || k.Value == nil || k.Value.String() != "true" {
					all = false
				}
			}
			if all {
				return call, true
			}
		}
	}
	b, isB := call.Call.Value.(*ssa.Builtin)
	if !isB || b.Name() != "clear" || len(call.Call.Args) != 1 {
		return nil, false
	}
	return call, chk.LoadsField(call.Call.Args[0], f)
}

// entriesAvoiding walks callers of f upward and returns the entry functions
// (exported / goroutine roots / unknown callers) from which f is reachable
// without passing through one of the `through` functions.
func entriesAvoiding(c *chk.Ctx, f *ssa.Function, through map[*ssa.Function]bool) []string {
	var out []string
	seen := map[*ssa.Function]bool{}
	var walk func(g *ssa.Function)
	walk = func(g *ssa.Function) {
		if seen[g] {
			return
		}
		seen[g] = true
		for p := g; p != nil; p = p.Parent() {
			if through[p] {
				return
			}
		}
		for t := range through {
			if t != nil && c.P.InExt(t, g) {
				return
			}
		}
		sites := c.P.Callers(g)
		if len(sites) == 0 && g.Parent() != nil {
			// a closure handed to a synchronous callback taker runs where it is created
			walk(g.Parent())
			return
		}
		if len(sites) == 0 || ir.Exported(g) || (c.P.UsedAsValue(g) && len(sites) == 0) {
			out = append(out, ir.Name(g))
		}
		for _, s := range sites {
			if _, isGo := s.Instr.(*ssa.Go); isGo {
				out = append(out, "go "+ir.Name(g))
				continue
			}
			walk(s.Caller)
		}
	}
	walk(f)
	return out
}

// ruleUsedTable: C07.
func ruleUsedTable(c *chk.Ctx, d *dispatchModel) {
	stop := stopFunc(c, "server")
	used := c.M.SUsed
	// D1: stores only in the context-attach function
	nStores := 0
	for _, f := range pkgFuncs(c, c.M.Pkg) {
		ir.Instrs(f, func(ins ssa.Instruction) {
			if mu, ok := ins.(*ssa.MapUpdate); ok && chk.LoadsField(mu.Map, used) {
				nStores++
				c.Check(f == d.setContext, "WHO.used", f, "reservation site", mu.Pos(), "ids are reserved only in the context-attach function", "an id is reserved outside the context-attach function")
			}
		})
	}
	c.Check(nStores == 1, "WHO.used", d.setContext, "one reservation site", 0, "exactly one store into the in-flight table", fmt.Sprintf("%d stores into the in-flight table", nStores))

	// D2: reservation only for tasks that passed validation; lookups precede reservations.
	// The reservation site is the store into the table; it may sit in the check/assign
	// function itself or in a private helper it calls.
	var resSite *ssa.MapUpdate
	ir.Instrs(d.setContext, func(ins ssa.Instruction) {
		if mu, ok := ins.(*ssa.MapUpdate); ok && chk.LoadsField(mu.Map, used) {
			resSite = mu
		}
	})
	if resSite == nil || !c.P.InExt(d.checkAssign, d.setContext) {
		c.Fail("PAIR.reserve", d.checkAssign, "reservation site", d.checkAssign.Pos(), "the reservation is not made by the check/assign function or a private helper of it")
	} else {
		guarded := c.P.AllContexts(resSite, func(f *ssa.Function) bool { return f == d.checkAssign }, func(cs []ir.Cond) bool {
			for _, cd := range cs {
				if known, isNil := isErrNilOfTask(c, cd, nil); known && isNil {
					return true
				}
			}
			return false
		})
		c.Check(guarded, "PAIR.reserve", d.checkAssign, "reserve only valid tasks", resSite.Pos(), "the reservation is reached only on the err == nil edge of the task (duplicates and invalid members never overwrite an entry)",
			"the reservation is not governed by err == nil of the task: a rejected duplicate would overwrite (and later release) its predecessor's entry")
		// duplicate detection: a lookup in the table whose hit edge stores an error into the task
		var lookup *ssa.Lookup
		// (the table may be read through an alias: a field of a per-batch helper value that is
		// only ever given the server's table)
		isUsedTable := func(v ssa.Value) bool {
			if chk.LoadsField(v, used) {
				return true
			}
			if _, isMap := v.Type().Underlying().(*types.Map); !isMap {
				return false
			}
			srcs := c.P.SourcesStop(v, func(x ssa.Value) bool { return chk.LoadsField(x, used) })
			for _, src := range srcs {
				if !chk.LoadsField(src, used) {
					return false
				}
			}
			return len(srcs) > 0
		}
		c.P.ExtInstrs(d.checkAssign, func(ins ssa.Instruction) {
			if lk, ok := ins.(*ssa.Lookup); ok && isUsedTable(lk.X) {
				lookup = lk
			}
		})
		if lookup == nil {
			c.Fail("PAIR.reserve", d.checkAssign, "duplicate detection", d.checkAssign.Pos(), "no lookup of the request id in the in-flight table before reserving")
		} else {
			hitStores := false
			c.P.ExtInstrs(d.checkAssign, func(ins ssa.Instruction) {
				st, ok := ins.(*ssa.Store)
				if !ok {
					return
				}
				fa, ok := st.Addr.(*ssa.FieldAddr)
				if !ok || ir.FieldVar(fa) != c.M.TErr {
					return
				}
				conds := c.P.CondsWithin(st, d.checkAssign)
				// (the look-up may sit in a one-line predicate of a table type: "is id reserved?")
				if alts := expandPredicateHelpers(c, conds, 0); len(alts) == 1 {
					conds = alts[0]
				}
				for _, cd := range conds {
					if x, eq, ok := ir.NilCompare(cd.V); ok && x == ssa.Value(lookup) && eq != cd.Truth {
						hitStores = true
					}
					if e, ok := cd.V.(*ssa.Extract); ok && e.Tuple == ssa.Value(lookup) && e.Index == 1 && cd.Truth {
						hitStores = true
					}
				}
			})
			// two phases: inside the smallest region holding both, no path leads from (the anchor
			// of) a reservation to (the anchor of) a lookup
			back := false
			if common := c.P.RegionRoot(lookup.Parent(), resSite.Parent()); common != nil {
				for _, ra := range anchorsIn(c, resSite, common) {
					for _, la := range anchorsIn(c, lookup, common) {
						if ok, _ := ir.Reaches(ra, func(i ssa.Instruction) bool { return i == la }, nil); ok || ra == la {
							back = true
						}
					}
				}
			} else {
				back = true
			}
			c.Check(hitStores && !back, "PAIR.reserve", d.checkAssign, "duplicate detection precedes reservation", lookup.Pos(), "a hit in the in-flight table fails the task, and every lookup of a batch happens before its first reservation (two phases)",
				fmt.Sprintf("duplicate detection is incomplete (hit stores error=%v, a reservation can precede a later lookup=%v)", hitStores, back))
		}
	}

	// the ids of one batch are looked up and reserved in one critical section: the check/assign
	// function never lets go of the server lock (a stop that lands between two reservations
	// would cancel the first and leave the second reserved, and running, on a stopped server)
	if fi := c.F.Funcs[d.checkAssign]; fi != nil {
		lock := ownerLock(c, "server")
		c.Check(!fi.Sum.Touches[lock], "PAIR.reserve", d.checkAssign, "one critical section for the whole batch", d.checkAssign.Pos(), "nothing reachable from the check/assign function locks or unlocks "+lock.String(), "the check/assign function (or something it calls) releases "+lock.String()+" between the reservations of a batch's members: a stop or a cancellation landing there sees only part of the batch — the rest is reserved afterwards, is never cancelled when the server stops, and its ids stay reserved")
	} else {
		c.Undecided("PAIR.reserve", d.checkAssign, "one critical section for the whole batch", d.checkAssign.Pos(), "no lock summary for the check/assign function")
	}

	// D3: reserve ⇒ release at reply. Extract the "not executed" predicate and the delivery guard.
	ruleReserveRelease(c, d)

	// D4: deletes only with the reply or at stop
	through := map[*ssa.Function]bool{d.deliver: true}
	if stop != nil {
		through[stop] = true
	}
	nDel := 0
	for _, f := range pkgFuncs(c, c.M.Pkg) {
		ir.Instrs(f, func(ins ssa.Instruction) {
			call, ok := isDeleteOn(ins, used)
			if !ok {
				call, ok = isClearOn(ins, used)
			}
			if !ok {
				return
			}
			nDel++
			ents := entriesAvoiding(c, f, through)
			c.Check(len(ents) == 0, "WHO.used", f, "release site", call.Pos(), "ids are released only on the way through the delivery function or the stop function",
				"an id can be released from "+strings.Join(ents, ", ")+" — neither with the reply nor at stop: the id of a running call could be accepted again, and the first call's reply would then cancel the second")
		})
	}
	if nDel == 0 {
		c.Fail("WHO.used", nil, "release site", 0, "ids are never released")
	}
	c.Floor("WHO.used", 3, "reservation site, count, ≥1 release site")
}

func ruleReserveRelease(c *chk.Ctx, d *dispatchModel) {
	// 1. the marker store in the response builder: Store to jmessage.err governed by task.X == nil
	var X *types.Var
	var markPos token.Pos
	c.P.ExtInstrs(d.responses, func(ins ssa.Instruction) {
		st, ok := ins.(*ssa.Store)
		if !ok || !chk.IsField(st.Addr, c.M.JErr) {
			return
		}
		for _, cd := range ir.CondsAt(st.Block()) {
			if x, eq, ok := ir.NilCompare(cd.V); ok && eq == cd.Truth {
				if _, fv, ok := taskFieldLoad(c, x); ok {
					X = fv
					markPos = st.Pos()
				}
			}
		}
		// the mark may have been chosen into a local on an earlier branch and be stored with the
		// other members: the way that yields a mark gives the predicate
		if _, isPhi := st.Val.(*ssa.Phi); isPhi && X == nil {
			for _, w := range storedWays(c, st, d.responses) {
				if ir.IsNilConst(w.val) {
					continue
				}
				for _, cd := range w.conds {
					if x, eq, ok := ir.NilCompare(cd.V); ok && eq == cd.Truth {
						if _, fv, ok := taskFieldLoad(c, x); ok {
							X = fv
							markPos = st.Pos()
						}
					}
				}
			}
		}
	})
	// or, instead of marking the responses that were never executed, the builder lists the ids
	// of those that were: an append of the response's id to a list that travels with the
	// messages (a field of the builder's result), governed by task.X != nil
	listField := -1
	if X == nil {
		c.P.ExtInstrs(d.responses, func(ins ssa.Instruction) {
			call, ok := ins.(*ssa.Call)
			if !ok {
				return
			}
			b, isB := call.Call.Value.(*ssa.Builtin)
			if !isB || b.Name() != "append" || len(call.Call.Args) != 2 {
				return
			}
			sl, isSl := call.Type().Underlying().(*types.Slice)
			if !isSl || sl.Elem().String() != "string" {
				return
			}
			// the element is the id of a response
			isID := false
			els, _ := c.P.ElementValues(call.Call.Args[1])
			for _, e := range els {
				if cv, isCv := e.(*ssa.Convert); isCv && chk.LoadsField(cv.X, c.M.JID) {
					isID = true
				}
			}
			if !isID {
				return
			}
			// kept in a field of the result
			fld := -1
			for _, ref := range *call.Referrers() {
				if st, isSt := ref.(*ssa.Store); isSt && st.Val == ssa.Value(call) {
					if fa, isFA := st.Addr.(*ssa.FieldAddr); isFA && types.Identical(ir.FieldOwnerType(fa), d.responses.Signature.Results().At(0).Type()) {
						fld = fa.Field
					}
				}
			}
			if fld < 0 {
				return
			}
			for _, cd := range ir.CondsAt(call.Block()) {
				if x, eq, ok := ir.NilCompare(cd.V); ok && eq != cd.Truth {
					if _, fv, ok := taskFieldLoad(c, x); ok {
						X, markPos, listField = fv, call.Pos(), fld
					}
				}
			}
		})
	}
	if X == nil {
		c.Undecided("PAIR.release", d.responses, "not-executed mark", d.responses.Pos(), "cannot extract the predicate under which a response is marked not executed")
		return
	}
	// 2. delivery releases exactly the unmarked ones: the call that removes the id (directly, or
	// the innermost call of a function that does), reached from the delivery function possibly
	// through private helpers, is governed by rsp.err == nil
	var deletes func(g *ssa.Function, depth int) bool
	deletes = func(g *ssa.Function, depth int) bool {
		if g == nil || depth > 3 || !c.P.InRepo[g] {
			return false
		}
		found := false
		ir.Instrs(g, func(i2 ssa.Instruction) {
			if _, ok := isDeleteOn(i2, c.M.SUsed); ok {
				found = true
			}
			// through a method of a table type
			if ci, ok := i2.(ssa.CallInstruction); ok && !found {
				if h := ci.Common().StaticCallee(); h != nil && h != g && deletes(h, depth+1) {
					found = true
				}
			}
		})
		return found
	}
	var rel ssa.Instruction
	for _, g := range c.P.Ext(d.deliver) {
		ir.Instrs(g, func(ins ssa.Instruction) {
			if call, ok := isDeleteOn(ins, c.M.SUsed); ok {
				rel = call
			}
			if ci, ok := ins.(ssa.CallInstruction); ok {
				for _, h := range calleesOf(c, ci) {
					if deletes(h, 0) && !c.P.InExt(d.deliver, h) {
						rel = ci
					}
				}
			}
		})
	}
	if rel == nil {
		c.Fail("PAIR.release", d.deliver, "release with the reply", d.deliver.Pos(), "the delivery function does not release the ids of the responses it sends")
		return
	}
	okGov := c.P.AllContexts(rel, func(f *ssa.Function) bool { return f == d.deliver }, func(cs []ir.Cond) bool {
		var kinds []string
		for _, cd := range cs {
			if isLoopCond(cd) || isLenCond(cd) {
				continue
			}
			if x, eq, ok := ir.NilCompare(cd.V); ok && chk.LoadsField(x, c.M.JErr) {
				if eq == cd.Truth {
					kinds = append(kinds, "mark==nil")
				} else {
					kinds = append(kinds, "mark!=nil")
				}
				continue
			}
			if x, _, ok := ir.NilCompare(cd.V); ok {
				if _, isParam := ir.NormCell(x).(*ssa.Parameter); isParam {
					continue // nil check of the sender (after the release)
				}
			}
			kinds = append(kinds, "other")
		}
		if listField >= 0 {
			return len(kinds) == 0 // every listed id is released
		}
		return len(kinds) == 1 && kinds[0] == "mark==nil"
	})
	if listField >= 0 && okGov {
		// the id released is an element of that very list
		fromList := false
		if ci, isCI := rel.(ssa.CallInstruction); isCI {
			for _, a := range ci.Common().Args {
				u, isU := c.P.Canon(a).(*ssa.UnOp)
				if !isU {
					continue
				}
				ia, isIA := u.X.(*ssa.IndexAddr)
				if !isIA {
					continue
				}
				if lu, isLU := ir.NormCell(ia.X).(*ssa.UnOp); isLU {
					if fa, isFA := lu.X.(*ssa.FieldAddr); isFA && fa.Field == listField && types.Identical(ir.FieldOwnerType(fa), d.responses.Signature.Results().At(0).Type()) {
						fromList = true
					}
				}
				if fl, isFl := ir.NormCell(ia.X).(*ssa.Field); isFl && fl.Field == listField && types.Identical(fl.X.Type(), d.responses.Signature.Results().At(0).Type()) {
					fromList = true
				}
			}
		}
		okGov = fromList
	}
	if !okGov && listField < 0 {
		// the ids to release may first be collected into a local list (outside the lock) and
		// released in a second loop: then every append to that list is governed by the mark, the
		// element appended is a response's id, and the second loop releases every element
		kindsOf := func(cs []ir.Cond) []string {
			var kinds []string
			for _, cd := range cs {
				if isLoopCond(cd) || isLenCond(cd) {
					continue
				}
				if x, eq, ok := ir.NilCompare(cd.V); ok && chk.LoadsField(x, c.M.JErr) {
					if eq == cd.Truth {
						kinds = append(kinds, "mark==nil")
					} else {
						kinds = append(kinds, "mark!=nil")
					}
					continue
				}
				if x, _, ok := ir.NilCompare(cd.V); ok {
					if _, isParam := ir.NormCell(x).(*ssa.Parameter); isParam {
						continue
					}
				}
				kinds = append(kinds, "other")
			}
			return kinds
		}
		if ci, isCI := rel.(ssa.CallInstruction); isCI && len(kindsOf(ir.CondsAt(rel.Block()))) == 0 {
			for _, a := range ci.Common().Args {
				u, isU := c.P.Canon(a).(*ssa.UnOp)
				if !isU {
					continue
				}
				ia, isIA := u.X.(*ssa.IndexAddr)
				if !isIA {
					continue
				}
				if sl, isSl := ia.X.Type().Underlying().(*types.Slice); !isSl || sl.Elem().String() != "string" {
					continue
				}
				all, some := true, false
				for _, src := range c.P.Sources(ia.X) {
					if ir.IsNilConst(src) {
						continue
					}
					app, isCall := src.(*ssa.Call)
					b, isB := ssa.Value(nil), false
					if isCall {
						b, isB = app.Call.Value.(*ssa.Builtin)
					}
					if !isCall || !isB || b.Name() != "append" || len(app.Call.Args) != 2 {
						all = false
						continue
					}
					isID := false
					els, _ := c.P.ElementValues(app.Call.Args[1])
					for _, e := range els {
						if cv, isCv := e.(*ssa.Convert); isCv && chk.LoadsField(cv.X, c.M.JID) {
							isID = true
						}
					}
					ks := kindsOf(ir.CondsAt(app.Block()))
					if !isID || len(ks) != 1 || ks[0] != "mark==nil" {
						all = false
					}
					some = true
				}
				if all && some {
					okGov = true
				}
			}
		}
	}
	c.Check(okGov, "PAIR.release", rel.Parent(), "release governed by the executed mark", rel.Pos(), "the release runs exactly for responses not marked as never executed (a rejected duplicate cannot cancel its predecessor)",
		"the delivery-time release is not governed exactly by the executed mark")
	// the release loop visits every response: no early exit
	if hdr := loopHeaderOf(rel.Block()); hdr != nil {
		early := loopEarlyExits(hdr)
		c.Check(len(early) == 0, "PAIR.release", rel.Parent(), "release loop visits every response", rel.Pos(), "the loop that releases ids has no early exit", fmt.Sprintf("the loop that releases ids can be left early (%d exit edge(s) other than its end): later members of the batch would stay reserved forever", len(early)))
	} else {
		c.Undecided("PAIR.release", rel.Parent(), "release loop visits every response", rel.Pos(), "release is not inside a loop over the responses")
	}
	// release precedes/accompanies the send in one critical section
	// 3. obligation: reservation made ⇒ X non-nil
	okX := false
	var why string
	ir.Instrs(d.setContext, func(ins ssa.Instruction) {
		mu, ok := ins.(*ssa.MapUpdate)
		if !ok || !chk.LoadsField(mu.Map, c.M.SUsed) {
			return
		}
		// a store of a by-contract non-nil value into X of the task that dominates the reservation
		// or lies on every path from it to the end of the check/assign step (possibly in the
		// function that called the reserving helper), and no store of anything else into X
		dom := false
		laterBad := false
		c.P.ExtInstrs(d.checkAssign, func(i2 ssa.Instruction) {
			st, ok := i2.(*ssa.Store)
			if !ok {
				return
			}
			fa, ok := st.Addr.(*ssa.FieldAddr)
			if !ok || ir.FieldVar(fa) != X || ir.FieldOwner(fa) != c.M.Task {
				return
			}
			nn := nonNilByContract(st.Val)
			if !nn {
				// the result of the reserving helper, all of whose returns are non-nil by contract
				nn = true
				n := 0
				for _, src := range c.P.SourcesStop(st.Val, nonNilByContract) {
					n++
					if !nonNilByContract(src) {
						nn = false
					}
				}
				nn = nn && n > 0
			}
			if !nn {
				laterBad = true
				return
			}
			for _, a := range anchorsIn(c, mu, st.Parent()) {
				if a == ssa.Instruction(mu) && ir.InstrDominates(st, mu) {
					dom = true
				}
				if ok, _ := (ir.PathQuery{Goal: func(i ssa.Instruction) bool { return i == ssa.Instruction(st) }}).MustReach(a); ok {
					dom = true
				}
			}
			if st.Parent() == mu.Parent() && ir.InstrDominates(st, mu) {
				dom = true
			}
		})
		okX = dom && !laterBad
		if !dom {
			why = "no store of a non-nil value into task." + X.Name() + " dominates or inevitably follows the reservation"
		}
	})
	c.Check(okX, "PAIR.release", d.setContext, "reserved ⇒ marked executed", markPos, "a response is marked 'not executed' when task."+X.Name()+" == nil, and the function that reserves an id always sets task."+X.Name()+" to a non-nil value first: every reservation is released with its reply",
		"a response is marked 'not executed' (and its id therefore not released at delivery) when task."+X.Name()+" == nil, but a reservation does not imply task."+X.Name()+" != nil ("+why+"): e.g. a call answered with method-not-found keeps its id reserved forever")
}

func nonNilByContract(v ssa.Value) bool {
	if e, ok := v.(*ssa.Extract); ok && e.Index == 0 {
		if call, ok := e.Tuple.(*ssa.Call); ok && ir.IsCallTo(&call.Call, "context.WithCancel", "context.WithTimeout", "context.WithDeadline") {
			return true
		}
	}
	if call, ok := v.(*ssa.Call); ok && ir.IsCallTo(&call.Call, "context.WithValue", "context.Background", "context.TODO") {
		return true
	}
	return false
}

// loopHeaderOf returns the innermost loop header whose loop contains b.
func loopHeaderOf(b *ssa.BasicBlock) *ssa.BasicBlock {
	for h := b; h != nil; h = h.Idom() {
		// h is a header if some predecessor is dominated by h (back edge) and b is in that loop
		for _, p := range h.Preds {
			if h.Dominates(p) && (b == h || reachesWithout(b, p, h) || b == p) {
				return h
			}
		}
	}
	return nil
}

// loopEarlyExits lists edges leaving the natural loop of hdr from blocks other than hdr.
func loopEarlyExits(hdr *ssa.BasicBlock) [][2]*ssa.BasicBlock {
	in := map[*ssa.BasicBlock]bool{hdr: true}
	// blocks dominated by hdr that can reach hdr
	for _, b := range hdr.Parent().Blocks {
		if hdr.Dominates(b) && (b == hdr || reachesWithout(b, hdr, nil)) {
			in[b] = true
		}
	}
	var out [][2]*ssa.BasicBlock
	for b := range in {
		if b == hdr {
			continue
		}
		for _, s := range b.Succs {
			if !in[s] {
				// ignore edges into blocks that only panic
				if len(s.Instrs) > 0 {
					if _, isPanic := s.Instrs[len(s.Instrs)-1].(*ssa.Panic); isPanic {
						continue
					}
				}
				out = append(out, [2]*ssa.BasicBlock{b, s})
			}
		}
	}
	return out
}

func isLenCond(cd ir.Cond) bool {
	bo, ok := cd.V.(*ssa.BinOp)
	if !ok {
		return false
	}
	_, a := ir.LenOf(bo.X)
	_, b := ir.LenOf(bo.Y)
	return a || b
}

// anchorsIn returns the instructions of root through which ins is reached: ins
// itself when it sits in root, otherwise the call sites in root that lead
// (through private helpers) to the function of ins.
func anchorsIn(c *chk.Ctx, ins ssa.Instruction, root *ssa.Function) []ssa.Instruction {
	var out []ssa.Instruction
	seen := map[ssa.Instruction]bool{}
	var walk func(at ssa.Instruction, depth int)
	walk = func(at ssa.Instruction, depth int) {
		if seen[at] || depth > 6 {
			return
		}
		seen[at] = true
		if at.Parent() == root {
			out = append(out, at)
			return
		}
		f := at.Parent()
		sites := c.P.Callers(f)
		if len(sites) == 0 && f.Parent() != nil {
			// closure run where it is created (synchronous callback): anchor at its creation
			ir.Instrs(f.Parent(), func(i ssa.Instruction) {
				if mc, ok := i.(*ssa.MakeClosure); ok && mc.Fn == f {
					walk(mc, depth+1)
				}
			})
			return
		}
		for _, s := range sites {
			walk(s.Instr, depth+1)
		}
	}
	walk(ins, 0)
	return out
}
