package props

import (
	"go/types"

	"golang.org/x/tools/go/ssa"

	"jrpcvet/internal/chk"
	"jrpcvet/internal/ir"
)

// An exact wrapper is a private, straight-line function that performs exactly
// one operation on a table (a map field) with its own parameters as operands
// and does nothing else — the methods of a small "set" or "table" type:
//
//	lookupok: v, ok := m[k]; return v, ok      (results in that order)
//	lookup:   return m[k]
//	update:   m[k] = v         (k a parameter, or the id field of parameter v)
//	delete:   delete(m, k)
//
// A call of such a wrapper is read as the operation itself, with the call's
// arguments as operands.
type tableWrapper struct {
	kind   string
	keyIdx int // parameter index of the key (-1: the key is the id field of the value)
	valIdx int // parameter index of the value (update)
	raw    ssa.Instruction
}

func exactWrapper(c *chk.Ctx, h *ssa.Function, table *types.Var) (tableWrapper, bool) {
	none := tableWrapper{}
	if h == nil || !c.P.InRepo[h] || ir.Exported(h) || len(h.Blocks) != 1 || h.Parent() != nil || len(h.FreeVars) != 0 || c.P.UsedAsValue(h) {
		return none, false
	}
	paramIdx := func(v ssa.Value) int {
		p, ok := ir.NormCell(v).(*ssa.Parameter)
		if !ok {
			return -1
		}
		for i, q := range h.Params {
			if q == p {
				return i
			}
		}
		return -1
	}
	var w tableWrapper
	nOps, other := 0, false
	for _, ins := range h.Blocks[0].Instrs {
		switch x := ins.(type) {
		case *ssa.Lookup:
			if !chk.LoadsField(x.X, table) {
				other = true
				continue
			}
			nOps++
			w = tableWrapper{kind: "lookup", keyIdx: paramIdx(x.Index), raw: x}
			if x.CommaOk {
				w.kind = "lookupok"
			}
		case *ssa.MapUpdate:
			if !chk.LoadsField(x.Map, table) {
				other = true
				continue
			}
			nOps++
			w = tableWrapper{kind: "update", keyIdx: paramIdx(x.Key), valIdx: paramIdx(x.Value), raw: x}
			if w.keyIdx < 0 {
				// m[v.id] = v
				if u, ok := x.Key.(*ssa.UnOp); ok {
					if fa, ok := u.X.(*ssa.FieldAddr); ok && ir.FieldVar(fa) == c.M.RID && paramIdx(fa.X) == w.valIdx && w.valIdx >= 0 {
						w.keyIdx = -1
					} else {
						other = true
					}
				} else {
					other = true
				}
			}
		case *ssa.Call:
			if call, ok := isDeleteOn(x, table); ok {
				nOps++
				w = tableWrapper{kind: "delete", keyIdx: paramIdx(call.Call.Args[1]), raw: x}
				continue
			}
			other = true
		case *ssa.Store:
			// a by-value receiver or parameter spilled into a local is not an effect
			if al, isAl := x.Addr.(*ssa.Alloc); isAl && !al.Heap {
				if _, isPar := x.Val.(*ssa.Parameter); isPar {
					continue
				}
			}
			other = true
		case *ssa.Go, *ssa.Defer, *ssa.Send, *ssa.Panic, *ssa.RunDefers:
			other = true
		}
	}
	if nOps != 1 || other {
		return none, false
	}
	switch w.kind {
	case "lookup":
		if w.keyIdx < 0 {
			return none, false
		}
		// "has": m[k] != nil
		isHas := len(ir.Returns(h)) > 0
		for _, r := range ir.Returns(h) {
			if len(r.Results) != 1 {
				isHas = false
				continue
			}
			x, eq, ok := ir.NilCompare(r.Results[0])
			if !ok || eq || x != w.raw.(ssa.Value) {
				isHas = false
			}
		}
		if isHas {
			w.kind = "has"
			return w, true
		}
		for _, r := range ir.Returns(h) {
			if len(r.Results) != 1 || r.Results[0] != w.raw.(ssa.Value) {
				return none, false
			}
		}
	case "lookupok":
		if w.keyIdx < 0 {
			return none, false
		}
		// "has": only the ok flag is returned
		isHas := true
		for _, r := range ir.Returns(h) {
			if len(r.Results) != 1 {
				isHas = false
				continue
			}
			e, ok := r.Results[0].(*ssa.Extract)
			if !ok || e.Tuple != w.raw.(ssa.Value) || e.Index != 1 {
				isHas = false
			}
		}
		if isHas && len(ir.Returns(h)) > 0 {
			w.kind = "has"
			return w, true
		}
		for _, r := range ir.Returns(h) {
			if len(r.Results) != 2 {
				return none, false
			}
			for i, v := range r.Results {
				e, ok := v.(*ssa.Extract)
				if !ok || e.Tuple != w.raw.(ssa.Value) || e.Index != i {
					return none, false
				}
			}
		}
	case "update":
		if w.valIdx < 0 {
			return none, false
		}
	case "delete":
		if w.keyIdx < 0 {
			return none, false
		}
	}
	return w, true
}

// wrapperCall: ci calls an exact wrapper of the given kind(s) on table.
func wrapperCall(c *chk.Ctx, ci ssa.CallInstruction, table *types.Var, kinds ...string) (tableWrapper, bool) {
	w, ok := exactWrapper(c, ci.Common().StaticCallee(), table)
	if !ok {
		return w, false
	}
	for _, k := range kinds {
		if w.kind == k {
			return w, true
		}
	}
	return w, false
}

// A vLookup is a look-up in a table as a function sees it: the map look-up
// itself, or a call of an exact look-up wrapper (key = the call's argument).
type vLookup struct {
	at      ssa.Instruction // in fn
	fn      *ssa.Function
	key     ssa.Value
	commaOk bool
}

func tableLookups(c *chk.Ctx, table *types.Var) []vLookup {
	var out []vLookup
	for _, f := range pkgFuncs(c, c.M.Pkg) {
		ir.Instrs(f, func(ins ssa.Instruction) {
			switch x := ins.(type) {
			case *ssa.Lookup:
				if !chk.LoadsField(x.X, table) {
					return
				}
				if _, isW := exactWrapper(c, f, table); isW {
					return // seen at the wrapper's call sites
				}
				out = append(out, vLookup{x, f, x.Index, x.CommaOk})
			case ssa.CallInstruction:
				if w, ok := wrapperCall(c, x, table, "lookup", "lookupok", "has"); ok && w.keyIdx < len(x.Common().Args) {
					out = append(out, vLookup{ins, f, x.Common().Args[w.keyIdx], w.kind == "lookupok"})
				}
			}
		})
	}
	return out
}
