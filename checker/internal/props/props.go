// Package props maps each property to the rules that decide its structural
// clauses (DESIGN.md section 4).
package props

import (
	"encoding/json"
	"fmt"
	"sort"

	"jrpcvet/internal/chk"
)

// Def describes one property's check.
type Def struct {
	ID          string
	Technique   string
	Explanation string   // what is decided
	NotDecided  []string // clauses not decided
	Assumptions []string
	RuleText    string
	Run         func(c *chk.Ctx, tier string)
	Thorough    func(res *chk.Result, repo string) // extra work of the thorough tier (self-validation)
}

var registry = map[string]*Def{}

func register(d *Def) { registry[d.ID] = d }

func Lookup(id string) *Def { return registry[id] }

func IDs() []string {
	var ids []string
	for id := range registry {
		ids = append(ids, id)
	}
	sort.Strings(ids)
	return ids
}

const ruleText = "obligations are rule instances over the type-checked SSA program of /repo's current tree (sites found by type/role, not by position); an instance is non-trivial when discharging it needed a lockset, dominance, path or provenance argument rather than a bare existence check; distinct = distinct rule|function|construct keys"

// PrintList prints the registered checks (used to generate MANIFEST.json).
func PrintList() {
	type row struct {
		ID, Technique, Explanation string
		NotDecided, Assumptions    []string
		HasThorough                bool
	}
	var rows []row
	for _, id := range IDs() {
		d := registry[id]
		rows = append(rows, row{d.ID, d.Technique, d.Explanation, d.NotDecided, d.Assumptions, d.Thorough != nil})
	}
	b, _ := json.MarshalIndent(rows, "", " ")
	fmt.Println(string(b))
}

// All returns the registered property checks in id order.
func All() []*Def {
	var ids []string
	for id := range registry {
		ids = append(ids, id)
	}
	sort.Strings(ids)
	var out []*Def
	for _, id := range ids {
		out = append(out, registry[id])
	}
	return out
}
