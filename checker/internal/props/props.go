// Package props maps each property to the rules that decide its structural
// clauses (DESIGN.md section 4).
package props

import (
	"encoding/json"
	"fmt"
	"sort"
	"strings"

	"jrpcvet/internal/chk"
)

// Def describes one property's check.
type Def struct {
	ID          string
	Technique   string
	Explanation string   // what is decided
	NotDecided  []string // clauses not decided
	Assumptions []string
	RuleText    string
	Run         func(c *chk.Ctx, tier string)
	Thorough    func(res *chk.Result, repo string) // extra work of the thorough tier (self-validation)
}

var registry = map[string]*Def{}

func register(d *Def) {
	if sh := sharedRules[d.ID]; len(sh) > 0 {
		var qs []string
		for q := range sh {
			qs = append(qs, q)
		}
		sort.Strings(qs)
		var parts []string
		for _, q := range qs {
			parts = append(parts, strings.Join(sh[q], ", ")+" (evaluated by "+q+"'s rules)")
		}
		d.Explanation += " Shared clauses, each a necessary condition of this property too (a confirmed breakage of this property violates it): " + strings.Join(parts, "; ") + "."
	}
	registry[d.ID] = d
}

// runShared evaluates the clauses property id shares with other properties
// (sharedRules) and adds their obligations to c.
func runShared(c *chk.Ctx, id, tier string) { runSharedDepth(c, id, tier, 0) }

func runSharedDepth(c *chk.Ctx, id, tier string, depth int) {
	sh := sharedRules[id]
	if len(sh) == 0 {
		return
	}
	// (several obligations may share rule|function|construct — one per return of a function, say:
	// the site and the verdict tell them apart)
	keyOf := func(o chk.Obligation) string {
		return o.Rule + "|" + o.Func + "|" + o.Construct + "|" + o.Site + "|" + fmt.Sprint(o.Status)
	}
	have := map[string]bool{}
	for _, o := range c.Obs {
		have[keyOf(o)] = true
	}
	var qs []string
	for q := range sh {
		qs = append(qs, q)
	}
	sort.Strings(qs)
	for _, q := range qs {
		want := map[string]bool{}
		for _, r := range sh[q] {
			want[r] = true
		}
		c2 := &chk.Ctx{P: c.P, F: c.F, M: c.M}
		registry[q].Run(c2, tier)
		// (a clause q itself borrows may be the one wanted)
		if depth < 2 {
			runSharedDepth(c2, q, tier, depth+1)
		}
		for _, o := range c2.Obs {
			k := keyOf(o)
			if !want[o.Rule] || have[k] {
				continue
			}
			have[k] = true
			o.Clause = "shared with " + q + ": " + o.Clause
			c.Obs = append(c.Obs, o)
		}
	}
}

func Lookup(id string) *Def { return registry[id] }

func IDs() []string {
	var ids []string
	for id := range registry {
		ids = append(ids, id)
	}
	sort.Strings(ids)
	return ids
}

const ruleText = "obligations are rule instances over the type-checked SSA program of /repo's current tree (sites found by type/role, not by position); an instance is non-trivial when discharging it needed a lockset, dominance, path or provenance argument rather than a bare existence check; distinct = distinct rule|function|construct keys"

// PrintList prints the registered checks (used to generate MANIFEST.json).
func PrintList() {
	type row struct {
		ID, Technique, Explanation string
		NotDecided, Assumptions    []string
		HasThorough                bool
	}
	var rows []row
	for _, id := range IDs() {
		d := registry[id]
		rows = append(rows, row{d.ID, d.Technique, d.Explanation, d.NotDecided, d.Assumptions, d.Thorough != nil})
	}
	b, _ := json.MarshalIndent(rows, "", " ")
	fmt.Println(string(b))
}

// All returns the registered property checks in id order.
func All() []*Def {
	var ids []string
	for id := range registry {
		ids = append(ids, id)
	}
	sort.Strings(ids)
	var out []*Def
	for _, id := range ids {
		out = append(out, registry[id])
	}
	return out
}
