package props

import (
	"fmt"
	"go/token"
	"go/types"
	"strings"

	"golang.org/x/tools/go/ssa"

	"jrpcvet/internal/chk"
	"jrpcvet/internal/facts"
	"jrpcvet/internal/ir"
)

// TOKEN — single-writer response slots.

type slotSend struct {
	send  ssa.Instruction // the write as its function sees it: the send, or the call of a put wrapper
	msg   ssa.Value       // the message written
	fn    *ssa.Function
	resp  ssa.Value // the Response whose slot is written (normalised)
	owner string
	table *types.Var
}

func tableOwner(c *chk.Ctx, f *ssa.Function) (string, *types.Var) {
	switch ir.RecvNamed(ir.Root(f)) {
	case c.M.Client:
		return "client", c.M.CPending
	case c.M.Server:
		return "server", c.M.SCall
	}
	// a helper type or plain function: the side from whose methods it is reached
	side := sideOf(c, f)
	switch {
	case side["server"] && !side["client"]:
		return "server", c.M.SCall
	case side["client"] && !side["server"]:
		return "client", c.M.CPending
	}
	return "", nil
}

func slotSends(c *chk.Ctx) []slotSend {
	var out []slotSend
	for _, f := range pkgFuncs(c, c.M.Pkg) {
		ir.Instrs(f, func(ins ssa.Instruction) {
			msg, resp, ok := slotWriteAt(c, ins)
			if !ok {
				return
			}
			o, t := tableOwner(c, f)
			out = append(out, slotSend{send: ins, msg: msg, fn: f, resp: resp, owner: o, table: t})
		})
	}
	return out
}

// between lists instructions on some path from a (exclusive) to b (exclusive).
func between(a, b ssa.Instruction) []ssa.Instruction {
	if a.Parent() != b.Parent() {
		return nil
	}
	// blocks that can reach b's block
	canReach := map[*ssa.BasicBlock]bool{b.Block(): true}
	changed := true
	for changed {
		changed = false
		for _, bl := range a.Parent().Blocks {
			if canReach[bl] {
				continue
			}
			for _, s := range bl.Succs {
				if canReach[s] {
					canReach[bl] = true
					changed = true
					break
				}
			}
		}
	}
	var out []ssa.Instruction
	seen := map[*ssa.BasicBlock]bool{}
	var walk func(bl *ssa.BasicBlock, i int)
	walk = func(bl *ssa.BasicBlock, i int) {
		for ; i < len(bl.Instrs); i++ {
			if bl.Instrs[i] == b {
				return
			}
			out = append(out, bl.Instrs[i])
		}
		for _, s := range bl.Succs {
			if canReach[s] && !seen[s] {
				seen[s] = true
				walk(s, 0)
			}
		}
	}
	walk(a.Block(), ir.IndexOf(a)+1)
	return out
}

// presence describes how a function establishes that key k maps to an entry.
type presence struct {
	lookup ssa.Instruction
	key    ssa.Value
	entry  ssa.Value // the looked-up Response (nil when only presence is tested)
	taken  bool      // established by a take helper: the entry is already removed from the table
}

// takeHelper recognises a private "look up and remove" helper: a function with
// one result that looks its key parameter up in table and, on every path that
// returns a non-nil value, returns that very entry after deleting the key,
// without releasing lock in between. It returns the index of the key parameter.
func takeHelper(c *chk.Ctx, h *ssa.Function, table *types.Var, lock facts.Path) (int, bool) {
	if h == nil || !c.P.InRepo[h] || ir.Exported(h) || h.Signature.Results().Len() != 1 || len(h.Blocks) == 0 {
		return -1, false
	}
	var lk *ssa.Lookup
	n := 0
	ir.Instrs(h, func(ins ssa.Instruction) {
		if l, ok := ins.(*ssa.Lookup); ok && chk.LoadsField(l.X, table) {
			lk = l
			n++
		}
	})
	if n != 1 {
		return -1, false
	}
	kp, ok := ir.NormCell(lk.Index).(*ssa.Parameter)
	if !ok {
		return -1, false
	}
	idx := -1
	for i, p := range h.Params {
		if p == kp {
			idx = i
		}
	}
	// (a "drop" helper reports only whether there was an entry: its one result is the
	// look-up's ok flag, or the entry compared with nil)
	isFlag := false
	if b, isB := h.Signature.Results().At(0).Type().Underlying().(*types.Basic); isB && b.Kind() == types.Bool {
		isFlag = true
	}
	nonNil := 0
	for _, r := range ir.Returns(h) {
		v := ir.NormCell(ir.ReturnResult(r, 0))
		if ir.IsNilConst(v) {
			continue
		}
		if k, isK := v.(*ssa.Const); isK && isFlag && k.Value != nil && k.Value.String() == "false" {
			continue
		}
		nonNil++
		isEntry := v == ssa.Value(lk) && !isFlag
		if e, ok := v.(*ssa.Extract); ok && e.Index == 0 && e.Tuple == ssa.Value(lk) && !isFlag {
			isEntry = true
		}
		if isFlag {
			if e, ok := v.(*ssa.Extract); ok && e.Index == 1 && e.Tuple == ssa.Value(lk) {
				isEntry = true
			}
			if x, eq, ok := ir.NilCompare(v); ok && !eq && ir.NormCell(x) == ssa.Value(lk) {
				isEntry = true
			}
			if k, isK := v.(*ssa.Const); isK && k.Value != nil && k.Value.String() == "true" {
				// a literal true: only on the hit edge
				for _, cd := range ir.CondsAt(r.Block()) {
					x, eq, ok := ir.NilCompare(cd.V)
					if ok && ir.NormCell(x) == ssa.Value(lk) && eq != cd.Truth {
						isEntry = true
					}
					if e, isE := cd.V.(*ssa.Extract); isE && e.Tuple == ssa.Value(lk) && e.Index == 1 && cd.Truth {
						isEntry = true
					}
				}
			}
		}
		if !isEntry {
			return -1, false
		}
		deleted := false
		ir.Instrs(h, func(ins ssa.Instruction) {
			call, ok := isDeleteOn(ins, table)
			if !ok || ir.NormCell(call.Call.Args[1]) != ssa.Value(kp) || !ir.InstrDominates(lk, call) {
				return
			}
			if ir.InstrDominates(call, r) {
				deleted = true
				return
			}
			// `if e != nil { delete }; return e`: from the hit edge every path passes the delete
			for _, cd := range ir.CondsAt(call.Block()) {
				x, eq, ok := ir.NilCompare(cd.V)
				hit := ok && ir.NormCell(x) == ssa.Value(lk) && eq != cd.Truth
				if e, isE := cd.V.(*ssa.Extract); isE && e.Tuple == ssa.Value(lk) && e.Index == 1 && cd.Truth {
					hit = true
				}
				if !hit {
					continue
				}
				succ := succOfCond(cd)
				if succ == nil || len(succ.Instrs) == 0 {
					continue
				}
				isDel := func(i ssa.Instruction) bool { return i == ssa.Instruction(call) }
				if isDel(succ.Instrs[0]) {
					deleted = true
				} else if ok, _ := (ir.PathQuery{Goal: isDel}).MustReach(succ.Instrs[0]); ok {
					deleted = true
				}
			}
		})
		if !deleted {
			return -1, false
		}
		for _, ins := range between(lk, r) {
			if releases(c, ins, lock) {
				return -1, false
			}
		}
	}
	return idx, nonNil > 0 && idx >= 0
}

// findPresence: a lookup in table whose hit edge dominates `at`.
func findPresence(c *chk.Ctx, f *ssa.Function, table *types.Var, at ssa.Instruction) []presence {
	var out []presence
	conds := ir.CondsAt(at.Block())
	// through a take helper: `e := take(k); e != nil` dominating at (or `drop(k)` true)
	for _, cd := range ir.NormConds(conds) {
		var call *ssa.Call
		if x, eq, ok := ir.NilCompare(cd.V); ok && eq != cd.Truth {
			call, _ = ir.NormCell(x).(*ssa.Call)
		} else if cv, isCall := cd.V.(*ssa.Call); isCall && cd.Truth {
			if b, isB := cv.Type().Underlying().(*types.Basic); isB && b.Kind() == types.Bool {
				call = cv
			}
		}
		if call == nil {
			continue
		}
		owner, _ := tableOwner(c, f)
		if owner == "" {
			continue
		}
		if idx, ok := takeHelper(c, call.Call.StaticCallee(), table, ownerLock(c, owner)); ok && idx < len(call.Call.Args) {
			var entry ssa.Value = call
			if _, isPtr := call.Type().Underlying().(*types.Pointer); !isPtr {
				entry = nil // a flag only: the entry itself is not handed out
			}
			out = append(out, presence{call, c.P.Canon(call.Call.Args[idx]), entry, true})
			if k := ir.NormCell(call.Call.Args[idx]); k != c.P.Canon(call.Call.Args[idx]) {
				// (the key as this function sees it: its own parameter, tied to the Response at the call sites)
				out = append(out, presence{call, k, entry, true})
			}
		}
	}
	// through an exact look-up wrapper (a table type's method): the call is the look-up
	ir.Instrs(f, func(ins ssa.Instruction) {
		call, ok := ins.(*ssa.Call)
		if !ok {
			return
		}
		w, ok := wrapperCall(c, call, table, "lookup", "lookupok", "has")
		if !ok || w.keyIdx >= len(call.Call.Args) {
			return
		}
		key := ir.NormCell(call.Call.Args[w.keyIdx])
		for _, cd := range ir.NormConds(conds) {
			if w.kind == "has" {
				if cd.V == ssa.Value(call) && cd.Truth {
					out = append(out, presence{call, key, nil, false})
				}
				continue
			}
			if w.kind == "lookupok" {
				if e, ok := cd.V.(*ssa.Extract); ok && e.Tuple == ssa.Value(call) && e.Index == 1 && cd.Truth {
					out = append(out, presence{call, key, nil, false})
				}
				// the value half tested instead of the flag: `e, _ := look(k); e != nil`
				if x, eq, ok := ir.NilCompare(cd.V); ok && eq != cd.Truth {
					if e, isE := ir.NormCell(x).(*ssa.Extract); isE && e.Tuple == ssa.Value(call) && e.Index == 0 {
						out = append(out, presence{call, key, e, false})
					}
				}
			} else if x, eq, ok := ir.NilCompare(cd.V); ok && x == ssa.Value(call) && eq != cd.Truth {
				out = append(out, presence{call, key, call, false})
			}
		}
	})
	ir.Instrs(f, func(ins ssa.Instruction) {
		lk, ok := ins.(*ssa.Lookup)
		if !ok || !chk.LoadsField(lk.X, table) {
			return
		}
		for _, cd := range conds {
			if lk.CommaOk {
				if e, ok := cd.V.(*ssa.Extract); ok && e.Tuple == ssa.Value(lk) && e.Index == 1 && cd.Truth {
					out = append(out, presence{lk, ir.NormCell(lk.Index), nil, false})
				}
			} else if x, eq, ok := ir.NilCompare(cd.V); ok && x == ssa.Value(lk) && eq != cd.Truth {
				out = append(out, presence{lk, ir.NormCell(lk.Index), lk, false})
			}
		}
	})
	// established by the one caller before it calls f (`if w.outstanding() { w.expire() }`, the
	// test possibly in a one-line predicate): the presence holds at f's entry, provided the
	// lock cannot be released between the test and the call
	if len(out) == 0 && len(f.Blocks) > 0 {
		if site, sole := c.P.SoleCaller(f); sole {
			owner, _ := tableOwner(c, f)
			if _, isCall := site.Instr.(*ssa.Call); isCall && owner != "" {
				lock := ownerLock(c, owner)
				for _, alt := range expandPredicateHelpers(c, ir.CondsAt(site.Instr.Block()), 0) {
					for _, cd := range alt {
						var lk *ssa.Lookup
						var entry ssa.Value
						if e, ok := cd.V.(*ssa.Extract); ok && e.Index == 1 && cd.Truth {
							lk, _ = e.Tuple.(*ssa.Lookup)
						} else if x, eq, ok := ir.NilCompare(cd.V); ok && eq != cd.Truth {
							if l2, isLk := x.(*ssa.Lookup); isLk && !l2.CommaOk {
								lk, entry = l2, l2
							}
						}
						if lk == nil || !chk.LoadsField(lk.X, table) {
							continue
						}
						released := false
						for _, b := range site.Caller.Blocks {
							for _, i2 := range b.Instrs {
								if i2 != site.Instr && ir.InstrDominates(i2, site.Instr) && releases(c, i2, lock) {
									// a release before the call: only harmless if it also precedes the test
									if lk.Parent() == site.Caller && ir.InstrDominates(i2, lk) {
										continue
									}
									for _, cd2 := range ir.CondsAt(site.Instr.Block()) {
										if cd2.If != nil && ir.InstrDominates(cd2.If, i2) {
											released = true
										}
									}
								}
							}
						}
						if released {
							continue
						}
						out = append(out, presence{f.Blocks[0].Instrs[0], c.P.Canon(lk.Index), entry, false})
					}
				}
			}
		}
	}
	return out
}

func ruleTokenWrite(c *chk.Ctx, owner string) {
	n := 0
	for _, s := range slotSends(c) {
		if s.owner != owner {
			continue
		}
		n++
		f := s.fn
		lock := ownerLock(c, owner)
		st := c.F.At(s.send)
		if !st.Has(facts.Held, lock) {
			c.Fail("TOKEN.write", f, owner+" slot write", s.send.Pos(), "a response slot is written without %s held%s", lock, describeEntry(c, f, lock))
			continue
		}
		pres := findPresence(c, f, s.table, s.send)
		if len(pres) == 0 {
			c.Fail("TOKEN.write", f, owner+" slot write", s.send.Pos(), "the slot write is not dominated by a successful lookup of the id in %s: a second writer could complete the same request again", s.table.Name())
			continue
		}
		// pick the presence whose key has a delete dominating the send
		okAll := false
		var why string
		for _, p := range pres {
			// the Response written is the looked-up one, or was looked up again with the same key, or is a parameter tied to the key at every call site
			respOK := false
			if p.entry != nil && p.entry == s.resp {
				respOK = true
			}
			if p.entry != nil && !respOK {
				// a second lookup with the same key (if m[k] != nil { r := m[k] })
				if lk2, ok := s.resp.(*ssa.Lookup); ok && chk.LoadsField(lk2.X, s.table) && ir.NormCell(lk2.Index) == p.key {
					respOK = true
				}
			}
			// (the looked-up entry may only be tested for presence, the write going to the
			// Response the function was given together with the key)
			if !respOK {
				if prm, ok := s.resp.(*ssa.Parameter); ok {
					respOK, why = paramTiedToKey(c, f, prm, p.key)
				}
				// the Response and the key are the two halves of one "pending call" record
				if !respOK && (idOfResponse(c, p.key, s.resp, 0) || idOfResponse(c, p.key, c.P.Canon(s.resp), 0)) {
					respOK = true
				}
				// comma-ok lookup: the written Response is the value half of that very lookup
				if e, ok := ir.NormCell(s.resp).(*ssa.Extract); ok && e.Index == 0 && isSameInstr(e.Tuple, p.lookup) {
					respOK = true
				}
			}
			if !respOK {
				if why == "" {
					why = "the Response written is not the entry that was looked up"
				}
				continue
			}
			var del *ssa.Call
			ir.Instrs(f, func(ins ssa.Instruction) {
				if call, ok := isDeleteOn(ins, s.table); ok && (ir.NormCell(call.Call.Args[1]) == p.key || c.P.Canon(call.Call.Args[1]) == p.key || c.P.Canon(call.Call.Args[1]) == c.P.Canon(p.key)) && ir.InstrDominates(call, s.send) && (ir.InstrDominates(p.lookup, call) || p.lookup == ssa.Instruction(call)) {
					del = call
				}
				// the removal through a table type's method
				if call, isCall := ins.(*ssa.Call); isCall {
					if w, ok := wrapperCall(c, call, s.table, "delete"); ok && w.keyIdx < len(call.Call.Args) && ir.NormCell(call.Call.Args[w.keyIdx]) == p.key && ir.InstrDominates(call, s.send) && ir.InstrDominates(p.lookup, call) {
						del = call
					}
				}
			})
			if del == nil && !p.taken {
				why = fmt.Sprintf("the id is not removed from %s between the lookup and the slot write: the entry stays claimable, so the slot can be written twice", s.table.Name())
				continue
			}
			// no release of the lock between lookup and send
			rel := false
			for _, ins := range between(p.lookup, s.send) {
				if releases(c, ins, lock) {
					rel = true
					why = "the lock can be released at " + c.P.Pos(ins.Pos()) + " between the lookup and the slot write: lookup, removal and write are not one critical section"
				}
			}
			if rel {
				continue
			}
			okAll = true
		}
		if !okAll {
			c.Fail("TOKEN.write", f, owner+" slot write", s.send.Pos(), "%s", why)
			continue
		}
		// no second slot write after this one
		again, at := ir.Reaches(s.send, func(i ssa.Instruction) bool {
			_, _, ok := slotWriteAt(c, i)
			return ok
		}, func(i ssa.Instruction) bool { // a fresh lookup starts a new token
			if call, isCall := i.(*ssa.Call); isCall {
				if _, isTake := takeHelper(c, call.Call.StaticCallee(), s.table, lock); isTake {
					return true
				}
				if _, isW := wrapperCall(c, call, s.table, "lookup", "lookupok", "has"); isW {
					return true
				}
			}
			lk, ok := i.(*ssa.Lookup)
			return ok && chk.LoadsField(lk.X, s.table)
		})
		if again {
			c.Fail("TOKEN.write", f, owner+" slot write", s.send.Pos(), "a second slot write at %s is reachable after this one", c.P.Pos(at.Pos()))
			continue
		}
		c.Pass("TOKEN.write", f, owner+" slot write", s.send.Pos(), "under %s: id looked up in %s (hit), removed, then the looked-up entry's slot written once, with no release in between", lock, s.table.Name())
	}
	// non-vacuity only: the delivery of a reply and the context watcher both write slots (a
	// removed entry that is not completed is TOKEN.take's business)
	want := 2
	if n < want {
		c.Undecided("TOKEN.write", nil, owner+" slot writes", 0, "found %d slot writes for the %s (confirmed by hand: %d)", n, owner, want)
	}
}

// paramTiedToKey: at every call site of f, the key argument is the id field
// of the Response argument.
func paramTiedToKey(c *chk.Ctx, f *ssa.Function, resp *ssa.Parameter, key ssa.Value) (bool, string) {
	kp, ok := key.(*ssa.Parameter)
	if !ok {
		return false, "the key is not a parameter tied to the Response parameter"
	}
	ki, ri := -1, -1
	for i, p := range f.Params {
		if p == kp {
			ki = i
		}
		if p == resp {
			ri = i
		}
	}
	sites := c.P.Callers(f)
	if len(sites) == 0 || ki < 0 || ri < 0 {
		return false, "no call sites to tie the key to the Response"
	}
	for _, s := range sites {
		args := s.Instr.Common().Args
		k, r := ir.NormCell(args[ki]), ir.NormCell(args[ri])
		tied := false
		// k == r.id
		if u, ok := k.(*ssa.UnOp); ok {
			if fa, ok := u.X.(*ssa.FieldAddr); ok && ir.FieldVar(fa) == c.M.RID && ir.SameValue(fa.X, r) {
				tied = true
			}
		}
		// r is a fresh Response whose id field was stored with k
		if al, ok := r.(*ssa.Alloc); ok {
			for _, ref := range *al.Referrers() {
				if fa, ok := ref.(*ssa.FieldAddr); ok && ir.FieldVar(fa) == c.M.RID {
					for _, r2 := range *fa.Referrers() {
						if st, ok := r2.(*ssa.Store); ok && ir.NormCell(st.Val) == k {
							tied = true
						}
					}
				}
			}
		}
		if !tied {
			// both handed down unchanged from the caller's own parameters: decided at its call sites
			if kp2, ok := k.(*ssa.Parameter); ok {
				if rp2, ok := r.(*ssa.Parameter); ok && kp2.Parent() == rp2.Parent() && kp2.Parent() != f {
					if ok2, _ := paramTiedToKey(c, kp2.Parent(), rp2, kp2); ok2 {
						tied = true
					}
				}
			}
		}
		if !tied {
			return false, "at " + c.P.Pos(s.Instr.Pos()) + " the id argument is not the id of the Response argument"
		}
	}
	return true, ""
}

func ruleTokenBuffered(c *chk.Ctx) {
	n := 0
	for _, st := range c.P.FieldStores(c.M.RCh) {
		// (a mailbox type's constructor counts once per Response built with it)
		if f := st.Parent(); f.Parent() == nil && !ir.Exported(f) && len(f.Blocks) == 1 && !c.P.UsedAsValue(f) && ir.RecvNamed(f) == nil {
			if k := len(c.P.Callers(f)); k > 1 {
				n += k - 1
			}
		}
		n++
		mk, ok := st.Val.(*ssa.MakeChan)
		k := int64(0)
		if ok {
			k, _ = ir.ConstInt(mk.Size)
		}
		c.Check(ok && k >= 1, "TOKEN.buffered", st.Parent(), "slot capacity", st.Pos(), fmt.Sprintf("slot made with constant capacity %d: a write under the lock never blocks", k),
			"a response slot is not a channel of constant capacity ≥ 1: the writer would block while holding the lock")
	}
	if n < 2 {
		c.Undecided("TOKEN.buffered", nil, "slot construction", 0, "found %d slot constructions (want ≥ 2: client, server)", n)
	}
}

// keyDerivedFrom: k is string(fixID(m.ID)) (or string(m.ID)) for message m.
func keyMessage(c *chk.Ctx, k ssa.Value) ssa.Value {
	v := k
	for i := 0; i < 6; i++ {
		switch x := v.(type) {
		case *ssa.Convert:
			v = x.X
		case *ssa.ChangeType:
			v = x.X
		case *ssa.Call:
			if g := x.Call.StaticCallee(); g != nil && c.P.InRepo[g] && len(x.Call.Args) == 1 {
				v = x.Call.Args[0]
			} else {
				return nil
			}
		case *ssa.UnOp:
			if fa, ok := x.X.(*ssa.FieldAddr); ok && ir.FieldVar(fa) == c.M.JID {
				return ir.NormCell(fa.X)
			}
			return nil
		default:
			return nil
		}
	}
	return nil
}

func ruleTokenKeyed(c *chk.Ctx, owner string) {
	for _, s := range slotSends(c) {
		if s.owner != owner {
			continue
		}
		f := s.fn
		pres := findPresence(c, f, s.table, s.send)
		if len(pres) == 0 {
			continue // reported by TOKEN.write
		}
		key := pres[0].key
		isKey := func(v ssa.Value) bool {
			// (the key as any of the ways the presence was established sees it)
			for _, p := range pres {
				if v == p.key || c.P.Canon(v) == p.key || c.P.Canon(v) == c.P.Canon(p.key) {
					return true
				}
			}
			return false
		}
		inbound := keyMessage(c, key)
		if inbound == nil {
			// key and message handed to a private helper together: read both at its call site
			inbound = keyMessage(c, c.P.Canon(key))
		}
		sameMsg := func(a, b ssa.Value) bool {
			return a != nil && b != nil && (a == b || c.P.Canon(a) == c.P.Canon(b))
		}
		// the message sent may be chosen among several (a phi): every candidate is judged
		var cands []ssa.Value
		var expandMsg func(v ssa.Value, d int)
		expandMsg = func(v ssa.Value, d int) {
			v = ir.NormCell(v)
			if phi, isPhi := v.(*ssa.Phi); isPhi && d < 3 {
				for _, e := range phi.Edges {
					expandMsg(e, d+1)
				}
				return
			}
			cands = append(cands, v)
		}
		expandMsg(s.msg, 0)
		allOK, whyAll := len(cands) > 0, ""
		for _, msg := range cands {
			ok := false
			why := ""
			// a message built by a private constructor: look at the message it allocates, reading its
			// parameters as the arguments of this call
			var viaCall *ssa.Call
			if call, isCall := msg.(*ssa.Call); isCall {
				if g := call.Call.StaticCallee(); g != nil && c.P.InRepo[g] && !ir.Exported(g) {
					if rets := ir.Returns(g); len(rets) == 1 && len(rets[0].Results) == 1 {
						if al2, isAl := ir.NormCell(ir.ReturnResult(rets[0], 0)).(*ssa.Alloc); isAl {
							msg, viaCall = al2, call
						}
					}
				}
			}
			norm := func(v ssa.Value) ssa.Value {
				v = ir.NormCell(v)
				if prm, isP := v.(*ssa.Parameter); isP && viaCall != nil && prm.Parent() == viaCall.Call.StaticCallee() {
					for i, q := range prm.Parent().Params {
						if q == prm && i < len(viaCall.Call.Args) {
							return ir.NormCell(viaCall.Call.Args[i])
						}
					}
				}
				return v
			}
			if inbound != nil && sameMsg(msg, inbound) {
				ok, why = true, "the message delivered is the inbound message whose id produced the lookup key"
			} else if al, isAlloc := msg.(*ssa.Alloc); isAlloc {
				// fresh message: its ID must be the key, or the inbound message's ID
				for _, ref := range *al.Referrers() {
					fa, isFA := ref.(*ssa.FieldAddr)
					if !isFA || ir.FieldVar(fa) != c.M.JID {
						continue
					}
					for _, r2 := range *fa.Referrers() {
						st, isSt := r2.(*ssa.Store)
						if !isSt {
							continue
						}
						v := st.Val
						if cv, isC := v.(*ssa.Convert); isC && isKey(norm(cv.X)) {
							ok, why = true, "fresh message whose ID is the lookup key"
						}
						if u, isU := v.(*ssa.UnOp); isU && inbound != nil {
							if fa2, isFA2 := u.X.(*ssa.FieldAddr); isFA2 && ir.FieldVar(fa2) == c.M.JID && sameMsg(ir.NormCell(fa2.X), inbound) {
								ok, why = true, "fresh message carrying the inbound message's ID, from which the lookup key was computed"
							}
						}
					}
				}
			}
			if !ok {
				allOK = false
			} else if whyAll == "" {
				whyAll = why
			}
		}
		ok, why := allOK, whyAll
		c.Check(ok, "TOKEN.keyed", f, owner+" slot message id", s.send.Pos(), why+": the id check in Response.wait cannot fail",
			"the message written into the slot does not carry the id under which the Response was registered: Response.wait would panic with 'Mismatched response ID'")
	}
}

// ruleTokenClose: a slot is closed only by its single receiver, after a successful receive.
func ruleTokenClose(c *chk.Ctx) {
	type slotRecv struct {
		tuple   ssa.Value
		CommaOk bool
	}
	var recvs []slotRecv
	for _, f := range pkgFuncs(c, c.M.Pkg) {
		ir.Instrs(f, func(ins ssa.Instruction) {
			if tuple, commaOk, ok := slotRecvAt(c, ins); ok {
				recvs = append(recvs, slotRecv{tuple, commaOk})
			}
		})
	}
	c.Check(len(recvs) == 1, "TOKEN.close", nil, "one receiver", 0, "a response slot is received from at exactly one site", fmt.Sprintf("%d receive sites on response slots (want 1)", len(recvs)))
	nClose := 0
	for _, f := range pkgFuncs(c, c.M.Pkg) {
		ir.Instrs(f, func(ins ssa.Instruction) {
			call, ok := ins.(*ssa.Call)
			if !ok || !slotCloseAt(c, ins) {
				return
			}
			nClose++
			// in the receiving function, or in a private helper reached only on the receive's ok edge
			ok2 := c.P.AllContexts(call, nil, func(cs []ir.Cond) bool {
				for _, r := range recvs {
					if !r.CommaOk {
						continue
					}
					for _, cd := range cs {
						if e, isE := cd.V.(*ssa.Extract); isE && e.Tuple == r.tuple && e.Index == 1 && cd.Truth {
							return true
						}
					}
				}
				return false
			})
			c.Check(ok2, "TOKEN.close", f, "slot closed by its receiver", call.Pos(), "closed only after a successful receive from the same slot, in the single receiving function", "a response slot is closed elsewhere than after a successful receive in its receiver: a pending writer would panic")
		})
	}
	if nClose == 0 {
		c.Undecided("TOKEN.close", nil, "slot close", 0, "no close of a response slot found")
	}
}

// ruleTokenRegister: insertions into the table.
func ruleTokenRegister(c *chk.Ctx, owner string) {
	_, table := "", c.M.CPending
	if owner == "server" {
		table = c.M.SCall
	}
	lock := ownerLock(c, owner)
	n := 0
	for _, f := range pkgFuncs(c, c.M.Pkg) {
		ir.Instrs(f, func(ins ssa.Instruction) {
			mu, ok := ins.(*ssa.MapUpdate)
			if !ok || !chk.LoadsField(mu.Map, table) {
				return
			}
			n++
			st := c.F.At(mu)
			if !st.Has(facts.Held, lock) {
				c.Fail("TOKEN.register", f, owner+" registration", mu.Pos(), "entry registered without %s held", lock)
				return
			}
			// key is the Response's id
			resp := ir.NormCell(mu.Value)
			keyOK := false
			if u, ok := mu.Key.(*ssa.UnOp); ok {
				if fa, ok := u.X.(*ssa.FieldAddr); ok && ir.FieldVar(fa) == c.M.RID && ir.SameValue(fa.X, resp) {
					keyOK = true
				}
			}
			if al, ok := resp.(*ssa.Alloc); ok {
				for _, ref := range *al.Referrers() {
					if fa, ok := ref.(*ssa.FieldAddr); ok && ir.FieldVar(fa) == c.M.RID {
						for _, r2 := range *fa.Referrers() {
							if s2, ok := r2.(*ssa.Store); ok && ir.NormCell(s2.Val) == ir.NormCell(mu.Key) {
								keyOK = true
							}
						}
					}
				}
			}
			if !keyOK && idOfResponse(c, mu.Key, mu.Value, 0) {
				keyOK = true
			}
			if !keyOK {
				c.Fail("TOKEN.register", f, owner+" registration", mu.Pos(), "the table key is not the registered Response's id")
				return
			}
			// the registration as its function sees it: the map update, or — when it is made by a
			// table type's exact wrapper — each call of the wrapper, with the call's argument as
			// the Response
			type regSite struct {
				f    *ssa.Function
				at   ssa.Instruction
				resp ssa.Value
			}
			sites := []regSite{{f, mu, resp}}
			if w, isW := exactWrapper(c, f, table); isW && w.kind == "update" {
				sites = nil
				for _, cs := range c.P.Callers(f) {
					if w.valIdx < len(cs.Instr.Common().Args) {
						sites = append(sites, regSite{cs.Caller, cs.Instr, ir.NormCell(cs.Instr.Common().Args[w.valIdx])})
					}
				}
			}
			// or by a private "open" function that builds the Response, registers it and hands it
			// back without starting anything: then each call is the registration, with the
			// returned Response
			if len(sites) == 1 && sites[0].f == f && !ir.Exported(f) && f.Parent() == nil && !c.P.UsedAsValue(f) && len(c.P.Callers(f)) > 0 {
				hasGo := false
				ir.Instrs(f, func(i2 ssa.Instruction) {
					if _, isGo := i2.(*ssa.Go); isGo {
						hasGo = true
					}
				})
				idx := -1
				for _, r := range ir.Returns(f) {
					for i := range r.Results {
						if ir.SameValue(ir.ReturnResult(r, i), resp) {
							idx = i
						}
					}
				}
				if !hasGo && idx >= 0 {
					var lifted []regSite
					for _, cs := range c.P.Callers(f) {
						cv, isV := cs.Instr.(*ssa.Call)
						if !isV {
							lifted = nil
							break
						}
						var rv ssa.Value
						if f.Signature.Results().Len() == 1 {
							rv = cv
						} else {
							for _, ref := range *cv.Referrers() {
								if e, isE := ref.(*ssa.Extract); isE && e.Index == idx {
									rv = e
								}
							}
						}
						if rv == nil {
							lifted = nil
							break
						}
						lifted = append(lifted, regSite{cs.Caller, cv, rv})
					}
					if len(lifted) > 0 {
						sites = lifted
					}
				}
			}
			for _, rs := range sites {
				f, mu, resp := rs.f, rs.at, rs.resp
				// a watcher goroutine for the same Response is started right after (same critical section)
				var watcher *ssa.Go
				ir.Instrs(f, func(i2 ssa.Instruction) {
					g, ok := i2.(*ssa.Go)
					if !ok || !ir.InstrDominates(mu, g) {
						return
					}
					for _, a := range g.Call.Args {
						if ir.SameValue(a, resp) {
							watcher = g
						}
						// the Response handed over inside a freshly built "watch" record
						if al, isAl := ir.NormCell(a).(*ssa.Alloc); isAl {
							for _, ref := range *al.Referrers() {
								if fa, isFA := ref.(*ssa.FieldAddr); isFA {
									for _, r2 := range *fa.Referrers() {
										if st2, isSt := r2.(*ssa.Store); isSt && st2.Addr == ssa.Value(fa) && ir.SameValue(st2.Val, resp) {
											watcher = g
										}
									}
								}
							}
						}
						// the Response handed over inside a record (a "pending call" struct)
						if rb, _, isProj := projection(resp); isProj {
							if rb == ir.NormCell(a) || ir.SameValue(rb, a) {
								watcher = g
							}
							// the record kept in a local variable: the argument is a load of the whole
							// variable, the Response a load of one of its fields
							if u, isU := a.(*ssa.UnOp); isU && u.Op == token.MUL && u.X == rb {
								watcher = g
							}
						}
					}
				})
				if watcher == nil {
					c.Fail("TOKEN.register", f, owner+" registration", mu.Pos(), "no context watcher is started for the registered Response: if no reply arrives the caller would block after its context ends")
					return
				}
				if ok, at := (ir.PathQuery{Goal: func(i ssa.Instruction) bool { return i == ssa.Instruction(watcher) }}).MustReach(mu); !ok {
					where := ""
					if at != nil {
						where = " (a path leaves at " + c.P.Pos(at.Pos()) + ")"
					}
					c.Fail("TOKEN.register", f, owner+" registration", watcher.Pos(), "the watcher for the registered Response is not started on every path after the registration%s: a request whose watcher is missing is never completed when the owner stops", where)
					return
				}
				gc := classifyOne(c, watcher)
				if gc.kind != "watcher" {
					c.Fail("TOKEN.register", f, owner+" registration", watcher.Pos(), "the goroutine started for the registered Response is not a context watcher with a guaranteed release: %s", gc.detail)
					return
				}
				for _, ins := range between(mu, watcher) {
					if releases(c, ins, lock) {
						c.Fail("TOKEN.register", f, owner+" registration", mu.Pos(), "the lock can be released between registration and the start of the watcher")
						return
					}
				}
				c.Pass("TOKEN.register", f, owner+" registration", mu.Pos(), "registered under %s with key = Response.id, and a context watcher (%s) started for the same Response before the lock is released", lock, gc.detail)
			}
		})
	}
	if n != 1 {
		c.Undecided("TOKEN.register", nil, owner+" registration sites", 0, "found %d registration sites (want 1)", n)
	}
}

// ruleRegisterAfterSend (client): registration only on the success edge of the Send in the same critical section.
func ruleRegisterAfterSend(c *chk.Ctx) {
	for _, f := range pkgFuncs(c, c.M.Pkg) {
		ir.Instrs(f, func(ins ssa.Instruction) {
			mu, ok := ins.(*ssa.MapUpdate)
			if !ok || !chk.LoadsField(mu.Map, c.M.CPending) {
				return
			}
			okSend := c.P.AllContexts(mu, nil, func(cs []ir.Cond) bool {
				for _, cd := range cs {
					if x, eq, ok := ir.NilCompare(cd.V); ok && eq == cd.Truth {
						if call, ok := x.(*ssa.Call); ok && (isSendInvoke(call) || nilMeansSendOK(call)) {
							return true
						}
						// one error variable for "already failed" and "sending failed": it is nil only
						// if it came from the Send (every other value that flows into it is known
						// non-nil on its edge)
						if phi, isPhi := x.(*ssa.Phi); isPhi {
							sends, other := 0, false
							for i, e := range phi.Edges {
								if call, isCall := e.(*ssa.Call); isCall && (isSendInvoke(call) || nilMeansSendOK(call)) {
									sends++
									continue
								}
								ev := e
								if !ir.ProvesNonNil(ir.EdgeConds(phi.Block().Preds[i], phi.Block()), func(v ssa.Value) bool { return v == ev || ir.SameValue(v, ev) }) {
									other = true
								}
							}
							if sends > 0 && !other {
								return true
							}
						}
					}
				}
				return false
			})
			c.Check(okSend, "TOKEN.register", f, "client registration after Send", mu.Pos(), "requests are registered only on the success edge of Send (a failed transmission leaves no entry behind)", "requests are registered although Send may have failed: the entry would never be fulfilled")
		})
	}
}

// ---------------------------------------------------------------------------
// LOCK.atomicRMW

func ruleAtomicCounter(c *chk.Ctx, owner string, counter *types.Var) {
	lock := ownerLock(c, owner)
	n := 0
	for _, st := range c.P.FieldStores(counter) {
		f := st.Parent()
		fa := st.Addr.(*ssa.FieldAddr)
		if freshOwner(c, fa.X) {
			continue // constructor initialises the counter
		}
		n++
		bo, ok := st.Val.(*ssa.BinOp)
		var load ssa.Value
		if ok && bo.Op == token.ADD {
			if k, isC := ir.ConstInt(bo.Y); isC && k == 1 && chk.LoadsField(bo.X, counter) {
				load = bo.X
			}
		}
		if load == nil {
			c.Fail("LOCK.atomicRMW", f, owner+" id counter update", st.Pos(), "the id counter is updated other than by adding exactly 1 to its current value: ids could be skipped into, or shared with, another request's range")
			continue
		}
		// the id is formatted from a load of the counter in the same critical section
		var fmtCall *ssa.Call
		var idLoad ssa.Instruction
		ir.Instrs(f, func(ins ssa.Instruction) {
			call, ok := ins.(*ssa.Call)
			if ai := intFormatArg(call); ok && ai >= 0 && chk.LoadsField(call.Call.Args[ai], counter) {
				fmtCall = call
				idLoad = call.Call.Args[ai].(ssa.Instruction)
			}
		})
		if fmtCall == nil {
			c.Fail("LOCK.atomicRMW", f, owner+" id counter update", st.Pos(), "no id is formatted directly from the counter's value in the function that increments it (arithmetic between the counter and the id breaks uniqueness)")
			continue
		}
		s1, s2 := c.F.At(idLoad), c.F.At(st)
		if !s1.Has(facts.Held, lock) || !s2.Has(facts.Held, lock) {
			c.Fail("LOCK.atomicRMW", f, owner+" id counter update", st.Pos(), "the id counter is read or incremented without %s held", lock)
			continue
		}
		rel := false
		for _, ins := range between(idLoad, st) {
			if releases(c, ins, lock) {
				rel = true
			}
		}
		if rel || !ir.InstrDominates(idLoad, st) {
			c.Fail("LOCK.atomicRMW", f, owner+" id counter update", st.Pos(), "the read that produces the id and the increment are not in one critical section")
			continue
		}
		c.Pass("LOCK.atomicRMW", f, owner+" id counter update", st.Pos(), "id = FormatInt(counter) and counter++ in one critical section under %s; no other writer", lock)
	}
	if n != 1 {
		c.Undecided("LOCK.atomicRMW", nil, owner+" id counter writers", 0, "found %d non-constructor writers of the id counter (want 1)", n)
	}
	// the formatted id is what goes on the wire: every FormatInt of the counter flows into a jmessage ID
}

// ---------------------------------------------------------------------------
// hooks

func ruleHooks(c *chk.Ctx) {
	lock := ownerLock(c, "client")
	for _, f := range pkgFuncs(c, c.M.Pkg) {
		c.F.Walk(f, func(ins ssa.Instruction, st facts.State) {
			ci, ok := ins.(ssa.CallInstruction)
			if !ok {
				return
			}
			v := ci.Common().Value
			// the hook may be called through a local or a parameter it was copied into
			isHook := func(fv *types.Var) bool {
				if chk.LoadsField(v, fv) {
					return true
				}
				if _, isFn := v.Type().Underlying().(*types.Signature); !isFn || ci.Common().StaticCallee() != nil {
					return false
				}
				n, all := 0, true
				for _, src := range c.P.SourcesStop(v, func(x ssa.Value) bool { return chk.LoadsField(x, fv) }) {
					if ir.IsNilConst(src) {
						continue
					}
					n++
					if !chk.LoadsField(src, fv) {
						all = false
					}
				}
				return all && n > 0
			}
			switch {
			case isHook(c.M.CChook):
				okLock := st.Has(facts.NotHeld, lock)
				c.Check(okLock, "HOOK.cancel", f, "OnCancel outside the lock", ci.Pos(), "the cancel hook runs with "+lock.String()+" definitely released", "the cancel hook may run with the client lock held: a hook that uses the client would deadlock")
				// after the slot settled: a call of the Response's wait dominates
				settled := false
				ir.Instrs(f, func(i2 ssa.Instruction) {
					if call, ok := i2.(*ssa.Call); ok {
						if g := call.Call.StaticCallee(); g != nil && ir.RecvNamed(g) == c.M.Response && ir.InstrDominates(call, ci) {
							recvs := false
							ir.Instrs(g, func(i3 ssa.Instruction) {
								if _, _, ok := slotRecvAt(c, i3); ok {
									recvs = true
								}
							})
							if recvs {
								settled = true
							}
						}
					}
				})
				c.Check(settled, "HOOK.cancel", f, "OnCancel after settle", ci.Pos(), "the hook runs after the Response has settled", "the cancel hook may run before the Response has settled")
				// the closure that runs the hook is installed only after the token was taken (slot written),
				// or the hook is called inline after the slot write
				installed := false
				for _, ss := range slotSends(c) {
					if ss.owner == "client" && c.P.IDominates(ss.send, ci) {
						installed = true
					}
				}
				// the hook may sit in a closure (or in a private method that closure calls) which is
				// created only after the slot write
				cur := f
				for depth := 0; depth < 3 && !installed && cur != nil; depth++ {
					if cur.Parent() != nil {
						par := cur.Parent()
						ir.Instrs(par, func(i2 ssa.Instruction) {
							mc, ok := i2.(*ssa.MakeClosure)
							if !ok || mc.Fn != cur {
								return
							}
							for _, ss := range slotSends(c) {
								if ss.owner == "client" && c.P.IDominates(ss.send, mc) {
									installed = true
									// the converse: once this goroutine has ended the request, whether the
									// hook closure is made depends on the hook being set, not on any other
									// state of the client (a stopped client's requests get their hook too)
									have := map[ssa.Value]bool{}
									gate := ""
									for _, sc := range ir.CondsAt(ss.send.Block()) {
										have[sc.V] = true
									}
									for _, cd := range ir.CondsAt(mc.Block()) {
										if have[cd.V] {
											continue
										}
										x, _, isNil := ir.NilCompare(cd.V)
										if !isNil {
											continue
										}
										ld, ok := x.(*ssa.UnOp)
										if !ok {
											continue
										}
										fa, ok := ld.X.(*ssa.FieldAddr)
										if !ok {
											continue
										}
										pt, ok := fa.X.Type().Underlying().(*types.Pointer)
										if !ok {
											continue
										}
										st, ok := pt.Elem().Underlying().(*types.Struct)
										if !ok {
											continue
										}
										owns := false
										for k := 0; k < st.NumFields(); k++ {
											if st.Field(k) == c.M.CChook {
												owns = true
											}
										}
										if owns && st.Field(fa.Field) != c.M.CChook {
											gate = st.Field(fa.Field).Name()
										}
									}
									c.Check(gate == "", "HOOK.cancel", par, "OnCancel for every request this goroutine ended", mc.Pos(), "between the slot write and the hook closure no nil test of another client field", "after the slot write the cancel hook is installed only if the client's field "+gate+" passes a nil test: a request ended by this goroutine on a client in the other state gets no OnCancel call")
								}
							}
						})
					}
					if installed {
						break
					}
					if cs, ok := c.P.SoleCaller(cur); ok {
						cur = cs.Caller
					} else {
						break
					}
				}
				// or the call is governed by a flag (a bool, or the hook variable itself being
				// non-nil) that is set only after the slot write; the test may sit at the call of
				// the private method that runs the hook
				if !installed {
					conds := append([]ir.Cond{}, ir.CondsAt(ins.Block())...)
					at := f
					for depth := 0; depth < 3; depth++ {
						cs, ok := c.P.SoleCaller(at)
						if !ok {
							break
						}
						conds = append(conds, ir.CondsAt(cs.Instr.Block())...)
						at = cs.Caller
					}
					for _, cd := range conds {
						if x, eq, isNil := ir.NilCompare(cd.V); isNil && eq != cd.Truth {
							cd = ir.Cond{V: x, Truth: true}
						}
						if !cd.Truth {
							continue
						}
						u, ok := cd.V.(*ssa.UnOp)
						if !ok || u.Op != token.MUL {
							continue
						}
						var cell *ssa.Alloc
						switch a := u.X.(type) {
						case *ssa.Alloc:
							cell = a
						case *ssa.FreeVar:
							if b, ok := ir.NormCell(u).(*ssa.Alloc); ok {
								cell = b
							} else if b, ok := ir.BindingOf(a).(*ssa.Alloc); ok {
								cell = b
							}
						}
						if cell == nil {
							continue
						}
						good, n := true, 0
						for _, st := range ir.CellStores(cell) {
							if k, isK := st.Val.(*ssa.Const); isK && ((k.Value != nil && k.Value.String() == "false") || k.IsNil()) {
								continue
							}
							n++
							dom := false
							for _, ss := range slotSends(c) {
								if ss.owner == "client" && ss.fn == st.Parent() && ir.InstrDominates(ss.send, st) {
									dom = true
								}
							}
							// (the flag is the verdict of a private helper that writes the slot: every
							// return of the helper that can be true follows its slot write)
							if call, isCall := st.Val.(*ssa.Call); isCall && !dom {
								if h := call.Call.StaticCallee(); h != nil && c.P.InRepo[h] && !ir.Exported(h) && h.Signature.Results().Len() == 1 {
									all, some := true, false
									for _, r := range ir.Returns(h) {
										if k, isK := ir.ReturnResult(r, 0).(*ssa.Const); isK && k.Value != nil && k.Value.String() == "false" {
											continue
										}
										some = true
										after := false
										for _, ss := range slotSends(c) {
											if ss.owner == "client" && ss.fn == h && ir.InstrDominates(ss.send, r) {
												after = true
											}
										}
										if !after {
											all = false
										}
									}
									dom = all && some
								}
							}
							if !dom {
								good = false
							}
						}
						if good && n > 0 {
							installed = true
						}
					}
				}
				// or the hook call and the slot write are governed by the same outcome of one test
				// (the flag of this goroutine's own look-up), and under that outcome the write
				// always happens
				if !installed {
					for _, cd := range ir.NormConds(ir.CondsAt(ins.Block())) {
						for _, ss := range slotSends(c) {
							if ss.owner != "client" || ss.fn != f {
								continue
							}
							same := false
							var iff *ssa.If
							for _, sc := range ir.NormConds(ir.CondsAt(ss.send.Block())) {
								if sc.V == cd.V && sc.Truth == cd.Truth && sc.If != nil {
									same, iff = true, sc.If
								}
							}
							if !same || iff == nil {
								continue
							}
							succ := iff.Block().Succs[0]
							if !cd.Truth {
								succ = iff.Block().Succs[1]
							}
							if len(succ.Instrs) == 0 {
								continue
							}
							isSend := func(i ssa.Instruction) bool { return i == ss.send }
							if isSend(succ.Instrs[0]) {
								installed = true
							} else if ok, _ := (ir.PathQuery{Goal: isSend}).MustReach(succ.Instrs[0]); ok {
								installed = true
							}
						}
					}
				}
				c.Check(installed, "HOOK.cancel", f, "OnCancel only for the ender", ci.Pos(), "the hook closure is created only after this goroutine wrote the slot (it ended the request, no reply did)", "the cancel hook can be scheduled on a path that did not end the request: it could run for an answered request, or twice")
			case isHook(c.M.CShook):
				okLock := st.Has(facts.NotHeld, lock)
				if _, isDefer := ins.(*ssa.Defer); isDefer {
					// a deferred hook runs when the function's deferred calls run: the lock must be
					// released by then, and no deferred unlock may be pending (it would run after the hook)
					okLock = true
					nrd := 0
					ir.Instrs(f, func(i2 ssa.Instruction) {
						if rd, ok := i2.(*ssa.RunDefers); ok {
							if hit, _ := ir.Reaches(ins, func(i ssa.Instruction) bool { return i == ssa.Instruction(rd) }, nil); !hit {
								return // this exit is not reached after the hook was deferred
							}
							nrd++
							if !c.F.At(rd).Has(facts.NotHeld, lock) {
								okLock = false
							}
						}
					})
					if nrd == 0 {
						okLock = false
					}
				}
				c.Check(okLock, "HOOK.stop", f, "OnStop outside the lock", ci.Pos(), "the stop hook runs with "+lock.String()+" definitely released", "the stop hook may run with the client lock held")
				// it is the closure returned on the non-guard path of the stop function
				stop := stopFunc(c, "client")
				okWhere := f.Parent() == stop
				if okWhere {
					ir.Instrs(stop, func(i2 ssa.Instruction) {
						if mc, ok := i2.(*ssa.MakeClosure); ok && mc.Fn == f {
							// must be dominated by the Close call (the path that actually stops)
							dom := false
							for _, cs := range chanSites(c, "Close") {
								if cs.owners["client"] && ir.InstrDominates(cs.instr, mc) {
									dom = true
								}
							}
							okWhere = dom
						}
					})
				} else if stop != nil {
					// or: the caller runs the hook exactly when the stop function reports (true) that
					// this call was the one that closed the channel
					for _, cd := range ir.CondsAt(ins.Block()) {
						call, ok := cd.V.(*ssa.Call)
						if !ok || call.Call.StaticCallee() != stop || !cd.Truth {
							continue
						}
						good, nTrue := true, 0
						for _, r := range ir.Returns(stop) {
							k, isK := ir.ReturnResult(r, 0).(*ssa.Const)
							if !isK || k.Value == nil {
								good = false
								continue
							}
							if k.Value.String() != "true" {
								continue
							}
							nTrue++
							dom := false
							for _, cs := range chanSites(c, "Close") {
								if cs.owners["client"] && c.P.IDominates(cs.instr, r) {
									dom = true
								}
							}
							if !dom {
								good = false
							}
						}
						if good && nTrue > 0 {
							okWhere = true
						}
					}
				}
				if !okWhere && stop != nil && stop.Signature.Results().Len() == 1 {
					// or: the stop function hands back a record, and the hook is run by a function
					// given that record, on the outcome of the record's flag that is set only on
					// the path that actually closed the channel
					for _, cd := range ir.NormConds(ir.CondsAt(ins.Block())) {
						prm, fk, isRec := recordParamField(cd.V)
						ptrForm := false
						if isRec && !cd.Truth {
							isRec = false
						}
						if x, eq, isNC := ir.NilCompare(cd.V); isNC && eq != cd.Truth {
							// (the flag may be a pointer that is set only for the stopping call)
							prm, fk, isRec = recordParamField(ir.NormCell(x))
							ptrForm = true
						}
						if !isRec || !types.Identical(prm.Type(), stop.Signature.Results().At(0).Type()) {
							continue
						}
						idx := -1
						for i, q := range f.Params {
							if q == prm {
								idx = i
							}
						}
						good := idx >= 0 && !ir.Exported(f) && !c.P.UsedAsValue(f)
						for _, s := range c.P.Callers(f) {
							args := s.Instr.Common().Args
							if idx < 0 || idx >= len(args) {
								good = false
								continue
							}
							if call, isCall := ir.NormCell(args[idx]).(*ssa.Call); !isCall || call.Call.StaticCallee() != stop {
								good = false
							}
						}
						fvs, known := ir.ResultFieldVals(stop, 0, fk)
						nTrue := 0
						for _, fv := range fvs {
							if fv.Zero {
								continue
							}
							if ptrForm {
								if ir.IsNilConst(fv.Val) {
									continue
								}
							} else {
								k, isK := fv.Val.(*ssa.Const)
								if !isK || k.Value == nil {
									good = false
									continue
								}
								if k.Value.String() != "true" {
									continue
								}
							}
							nTrue++
							dom := false
							for _, cs := range chanSites(c, "Close") {
								if cs.owners["client"] && c.P.IDominates(cs.instr, fv.Ret) {
									dom = true
								}
							}
							if !dom {
								good = false
							}
						}
						if good && known && nTrue > 0 {
							okWhere = true
						}
					}
				}
				c.Check(okWhere, "HOOK.stop", f, "OnStop only for the first stop", ci.Pos(), "the hook is invoked only by the closure the stop function returns on the path that actually closed the channel", "the stop hook can run on a path that did not stop the client (it would run more than once)")
			}
		})
	}
	c.Floor("HOOK.cancel", 3, "lock, settle, ender")
	c.Floor("HOOK.stop", 2, "lock, first stop")
}

// ruleFilterErrorTable: filterError maps exactly the codes ErrorCode assigns
// to the context sentinels back to those sentinels.
func ruleFilterErrorTable(c *chk.Ctx) {
	ec := c.M.Func(c.M.Pkg, "ErrorCode")
	var fe *ssa.Function
	for _, f := range pkgFuncs(c, c.M.Pkg) {
		if f.Parent() == nil && f.Signature.Recv() == nil && f.Signature.Params().Len() == 1 && f.Signature.Results().Len() == 1 &&
			f.Signature.Params().At(0).Type().String() == "*"+c.M.ErrorT.String() && f.Signature.Results().At(0).Type().String() == "error" {
			fe = f
		}
	}
	if ec == nil || fe == nil {
		c.Undecided("TABLE.ctxerr", nil, "filterError/ErrorCode", 0, "functions not resolved")
		return
	}
	// every result of filterError is the error it was given, or a package-level sentinel (which
	// ones, and when, is decided below): in particular a non-nil error is never turned into nil
	isParam := func(v ssa.Value) bool {
		if _, ok := ir.NormCell(v).(*ssa.Parameter); ok {
			return true
		}
		_, ok := c.P.Canon(v).(*ssa.Parameter)
		return ok
	}
	for _, r := range ir.Returns(fe) {
		var judge func(v ssa.Value, conds []ir.Cond, depth int) bool
		judge = func(v ssa.Value, conds []ir.Cond, depth int) bool {
			v = ir.NormCell(v)
			// the verdict of a private "which sentinel does this code stand for?" helper: each of
			// its results, a nil one only where the caller has not excluded it
			if call, isCall := v.(*ssa.Call); isCall && depth < 3 {
				if h := call.Call.StaticCallee(); h != nil && c.P.InRepo[h] && !ir.Exported(h) && h.Signature.Results().Len() == 1 {
					nonNil := ir.ProvesNonNil(conds, func(x ssa.Value) bool { return ir.NormCell(x) == v })
					for _, r2 := range ir.Returns(h) {
						v2 := ir.ReturnResult(r2, 0)
						if nonNil && ir.IsNilConst(v2) {
							continue
						}
						if !judge(v2, ir.CondsAt(r2.Block()), depth+1) {
							return false
						}
					}
					return true
				}
			}
			if phi, isPhi := v.(*ssa.Phi); isPhi && depth < 3 {
				for i, e := range phi.Edges {
					if !judge(e, ir.EdgeConds(phi.Block().Preds[i], phi.Block()), depth+1) {
						return false
					}
				}
				return true
			}
			if globalLoad(v) != nil {
				return true
			}
			// an entry of a package-level table of sentinels (its contents are checked below)
			lkv := v
			if e, isE := v.(*ssa.Extract); isE && e.Index == 0 {
				lkv = e.Tuple
			}
			if lk, isLk := lkv.(*ssa.Lookup); isLk {
				if u, isU := lk.X.(*ssa.UnOp); isU {
					if _, isG := u.X.(*ssa.Global); isG {
						return true
					}
				}
			}
			if mi, isMI := v.(*ssa.MakeInterface); isMI {
				return isParam(mi.X)
			}
			if isParam(v) {
				return true
			}
			if ir.IsNilConst(v) {
				for _, cd := range conds {
					if x, eq, isCmp := ir.NilCompare(cd.V); isCmp && eq == cd.Truth && isParam(x) {
						return true
					}
				}
				return false
			}
			return false
		}
		c.Check(judge(ir.ReturnResult(r, 0), ir.CondsAt(r.Block()), 0), "TABLE.ctxerr", r.Parent(), "filterError returns the error or a sentinel", r.Pos(), "the result is the given error, a package-level sentinel, or nil for a nil argument", "filterError can return something other than the error it was given or a context sentinel (nil for a non-nil error, or a new value): a failed call would look like a success, or lose its code and data")
	}
	// ErrorCode: returns const K on the true edge of errors.Is(err, G)
	fwd := map[string]int64{}
	for _, r := range effectiveReturns(c, ec, 0) {
		k, isC := ir.ConstInt(ir.ReturnResult(r, 0))
		if !isC {
			// a table-driven loop: `if errors.Is(err, e.target) { return e.code }` for every
			// entry of a package-level table of constants
			if tl := c.P.FindTableLoop(r.Parent()); tl != nil {
				if fk, isF := tl.Field(ir.ReturnResult(r, 0)); isF {
					for _, cd := range ir.CondsAt(r.Block()) {
						if call, ok := cd.V.(*ssa.Call); ok && cd.Truth && ir.IsCallTo(&call.Call, "errors.Is") {
							if tk, isT := tl.Field(call.Call.Args[1]); isT {
								for _, row := range tl.Rows {
									g := globalLoad(row[tk])
									kk, isK := ir.ConstInt(row[fk])
									if g != nil && isK {
										fwd[g.Pkg.Pkg.Path()+"."+g.Name()] = kk
									}
								}
							}
						}
					}
				}
			}
			continue
		}
		for _, cd := range ir.CondsAt(r.Block()) {
			if call, ok := cd.V.(*ssa.Call); ok && cd.Truth && ir.IsCallTo(&call.Call, "errors.Is") {
				if g := globalLoad(call.Call.Args[1]); g != nil {
					fwd[g.Pkg.Pkg.Path()+"."+g.Name()] = k
				}
				break
			}
		}
	}
	// filterError: returns load of global G on the switch edge Code == K
	back := map[string]int64{}
	// the returns that yield a sentinel: filterError's own, and those of a private helper whose
	// result it hands on (a "which context error does this code stand for?" function)
	sentinelReturns := append([]*ssa.Return{}, ir.Returns(fe)...)
	for _, r := range ir.Returns(fe) {
		if call, ok := ir.NormCell(ir.ReturnResult(r, 0)).(*ssa.Call); ok {
			if h := call.Call.StaticCallee(); h != nil && c.P.InRepo[h] && !ir.Exported(h) && h.Signature.Results().Len() == 1 {
				sentinelReturns = append(sentinelReturns, ir.Returns(h)...)
			}
		}
	}
	isCodeOperand := func(x ssa.Value) bool {
		if u, isU := x.(*ssa.UnOp); isU {
			if fa, isFA := u.X.(*ssa.FieldAddr); isFA && ir.FieldOwner(fa) == c.M.ErrorT && ir.FieldVar(fa).Name() == "Code" {
				return true
			}
		}
		// the helper's parameter, given the error's code at its call
		if par, isPar := x.(*ssa.Parameter); isPar && par.Parent() != fe {
			for _, src := range c.P.SourcesStop(par, func(v ssa.Value) bool {
				u, isU := v.(*ssa.UnOp)
				if !isU {
					return false
				}
				_, isFA := u.X.(*ssa.FieldAddr)
				return isFA
			}) {
				u, isU := src.(*ssa.UnOp)
				if !isU {
					return false
				}
				fa, isFA := u.X.(*ssa.FieldAddr)
				if !isFA || ir.FieldOwner(fa) != c.M.ErrorT || ir.FieldVar(fa).Name() != "Code" {
					return false
				}
			}
			return true
		}
		return false
	}
	// (a result chosen into a local on earlier branches and returned at one shared exit is one
	// way per choice, with the outcomes of its edge)
	type retWay struct {
		r     *ssa.Return
		v     ssa.Value
		conds []ir.Cond
	}
	var ways []retWay
	for _, r := range sentinelReturns {
		var expand func(v ssa.Value, conds []ir.Cond, depth int)
		expand = func(v ssa.Value, conds []ir.Cond, depth int) {
			if phi, isPhi := v.(*ssa.Phi); isPhi && depth < 4 {
				for i, e := range phi.Edges {
					pred := phi.Block().Preds[i]
					expand(e, append(append([]ir.Cond{}, ir.CondsAt(pred)...), ir.EdgeConds(pred, phi.Block())...), depth+1)
				}
				return
			}
			ways = append(ways, retWay{r, v, conds})
		}
		expand(ir.ReturnResult(r, 0), ir.CondsAt(r.Block()), 0)
	}
	for _, w := range ways {
		r, v := w.r, w.v
		g := globalLoad(v)
		if g == nil {
			continue
		}
		for _, cd := range w.conds {
			if bo, ok := cd.V.(*ssa.BinOp); ok && bo.Op == token.EQL && cd.Truth {
				if k, isC := ir.ConstInt(bo.Y); isC {
					back[g.Pkg.Pkg.Path()+"."+g.Name()] = k
				}
			}
			// the sentinel is restored on the code alone: any further condition (the message
			// text, the data) would let a wrapped or annotated context error through as a bare *Error
			onCode := false
			if x, y, _, isRel := ir.Rel(cd); isRel {
				for _, pr := range [][2]ssa.Value{{x, y}, {y, x}} {
					if _, isC := ir.ConstInt(pr[1]); isC && isCodeOperand(pr[0]) {
						onCode = true
					}
				}
			}
			if x, _, isNil := ir.NilCompare(cd.V); isNil {
				if _, isP := x.(*ssa.Parameter); isP {
					onCode = true
				}
			}
			if !onCode {
				c.Fail("TABLE.ctxerr", fe, "sentinel restored on the code alone", r.Pos(), "the context sentinel %s is returned under a condition other than the error's code: a handler's wrapped or annotated context error would reach the caller as a bare *Error", g.Name())
			}
		}
	}
	// or a constant lookup table: `if err, ok := table[e.Code]; ok { return err }` with table a
	// package-level map initialised once from constants
	ir.Instrs(fe, func(ins ssa.Instruction) {
		lk, ok := ins.(*ssa.Lookup)
		if !ok {
			return
		}
		u, ok := lk.X.(*ssa.UnOp)
		if !ok {
			return
		}
		g, ok := u.X.(*ssa.Global)
		if !ok {
			return
		}
		// every write to the table anywhere in the repository (and in the package initialiser)
		all := append([]*ssa.Function{}, c.P.Funcs...)
		if ini := c.M.Pkg.Func("init"); ini != nil {
			all = append(all, ini)
		}
		for _, f := range all {
			ir.Instrs(f, func(i2 ssa.Instruction) {
				mu, ok := i2.(*ssa.MapUpdate)
				if !ok {
					return
				}
				isTable := false
				for _, src := range c.P.Sources(mu.Map) {
					if mk, ok := src.(*ssa.MakeMap); ok {
						for _, r := range *mk.Referrers() {
							if st, ok := r.(*ssa.Store); ok && st.Addr == ssa.Value(g) {
								isTable = true
							}
						}
					}
				}
				if lu, ok := mu.Map.(*ssa.UnOp); ok && lu.X == ssa.Value(g) {
					isTable = true
				}
				if !isTable {
					return
				}
				k, isC := ir.ConstInt(mu.Key)
				gv := globalLoad(mu.Value)
				if f.Name() != "init" || !isC || gv == nil {
					back["<table written outside its initialiser or with a computed entry at "+c.P.Pos(mu.Pos())+">"] = -1
					return
				}
				back[gv.Pkg.Pkg.Path()+"."+gv.Name()] = k
			})
		}
	})
	for _, name := range []string{"context.Canceled", "context.DeadlineExceeded"} {
		k1, ok1 := fwd[name]
		k2, ok2 := back[name]
		c.Check(ok1 && ok2 && k1 == k2, "TABLE.ctxerr", fe, name, fe.Pos(), fmt.Sprintf("ErrorCode maps %s to %d and filterError maps %d back to it", name, k1, k2),
			fmt.Sprintf("ErrorCode maps %s to %d (found=%v) but filterError maps %d (found=%v) back to it: the caller would not see the context's own error", name, k1, ok1, k2, ok2))
	}
	c.Check(len(back) == 2, "TABLE.ctxerr", fe, "no other code mapped", fe.Pos(), "filterError maps exactly two codes", fmt.Sprintf("filterError maps %d codes to sentinels (want 2)", len(back)))
}

func globalLoad(v ssa.Value) *ssa.Global {
	if mi, ok := v.(*ssa.MakeInterface); ok {
		v = mi.X
	}
	if u, ok := v.(*ssa.UnOp); ok && u.Op == token.MUL {
		if g, ok := u.X.(*ssa.Global); ok {
			return g
		}
	}
	return nil
}

var _ = strings.Join

// ruleWatcherContextPairing (client): the context handed to the watcher of
// pending entry i is the one created together with that entry: the two slices
// are appended in lock step from the two results of one call, and indexed by
// the same loop index at registration.
func ruleWatcherContextPairing(c *chk.Ctx) {
	for _, f := range pkgFuncs(c, c.M.Pkg) {
		ir.Instrs(f, func(ins ssa.Instruction) {
			mu, ok := ins.(*ssa.MapUpdate)
			if !ok || !chk.LoadsField(mu.Map, c.M.CPending) {
				return
			}
			var watcher *ssa.Go
			ir.Instrs(f, func(i2 ssa.Instruction) {
				if g, ok := i2.(*ssa.Go); ok && ir.InstrDominates(mu, g) {
					for _, a := range g.Call.Args {
						if ir.NormCell(a) == ir.NormCell(mu.Value) {
							watcher = g
						}
					}
				}
			})
			if watcher == nil {
				return // reported by TOKEN.register
			}
			// the Response: load of pends[i]; the ctx: load of pctxs[i]
			// (seen from the caller when registration is a private helper given both)
			rl, ok1 := c.P.Canon(mu.Value).(*ssa.UnOp)
			var cl *ssa.UnOp
			for _, a := range watcher.Call.Args {
				if u, ok := c.P.Canon(a).(*ssa.UnOp); ok && strings.HasSuffix(u.Type().String(), "context.Context") {
					cl = u
				}
			}
			good, why := false, "registration does not take the Response and its context from two slices at one index"
			if ok1 && cl != nil {
				ria, okr := rl.X.(*ssa.IndexAddr)
				cia, okc := cl.X.(*ssa.IndexAddr)
				if okr && okc && ria.Index == cia.Index {
					rv, _ := c.P.ElementValues(ria.X)
					cv, _ := c.P.ElementValues(cia.X)
					why = "the two slices are not filled in lock step from one call"
					if len(rv) == 1 && len(cv) == 1 {
						re, ok3 := rv[0].(*ssa.Extract)
						ce, ok4 := cv[0].(*ssa.Extract)
						// or the Response is built in place with the cancel function of the very
						// WithCancel call that made the context
						if al, isAl := rv[0].(*ssa.Alloc); isAl && ok4 && ce.Index == 0 {
							for _, ref := range *al.Referrers() {
								if fa, ok := ref.(*ssa.FieldAddr); ok && ir.FieldVar(fa) == c.M.RCancel {
									for _, r2 := range *fa.Referrers() {
										if s2, ok := r2.(*ssa.Store); ok {
											v := ir.NormCell(s2.Val)
											if ct, isCT := v.(*ssa.ChangeType); isCT {
												v = ir.NormCell(ct.X)
											}
											if e2, isE := v.(*ssa.Extract); isE && e2.Tuple == ce.Tuple && e2.Index == 1 {
												re, ok3 = e2, true
											}
										}
									}
								}
							}
						}
						if ok3 && ok4 && re.Tuple == ce.Tuple && re.Index != ce.Index && re.Block() == ce.Block() {
							// the appends are in the same block too
							var ra, ca *ssa.BasicBlock
							ir.Instrs(re.Parent(), func(i3 ssa.Instruction) {
								if call, ok := i3.(*ssa.Call); ok {
									if b, isB := call.Call.Value.(*ssa.Builtin); isB && b.Name() == "append" {
										els, _ := c.P.ElementValues(call.Call.Args[1])
										for _, e := range els {
											if e == ssa.Value(re) || e == rv[0] {
												ra = call.Block()
											}
											if e == ssa.Value(ce) {
												ca = call.Block()
											}
										}
									}
								}
							})
							if ra != nil && ra == ca {
								good = true
							} else {
								why = "the two appends are not in one basic block (they could get out of step)"
							}
						}
					}
				}
			}
			if !good {
				// or: Response and context travel together as two fields of one value of an
				// unexported struct type whose fields are only ever filled as a pair, from one
				// context.WithCancel whose cancel function goes into that Response
				if ok, w := pairedInStruct(c, mu.Value, watcher); ok {
					good = true
				} else if w != "" {
					why = w
				}
			}
			c.Check(good, "TOKEN.register", f, "watcher watches the entry's own context", watcher.Pos(), "Response i and context i come from the two results of one constructor call, appended in the same block, and are read at the same index when the watcher starts", "the context given to a pending entry's watcher is not provably the one created with that entry ("+why+"): a request could be completed by another request's context ending")
		})
	}
}

func isSameInstr(v ssa.Value, ins ssa.Instruction) bool {
	vi, ok := v.(ssa.Instruction)
	return ok && vi == ins
}

// intFormatArg: call formats an integer in base 10 (strconv.FormatInt / AppendInt / Itoa);
// returns the index of the number argument, or -1.
func intFormatArg(call *ssa.Call) int {
	if call == nil {
		return -1
	}
	switch {
	case ir.IsCallTo(&call.Call, "strconv.FormatInt") && len(call.Call.Args) == 2:
		if k, ok := ir.ConstInt(call.Call.Args[1]); ok && k == 10 {
			return 0
		}
	case ir.IsCallTo(&call.Call, "strconv.AppendInt") && len(call.Call.Args) == 3:
		if k, ok := ir.ConstInt(call.Call.Args[2]); ok && k == 10 && ir.IsNilConst(call.Call.Args[0]) {
			return 1
		}
	case ir.IsCallTo(&call.Call, "strconv.Itoa"):
		return 0
	}
	return -1
}

// projection: v is field #idx of base (a struct value, or a local struct variable).
func projection(v ssa.Value) (base ssa.Value, fv *types.Var, ok bool) {
	v = ir.NormCell(v)
	switch x := v.(type) {
	case *ssa.Field:
		if st, isSt := x.X.Type().Underlying().(*types.Struct); isSt && x.Field < st.NumFields() {
			return ir.NormCell(x.X), st.Field(x.Field), true
		}
	case *ssa.UnOp:
		if fa, isFA := x.X.(*ssa.FieldAddr); isFA && x.Op == token.MUL {
			return fa.X, ir.FieldVar(fa), true
		}
	}
	return nil, nil, false
}

// pairedInStruct: the Response registered (resp) and the context argument of
// the watcher are two fields of one struct value, and those two fields are
// only ever written together, with the context coming from a WithCancel call
// whose cancel function is stored into that same Response.
func pairedInStruct(c *chk.Ctx, resp ssa.Value, watcher *ssa.Go) (bool, string) {
	rb, rf, ok1 := projection(resp)
	if !ok1 {
		return false, ""
	}
	var cb ssa.Value
	var cf *types.Var
	for _, a := range watcher.Call.Args {
		if strings.HasSuffix(a.Type().String(), "context.Context") {
			if b, f, ok := projection(a); ok {
				cb, cf = b, f
			}
		}
	}
	if cf == nil || !(rb == cb || ir.SameValue(rb, cb)) {
		return false, "the watcher's context and the registered Response are not two fields of one value"
	}
	// every write of the two fields: same base, same block, one WithCancel
	cs, rs := c.P.FieldStores(cf), c.P.FieldStores(rf)
	if len(cs) == 0 || len(cs) != len(rs) {
		return false, "the context field and the Response field of the pair are not written together"
	}
	for _, st := range cs {
		var mate *ssa.Store
		for _, r := range rs {
			if r.Block() == st.Block() && r.Addr.(*ssa.FieldAddr).X == st.Addr.(*ssa.FieldAddr).X {
				mate = r
			}
		}
		if mate == nil {
			return false, "a context is stored into the pair without its Response"
		}
		e, ok := ir.NormCell(st.Val).(*ssa.Extract)
		if !ok || e.Index != 0 {
			return false, "the paired context is not the result of a context.WithCancel call"
		}
		call, ok := e.Tuple.(*ssa.Call)
		if !ok || !ir.IsCallTo(&call.Call, "context.WithCancel", "context.WithTimeout", "context.WithDeadline") {
			return false, "the paired context is not the result of a context.WithCancel call"
		}
		al, ok := ir.NormCell(mate.Val).(*ssa.Alloc)
		if !ok {
			return false, "the paired Response is not created together with the context"
		}
		tied := false
		for _, ref := range *al.Referrers() {
			if fa, ok := ref.(*ssa.FieldAddr); ok && ir.FieldVar(fa) == c.M.RCancel {
				for _, r2 := range *fa.Referrers() {
					if s2, ok := r2.(*ssa.Store); ok {
						v := ir.NormCell(s2.Val)
						if ct, isCT := v.(*ssa.ChangeType); isCT {
							v = ir.NormCell(ct.X)
						}
						if ir.IsExtractOf(v, call, 1) {
							tied = true
						}
					}
				}
			}
		}
		if !tied {
			return false, "the cancel function of the paired context is not the one stored in the paired Response"
		}
	}
	return true, ""
}

func isSendInvoke(call *ssa.Call) bool {
	return call != nil && call.Call.IsInvoke() && call.Call.Method.Name() == "Send"
}

// nilMeansSendOK: call invokes a private helper with a single error result all
// of whose returns are either the channel Send's own result, or a value known
// to be non-nil where it is returned: so a nil result means Send returned nil.
func nilMeansSendOK(call *ssa.Call) bool {
	h := call.Call.StaticCallee()
	if h == nil || ir.Exported(h) || len(h.Blocks) == 0 || h.Signature.Results().Len() != 1 {
		return false
	}
	viaSend := false
	for _, r := range ir.Returns(h) {
		v := ir.NormCell(ir.ReturnResult(r, 0))
		if sc, ok := v.(*ssa.Call); ok && isSendInvoke(sc) {
			viaSend = true
			continue
		}
		if nonNilValue(v) {
			// a load of a field is "non-nil" only if the branch outcomes at the return say so
			if u, isU := v.(*ssa.UnOp); isU {
				if _, isGlobal := u.X.(*ssa.Global); isGlobal {
					continue
				}
			} else {
				continue
			}
		}
		same := func(y ssa.Value) bool {
			if y == v {
				return true
			}
			// the same field read again
			return ir.SameValue(y, v) || sameFieldLoad(y, v)
		}
		if ir.ProvesNonNil(ir.CondsAt(r.Block()), same) {
			continue
		}
		return false
	}
	return viaSend
}

// sameFieldLoad: two loads of the same field of the same base value.
func sameFieldLoad(a, b ssa.Value) bool {
	ua, ok1 := a.(*ssa.UnOp)
	ub, ok2 := b.(*ssa.UnOp)
	if !ok1 || !ok2 || ua.Op != token.MUL || ub.Op != token.MUL {
		return false
	}
	fa, ok1 := ua.X.(*ssa.FieldAddr)
	fb, ok2 := ub.X.(*ssa.FieldAddr)
	return ok1 && ok2 && fa.Field == fb.Field && ir.NormCell(fa.X) == ir.NormCell(fb.X)
}

// idOfResponse: k is the id under which the Response r was created: r.id read
// back, the value stored into a fresh Response's id field, or — when both are
// fields of one struct value (a "pending call" record) — the two fields are
// always written together from values that are so related. Parameters are
// followed to the arguments of every call site.
func idOfResponse(c *chk.Ctx, k, r ssa.Value, depth int) bool {
	if depth > 4 {
		return false
	}
	k, r = ir.NormCell(k), ir.NormCell(r)
	if ct, ok := k.(*ssa.ChangeType); ok {
		k = ir.NormCell(ct.X)
	}
	// k == r.id
	if b, fv, ok := ir.FieldRead(k); ok && fv == c.M.RID && (ir.NormCell(b) == r || ir.SameValue(b, r)) {
		return true
	}
	// r is a fresh Response whose id field was stored with k
	if al, ok := r.(*ssa.Alloc); ok {
		for _, ref := range *al.Referrers() {
			if fa, ok := ref.(*ssa.FieldAddr); ok && ir.FieldVar(fa) == c.M.RID {
				for _, r2 := range *fa.Referrers() {
					if st, ok := r2.(*ssa.Store); ok && (ir.NormCell(st.Val) == k || ir.SameValue(st.Val, k)) {
						return true
					}
				}
			}
		}
	}
	// two fields of one record, always written together from related values
	kb, kf, ok1 := projection(k)
	rb, rf, ok2 := projection(r)
	if ok1 && ok2 && kf != rf && (kb == rb || ir.SameValue(kb, rb)) {
		ks, rs := c.P.FieldStores(kf), c.P.FieldStores(rf)
		if len(ks) > 0 && len(ks) == len(rs) {
			all := true
			for _, st := range ks {
				var mate *ssa.Store
				for _, x := range rs {
					if x.Block() == st.Block() && x.Addr.(*ssa.FieldAddr).X == st.Addr.(*ssa.FieldAddr).X {
						mate = x
					}
				}
				if mate == nil || !idOfResponse(c, st.Val, mate.Val, depth+1) {
					all = false
				}
			}
			if all {
				return true
			}
		}
	}
	// both handed down from the caller
	if kp, ok := k.(*ssa.Parameter); ok {
		if rp, ok := r.(*ssa.Parameter); ok && kp.Parent() == rp.Parent() {
			f := kp.Parent()
			ki, ri := -1, -1
			for i, p := range f.Params {
				if p == kp {
					ki = i
				}
				if p == rp {
					ri = i
				}
			}
			sites := c.P.Callers(f)
			if ki >= 0 && ri >= 0 && len(sites) > 0 && !c.P.UsedAsValue(f) {
				all := true
				for _, s := range sites {
					args := s.Instr.Common().Args
					if ki >= len(args) || ri >= len(args) || !idOfResponse(c, args[ki], args[ri], depth+1) {
						all = false
					}
				}
				return all
			}
		}
	}
	return false
}

// recordParamField: v reads field k of a struct-typed parameter of its
// function (a value receiver included, directly or through the local it was
// spilled into).
func recordParamField(v ssa.Value) (*ssa.Parameter, int, bool) {
	var base ssa.Value
	k := 0
	switch x := v.(type) {
	case *ssa.Field:
		base, k = x.X, x.Field
	case *ssa.UnOp:
		fa, ok := x.X.(*ssa.FieldAddr)
		if !ok || x.Op != token.MUL {
			return nil, 0, false
		}
		base, k = fa.X, fa.Field
		if al, isAl := base.(*ssa.Alloc); isAl {
			sts := ir.CellStores(al)
			if len(sts) != 1 {
				return nil, 0, false
			}
			base = sts[0].Val
		}
	default:
		return nil, 0, false
	}
	prm, ok := ir.NormCell(base).(*ssa.Parameter)
	if !ok {
		return nil, 0, false
	}
	if _, isStruct := prm.Type().Underlying().(*types.Struct); !isStruct {
		return nil, 0, false
	}
	return prm, k, true
}
