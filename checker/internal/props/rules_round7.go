package props

import (
	"go/token"
	"go/types"
	"strings"

	"golang.org/x/tools/go/ssa"

	"jrpcvet/internal/chk"
	"jrpcvet/internal/facts"
	"jrpcvet/internal/ir"
)

// Rules added after the seventh round of independently seeded breakages. Each
// is a structural necessary condition of the property it is hooked under.

// ruleFramingSingleConsumer (C11): an in-memory framing delivers the records
// its peer sends to Recv, in order: nothing but a Recv method receives from a
// channel-typed field of a framing, and the framings start no goroutines (a
// second consumer would take records away from Recv).
func ruleFramingSingleConsumer(c *chk.Ctx) {
	n := 0
	isFieldChan := func(v ssa.Value) bool {
		if _, fv, isF := ir.FieldRead(v); isF && fv != nil {
			_, isCh := fv.Type().Underlying().(*types.Chan)
			return isCh
		}
		u, ok := v.(*ssa.UnOp)
		if !ok || u.Op != token.MUL {
			if f, isF := v.(*ssa.Field); isF {
				_, isCh := f.Type().Underlying().(*types.Chan)
				return isCh
			}
			return false
		}
		_, isFA := u.X.(*ssa.FieldAddr)
		_, isCh := u.Type().Underlying().(*types.Chan)
		return isFA && isCh
	}
	for _, f := range pkgFuncs(c, c.M.ChanPkg) {
		root := ir.Root(f)
		inRecv := ir.BaseName(root) == "Recv" && root.Signature.Recv() != nil
		if !inRecv {
			// a private helper reached only from Recv methods is part of them
			for _, rm := range chanMethods(c, "Recv") {
				if c.P.InExt(rm, root) {
					inRecv = true
				}
			}
		}
		ir.Instrs(f, func(ins ssa.Instruction) {
			switch x := ins.(type) {
			case *ssa.Go:
				n++
				c.Fail("WHO.chanstate", f, "framings start no goroutines", x.Pos(), "a framing starts a goroutine: records could be consumed, or written, behind the back of Send and Recv")
			case *ssa.UnOp:
				if x.Op == token.ARROW && isFieldChan(x.X) {
					n++
					c.Check(inRecv && f.Parent() == nil, "WHO.chanstate", f, "records are received by Recv only", x.Pos(), "the framing's channel is received from in its Recv method", "a framing's record channel is received from outside its Recv method: records would be taken away from the receiver")
				}
			case *ssa.Range:
				if _, isCh := x.X.Type().Underlying().(*types.Chan); isCh && isFieldChan(x.X) {
					n++
					c.Check(inRecv && f.Parent() == nil, "WHO.chanstate", f, "records are received by Recv only", x.Pos(), "the framing's channel is ranged over in its Recv method", "a framing's record channel is drained outside its Recv method: records would be taken away from the receiver")
				}
			case *ssa.Select:
				for _, st := range x.States {
					if st.Dir == types.RecvOnly && isFieldChan(st.Chan) {
						n++
						c.Check(inRecv && f.Parent() == nil, "WHO.chanstate", f, "records are received by Recv only", x.Pos(), "the framing's channel is received from in its Recv method", "a framing's record channel is received from outside its Recv method")
					}
				}
			}
		})
	}
	if n == 0 {
		c.Undecided("WHO.chanstate", nil, "records are received by Recv only", 0, "no receive from a framing's channel found (confirmed by hand: 1, the in-memory framing)")
	}
}

// ruleQueryFromParsedForm (C19): the query parsers take their parameters from
// the request's parsed form — ParseForm with its error returned — and from no
// lenient source: url.Values obtained through URL.Query() silently drops
// malformed pairs, so a query that cannot be parsed would be answered 200.
func ruleQueryFromParsedForm(c *chk.Ctx) {
	n := 0
	for _, f := range pkgFuncs(c, c.M.JhttpPkg) {
		if f.Parent() != nil || !ir.Exported(f) || f.Signature.Recv() != nil || !strings.HasPrefix(ir.BaseName(f), "Parse") {
			continue
		}
		var pf *ssa.Call
		lenient := ""
		// the parser and the private functions it calls (two parsers may share a helper)
		var scope []*ssa.Function
		seenF := map[*ssa.Function]bool{}
		var visit func(g *ssa.Function, depth int)
		visit = func(g *ssa.Function, depth int) {
			if g == nil || seenF[g] || depth > 2 || !c.P.InRepo[g] {
				return
			}
			seenF[g] = true
			scope = append(scope, g)
			ir.Calls(g, func(ci ssa.CallInstruction) {
				if h := ci.Common().StaticCallee(); h != nil && !ir.Exported(h) {
					visit(h, depth+1)
				}
			})
		}
		visit(f, 0)
		for _, g := range scope {
			ir.Instrs(g, func(ins ssa.Instruction) {
				call, ok := ins.(*ssa.Call)
				if !ok {
					return
				}
				if ir.IsCallTo(&call.Call, "(*net/http.Request).ParseForm") {
					pf = call
				}
				if ir.IsCallTo(&call.Call, "(*net/url.URL).Query") {
					lenient = c.P.Pos(call.Pos())
				}
			})
		}
		if pf == nil && lenient == "" {
			continue
		}
		n++
		// ParseForm on every path from the entry, its failure returned
		okAll := false
		if pf != nil && len(f.Blocks) > 0 {
			first := f.Blocks[0].Instrs[0]
			goal := c.P.LiftGoal(func(i ssa.Instruction) bool { return i == ssa.Instruction(pf) }, 0)
			okAll = goal(first)
			if !okAll {
				okAll, _ = ir.PathQuery{Goal: goal}.MustReach(first)
			}
		}
		okErr := false
		if pf != nil {
			var helperCall *ssa.Call
			for _, r := range ir.Returns(pf.Parent()) {
				last := ir.ReturnResult(r, len(r.Results)-1)
				if ir.NormCell(last) == ssa.Value(pf) && ir.ProvesNonNil(ir.CondsAt(r.Block()), func(v ssa.Value) bool { return ir.NormCell(v) == ssa.Value(pf) }) {
					okErr = true
				}
			}
			if okErr && pf.Parent() != f {
				// the helper's error handed on by the parser
				okErr = false
				ir.Instrs(f, func(ins ssa.Instruction) {
					if call, ok := ins.(*ssa.Call); ok && call.Call.StaticCallee() == pf.Parent() {
						helperCall = call
					}
				})
				if helperCall != nil {
					ei := pf.Parent().Signature.Results().Len() - 1
					for _, r := range ir.Returns(f) {
						last := ir.NormCell(ir.ReturnResult(r, len(r.Results)-1))
						isErr := func(v ssa.Value) bool {
							return ir.IsExtractOf(ir.NormCell(v), helperCall, ei) || ir.NormCell(v) == ssa.Value(helperCall)
						}
						if isErr(last) && ir.ProvesNonNil(ir.CondsAt(r.Block()), isErr) {
							okErr = true
						}
					}
				}
			}
		}
		c.Check(okAll && okErr && lenient == "", "TABLE.query", f, "parameters come from the parsed form", f.Pos(), "ParseForm is called on every path and its error returned; no lenient query accessor is used", "the query parser does not take its parameters from ParseForm on every path with the error returned (lenient accessor at "+lenient+"): a query that cannot be parsed would be answered as if it were well formed")
	}
	if n < 2 {
		c.Undecided("TABLE.query", nil, "parameters come from the parsed form", 0, "found %d query parsers calling ParseForm (confirmed by hand: 2)", n)
	}
}

// ruleGetterForwardsRawResult (C19): the Getter answers with the call's JSON
// result: the value handed to the 200 writer is the raw result bytes, not a
// value decoded into Go types and encoded again (numbers would go through
// float64).
func ruleGetterForwardsRawResult(c *chk.Ctx) {
	f := jhttpFunc(c, "(Getter).ServeHTTP")
	if f == nil {
		c.Undecided("PROV.raw", nil, "ruleGetterForwardsRawResult: anchor", 0, "the code this rule is anchored in was not found (f == nil)")
		return
	}
	n := 0
	for _, g := range c.P.Ext(f) {
		for _, sw := range statusWrites(c, g) {
			if sphi, isPhi := sw.arg.(*ssa.Phi); isPhi {
				// status and body chosen together on earlier branches, written at one shared
				// point: on every edge that chooses 200 the body chosen is the raw result
				var walk func(sp *ssa.Phi, bodies []*ssa.Phi, depth int)
				walk = func(sp *ssa.Phi, bodies []*ssa.Phi, depth int) {
					for i, e := range sp.Edges {
						var inner []*ssa.Phi
						var vals []ssa.Value
						for _, bp := range bodies {
							if i < len(bp.Edges) {
								vals = append(vals, bp.Edges[i])
								if ip, ok := bp.Edges[i].(*ssa.Phi); ok {
									inner = append(inner, ip)
								}
							}
						}
						if ip, ok := e.(*ssa.Phi); ok && depth < 4 {
							var same []*ssa.Phi
							for _, bp := range inner {
								if bp.Block() == ip.Block() {
									same = append(same, bp)
								}
							}
							walk(ip, same, depth+1)
							continue
						}
						if k, isC := ir.ConstInt(e); !isC || k != 200 {
							continue
						}
						n++
						raw := false
						for _, v := range vals {
							if mi, isMI := ir.NormCell(v).(*ssa.MakeInterface); isMI && isByteSlice(mi.X.Type()) {
								raw = true
							}
						}
						c.Check(raw, "PROV.raw", g, "result forwarded as raw JSON", sw.ci.Pos(), "the body chosen with status 200 is the result's own bytes (json.RawMessage)", "the body written with 200 is not the call result's own bytes: a result decoded into Go values and encoded again loses number precision")
					}
				}
				var bodies []*ssa.Phi
				for _, a := range sw.ci.Common().Args {
					if bp, ok := a.(*ssa.Phi); ok && bp != sphi && bp.Block() == sphi.Block() {
						bodies = append(bodies, bp)
					}
				}
				walk(sphi, bodies, 0)
				continue
			}
			if !sw.isC || sw.code != 200 {
				continue
			}
			n++
			raw := false
			for _, a := range sw.ci.Common().Args {
				mi, isMI := ir.NormCell(a).(*ssa.MakeInterface)
				if !isMI {
					continue
				}
				if isByteSlice(mi.X.Type()) {
					raw = true
				}
			}
			c.Check(raw, "PROV.raw", g, "result forwarded as raw JSON", sw.ci.Pos(), "the body written with 200 is the result's own bytes (json.RawMessage)", "the body written with 200 is not the call result's own bytes: a result decoded into Go values and encoded again loses number precision")
		}
	}
	if n == 0 {
		c.Undecided("PROV.raw", f, "result forwarded as raw JSON", f.Pos(), "no 200 write found in the Getter")
	}
}

// ruleDupTableHoldsOnlyIDs (C07/C01/C18): the per-batch table that detects a
// repeated id records only members that have one: a store into it is governed
// by id != "" (two notifications must not be taken for duplicates of each other).
func ruleDupTableHoldsOnlyIDs(c *chk.Ctx, d *dispatchModel) {
	n := 0
	c.P.ExtInstrs(d.checkAssign, func(ins ssa.Instruction) {
		mu, ok := ins.(*ssa.MapUpdate)
		if !ok {
			return
		}
		mt, isMap := mu.Map.Type().Underlying().(*types.Map)
		if !isMap {
			return
		}
		if b, isB := mt.Key().Underlying().(*types.Basic); !isB || b.Kind() != types.String {
			return
		}
		pt, isPtr := mt.Elem().(*types.Pointer)
		if !isPtr || types.Unalias(pt.Elem()) != types.Type(c.M.Task) {
			return
		}
		n++
		key := ir.NormCell(mu.Key)
		guarded := c.P.AllContexts(mu, func(f *ssa.Function) bool { return f == d.checkAssign }, func(cs []ir.Cond) bool {
			for _, cd := range ir.NormConds(cs) {
				x, y, op, isRel := ir.Rel(cd)
				if !isRel || op != token.NEQ {
					continue
				}
				same := func(v ssa.Value) bool {
					return ir.NormCell(v) == key || c.P.Canon(v) == c.P.Canon(key) || ir.SameValue(v, key) || ir.SameFieldLoad(v, key)
				}
				if s, isS := constString(y); isS && s == "" && same(x) {
					return true
				}
				if s, isS := constString(x); isS && s == "" && same(y) {
					return true
				}
			}
			return false
		})
		c.Check(guarded, "PAIR.reserve", mu.Parent(), "duplicate table records only members with an id", mu.Pos(), "a member is entered into the per-batch duplicate table only on its id != \"\" edge", "a member without an id can be entered into the per-batch duplicate table: the second notification of a batch would be refused as a duplicate of the first and its handler never run")
		// the table exists for every batch, whatever its size: it is never the nil map, and no
		// test of the table itself (or of the batch's length) decides whether a member is recorded
		missing := ""
		for _, src := range c.P.Sources(mu.Map) {
			if ir.IsNilConst(src) {
				missing = "the table can be nil"
			}
		}
		for _, cd := range c.P.CondsWithin(mu, d.checkAssign) {
			if x, _, isCmp := ir.NilCompare(cd.V); isCmp {
				if _, isMap := x.Type().Underlying().(*types.Map); isMap && missing == "" {
					missing = "recording depends on a nil test of the table"
				}
			}
		}
		c.Check(missing == "", "PAIR.reserve", mu.Parent(), "duplicate table kept for every batch", mu.Pos(), "the per-batch duplicate table is always allocated and every member with an id is recorded in it", "a member with an id is not always recorded in the per-batch duplicate table ("+missing+"): for batches of some sizes two members with the same id would both be accepted and both handlers run")
	})
	_ = n
}

// ruleAccumulatorIsPerCall (C12): the delimiter receiver's accumulation buffer
// is a local of the receiving call. A buffer that lives in the channel survives
// the error exits: the unterminated final record would be delivered again by
// every later Recv.
func ruleAccumulatorIsPerCall(c *chk.Ctx) {
	for _, f := range chanMethods(c, "Recv") {
		var reads []*ssa.Call
		c.P.ExtInstrs(f, func(ins ssa.Instruction) {
			if call, ok := ins.(*ssa.Call); ok && ir.IsCallTo(&call.Call, "(*bufio.Reader).ReadSlice") {
				reads = append(reads, call)
			}
		})
		if len(reads) == 0 {
			continue
		}
		c.P.ExtCalls(f, func(ci ssa.CallInstruction) {
			if !ir.IsCallTo(ci.Common(), "(*bytes.Buffer).Write") {
				return
			}
			fromRead := false
			for _, rs := range reads {
				if ir.IsExtractOf(ir.NormCell(ci.Common().Args[1]), rs, 0) || ir.IsExtractOf(c.P.Canon(ci.Common().Args[1]), rs, 0) {
					fromRead = true
				}
			}
			if !fromRead {
				return
			}
			// the buffer written: a local of this call (directly, or a field of a local record)
			_, local := bufferKey(c, ci.Common().Args[0])
			if local {
				if k, _ := bufferKey(c, ci.Common().Args[0]); k.al == nil || k.al.Heap && allocEscapes(k.al) {
					local = false
				}
			}
			c.Check(local, "PAIR.accumulate", f, "accumulation buffer is per call", ci.Pos(), "the chunks of a record are accumulated in a buffer local to the receiving call", "the chunks of a record are accumulated in a buffer that outlives the receiving call: what an error exit leaves in it is delivered again by the next Recv")
		})
	}
}

// allocEscapes: a heap-allocated local is stored somewhere or returned.
func allocEscapes(al *ssa.Alloc) bool {
	for _, r := range *al.Referrers() {
		switch x := r.(type) {
		case *ssa.Store:
			if x.Val == ssa.Value(al) {
				return true
			}
		case *ssa.Return, *ssa.MakeInterface, *ssa.Send, *ssa.MapUpdate:
			return true
		}
	}
	return false
}

// ruleLengthIsDecimal (C12): the Content-Length is read as a decimal number.
func ruleLengthIsDecimal(c *chk.Ctx) {
	for _, f := range pkgFuncs(c, c.M.ChanPkg) {
		ir.Instrs(f, func(ins ssa.Instruction) {
			call, ok := ins.(*ssa.Call)
			if !ok || !ir.IsCallTo(&call.Call, "strconv.ParseInt", "strconv.ParseUint") {
				return
			}
			k, isK := ir.ConstInt(call.Call.Args[1])
			c.Check(isK && k == 10, "PROV.length", f, "length parsed as decimal", call.Pos(), "the length is parsed in base 10", "the length is not parsed in base 10: with base 0 a zero-padded length is read as octal and 0x/0b/underscore spellings are accepted, so the record is cut at the wrong byte")
		})
	}
}

// ruleCancelEntryHasNoOtherEffect (C07): the exported cancellation entry point
// does nothing but cancel (and release) the entry it finds: it stores nothing
// into the server that could act on a later request with the same id.
func ruleCancelEntryHasNoOtherEffect(c *chk.Ctx) {
	for _, f := range pkgFuncs(c, c.M.Pkg) {
		if f.Parent() != nil || !ir.Exported(f) || ir.RecvNamed(f) != c.M.Server || ir.BaseName(f) != "CancelRequest" {
			continue
		}
		bad := ""
		c.P.ExtInstrs(f, func(ins ssa.Instruction) {
			switch x := ins.(type) {
			case *ssa.MapUpdate:
				bad = c.P.Pos(x.Pos())
			case *ssa.Store:
				if fa, ok := x.Addr.(*ssa.FieldAddr); ok && ir.FieldOwner(fa) == c.M.Server {
					bad = c.P.Pos(x.Pos())
				}
			}
		})
		c.Check(bad == "", "PROV.cancel", f, "cancellation leaves nothing behind", f.Pos(), "the cancel entry point stores nothing into the server (it only cancels and releases the entry it finds)", "the cancel entry point records state in the server (at "+bad+"): a cancellation that found nothing in flight could later hit a different request that reuses the id")
	}
}

// ruleSettersMutateReceiver (C15): the FuncInfo option setters act on the
// FuncInfo they are called on, in statement form as well as chained: they
// store the flag into the receiver on every path and return the receiver.
func ruleSettersMutateReceiver(c *chk.Ctx) {
	n := 0
	for _, f := range pkgFuncs(c, c.M.HandlerPkg) {
		if f.Parent() != nil || !ir.Exported(f) || f.Signature.Recv() == nil || f.Synthetic != "" || len(f.Params) != 2 {
			continue
		}
		rt := f.Signature.Recv().Type()
		if f.Signature.Results().Len() != 1 || !types.Identical(f.Signature.Results().At(0).Type(), rt) {
			continue
		}
		if b, isB := f.Params[1].Type().Underlying().(*types.Basic); !isB || b.Kind() != types.Bool {
			continue
		}
		if _, isPtr := rt.(*types.Pointer); !isPtr {
			continue
		}
		n++
		retOK := true
		for _, r := range ir.Returns(f) {
			if ir.NormCell(ir.ReturnResult(r, 0)) != ssa.Value(f.Params[0]) {
				retOK = false
			}
		}
		isStore := func(i ssa.Instruction) bool {
			st, ok := i.(*ssa.Store)
			if !ok {
				return false
			}
			fa, ok := st.Addr.(*ssa.FieldAddr)
			return ok && ir.NormCell(fa.X) == ssa.Value(f.Params[0]) && ir.NormCell(st.Val) == ssa.Value(f.Params[1])
		}
		stored := false
		if len(f.Blocks) > 0 {
			first := f.Blocks[0].Instrs[0]
			stored = isStore(first)
			if !stored {
				stored, _ = ir.PathQuery{Goal: isStore}.MustReach(first)
			}
		}
		c.Check(retOK && stored, "WHO.snapshot", f, "setter acts on its receiver", f.Pos(), "the flag is stored into the receiver on every path and the receiver is returned", "the option setter does not store the flag into its receiver on every path, or returns something else: a FuncInfo configured in statement form would be wrapped with the old setting")
	}
	if n < 2 {
		c.Undecided("WHO.snapshot", nil, "setter acts on its receiver", 0, "found %d FuncInfo option setters (confirmed by hand: 2)", n)
	}
}

// ruleResultOnlyWithoutError (C13/C14): the response builder gives a reply a
// result member exactly where the task has no error — decided by the error
// being nil, not by its code (an error whose code happens to be NoError is
// still an error).
func ruleResultOnlyWithoutError(c *chk.Ctx, d *dispatchModel) {
	n := 0
	c.P.ExtInstrs(d.responses, func(ins ssa.Instruction) {
		st, ok := ins.(*ssa.Store)
		if !ok || !chk.IsField(st.Addr, c.M.JR) {
			return
		}
		n++
		good := false
		errNil := func(conds []ir.Cond) bool {
			for _, cd := range conds {
				if x, eq, isCmp := ir.NilCompare(cd.V); isCmp && eq == cd.Truth {
					if _, fv, isT := taskFieldLoad(c, x); isT && fv == c.M.TErr {
						return true
					}
				}
			}
			return false
		}
		good = errNil(c.P.CondsWithin(st, d.responses))
		// the result may have been chosen into a local on earlier branches and be stored at a
		// shared point: then every way that yields a result is on the err == nil edge
		if _, isPhi := st.Val.(*ssa.Phi); isPhi && !good {
			all, some := true, false
			for _, w := range storedWays(c, st, d.responses) {
				if ir.IsNilConst(w.val) {
					continue
				}
				some = true
				if !errNil(w.conds) {
					all = false
				}
			}
			good = all && some
		}
		// the value may be one result of a private outcome helper: then every return of the
		// helper that yields a result (not the nil constant) is on its err == nil edge
		if e, isE := st.Val.(*ssa.Extract); isE && !good {
			if call, isCall := e.Tuple.(*ssa.Call); isCall {
				if g := call.Call.StaticCallee(); g != nil && c.P.InRepo[g] && !ir.Exported(g) && e.Index < g.Signature.Results().Len() {
					all, some := true, false
					for _, r := range ir.Returns(g) {
						if ir.IsNilConst(ir.ReturnResult(r, e.Index)) {
							continue
						}
						some = true
						if !errNil(ir.CondsAt(r.Block())) {
							all = false
						}
					}
					good = all && some
				}
			}
		}
		c.Check(good, "PROV.errmap", st.Parent(), "result member only for err == nil", st.Pos(), "the result member is set on the task.err == nil edge", "the result member is set on an edge that is not task.err == nil: a failed call whose error maps to a harmless code would be answered with neither result nor error")
	})
	if n == 0 {
		c.Undecided("PROV.errmap", d.responses, "result member only for err == nil", d.responses.Pos(), "no store into the result member found in the response builder")
	}
}

// ruleStopCauseIsTheArgument (C08): the cause recorded at stop is the one the
// stop function was given: the first cause wins, and nothing that happens
// while stopping (a failing Close) replaces it.
func ruleStopCauseIsTheArgument(c *chk.Ctx, owner string) {
	stop := stopFunc(c, owner)
	if stop == nil {
		c.Undecided("RUN.coupled", nil, "ruleStopCauseIsTheArgument: anchor", 0, "the code this rule is anchored in was not found (stop == nil)")
		return
	}
	errF := c.M.SErr
	if owner == "client" {
		errF = c.M.CErr
	}
	var cause *ssa.Parameter
	for _, p := range stop.Params {
		if p.Type().String() == "error" {
			cause = p
		}
	}
	if cause == nil {
		c.Undecided("RUN.coupled", nil, "ruleStopCauseIsTheArgument: anchor", 0, "the code this rule is anchored in was not found (cause == nil)")
		return
	}
	n := 0
	c.P.ExtInstrs(stop, func(ins ssa.Instruction) {
		st, ok := ins.(*ssa.Store)
		if !ok || !chk.IsField(st.Addr, errF) {
			return
		}
		n++
		v := c.P.Canon(st.Val)
		c.Check(v == ssa.Value(cause), "RUN.coupled", st.Parent(), owner+" recorded cause is the given one", st.Pos(), "the stop function records exactly the cause it was called with", "the stop function can record something other than the cause it was called with (an error met while stopping): the status would not report what actually ended the "+owner)
	})
}

// ruleReaderDoesNotWait (C04/C05): between two receives the client's reader
// blocks on nothing that its own deliveries could be holding up: no channel
// operation, semaphore, or wait in the reader itself (the deliveries run on
// goroutines of their own precisely so that the reader can go on receiving).
func ruleReaderDoesNotWait(c *chk.Ctx) {
	rd, _ := readerOf(c, "client")
	if rd == nil {
		c.Undecided("GO.nowait", nil, "ruleReaderDoesNotWait: anchor", 0, "the code this rule is anchored in was not found (rd == nil)")
		return
	}
	bad := ""
	// what the reader's own goroutine runs: the reader and what it calls (not what it starts with go)
	seen := map[*ssa.Function]bool{}
	var own []*ssa.Function
	var visit func(g *ssa.Function, depth int)
	visit = func(g *ssa.Function, depth int) {
		if g == nil || seen[g] || depth > 4 || !c.P.InRepo[g] {
			return
		}
		seen[g] = true
		own = append(own, g)
		ir.Instrs(g, func(ins ssa.Instruction) {
			ci, ok := ins.(ssa.CallInstruction)
			if !ok {
				return
			}
			if _, isGo := ins.(*ssa.Go); isGo {
				return
			}
			for _, h := range calleesOf(c, ci) {
				if !ir.Exported(h) || h.Parent() != nil {
					visit(h, depth+1)
				}
			}
		})
	}
	visit(rd, 0)
	for _, g := range own {
		ir.Instrs(g, func(ins ssa.Instruction) {
			switch x := ins.(type) {
			case *ssa.Send:
				bad = c.P.Pos(x.Pos())
			case *ssa.Select:
				if x.Blocking {
					bad = c.P.Pos(x.Pos())
				}
			case *ssa.UnOp:
				if x.Op == token.ARROW {
					bad = c.P.Pos(x.Pos())
				}
			case *ssa.Call:
				name := ir.CalleeName(&x.Call)
				if strings.HasSuffix(name, ".Acquire") || strings.HasSuffix(name, "(*sync.WaitGroup).Wait") || strings.HasSuffix(name, "(*sync.Cond).Wait") {
					bad = c.P.Pos(x.Pos())
				}
			}
		})
	}
	c.Check(bad == "", "GO.nowait", rd, "client reader blocks only on Recv", rd.Pos(), "the reader performs no channel operation, semaphore acquisition or wait between receives", "the client's reader can block (at "+bad+") on something other than the next record: with deliveries waiting for the lock a sender holds across Send, reader, deliveries, sender and peer can end up waiting for each other")
}

// ruleLockBalanced (C05/C08): a function that takes the owner's lock gives it
// back on every path: from each Lock no path reaches a return of the function
// without passing an Unlock (direct, through a callee that operates the lock,
// or deferred). A lock kept on one error exit blocks every later operation of
// the owner, Close included.
func ruleLockBalanced(c *chk.Ctx, owner string) {
	lock := ownerLock(c, owner)
	n := 0
	deferredRelease := func(i ssa.Instruction) bool {
		d, ok := i.(*ssa.Defer)
		if !ok {
			return false
		}
		if op, lp, ok := c.F.MutexOp(&d.Call); ok {
			return op == "unlock" && lp == lock
		}
		gs, _ := c.P.Callees(d)
		for _, g := range gs {
			if fi := c.F.Funcs[g]; fi != nil && fi.Sum.Touches[lock] {
				return true
			}
		}
		return false
	}
	// a private function that returns with the lock held on every path (entered without it) is
	// the Lock, spelled as a helper: its calls are the acquisitions to balance
	acquirer := func(g *ssa.Function) bool {
		fi := c.F.Funcs[g]
		if fi == nil || !fi.Sum.ExitHeld[lock] || (fi.Entry != nil && fi.Entry.Has(facts.Held, lock)) {
			return false
		}
		return g.Parent() == nil && !ir.Exported(g) && !c.P.UsedAsValue(g) && len(c.P.Callers(g)) > 0
	}
	for _, f := range pkgFuncs(c, c.M.Pkg) {
		ir.Instrs(f, func(ins ssa.Instruction) {
			call, ok := ins.(*ssa.Call)
			if !ok {
				return
			}
			op, lp, isOp := c.F.MutexOp(&call.Call)
			viaHelper := false
			if !isOp {
				if g := call.Call.StaticCallee(); g != nil && c.P.InRepo[g] && acquirer(g) {
					op, lp, isOp, viaHelper = "lock", lock, true, true
				}
			}
			if !isOp || op != "lock" || lp != lock {
				return
			}
			if !viaHelper && acquirer(f) {
				return
			}
			n++
			// a function entered with the lock held (…Locked) that lets go of it while waiting
			// takes it again before it returns: that Lock restores the caller's state
			if fi := c.F.Funcs[f]; fi != nil && fi.Entry != nil && fi.Entry.Has(facts.Held, lock) {
				c.Pass("LOCK.balance", f, owner+" lock released on every path", call.Pos(), "re-acquired in a function that is entered with the lock held")
				return
			}
			// an unlock deferred before the lock is taken covers every exit
			covered := false
			ir.Instrs(f, func(i2 ssa.Instruction) {
				if deferredRelease(i2) && ir.InstrDominates(i2, call) {
					covered = true
				}
			})
			leak, at := false, ssa.Instruction(nil)
			if !covered {
				leak, at = ir.Reaches(call, func(i ssa.Instruction) bool {
					_, isRet := i.(*ssa.Return)
					return isRet
				}, func(i ssa.Instruction) bool { return releases(c, i, lock) || deferredRelease(i) })
			}
			where := ""
			if at != nil {
				where = " (return at " + c.P.Pos(at.Pos()) + ")"
			}
			c.Check(!leak, "LOCK.balance", f, owner+" lock released on every path", call.Pos(), "every path from this Lock to a return passes an Unlock (direct, by a callee, or deferred)", "a path from this Lock reaches a return"+where+" without releasing "+lock.String()+": every later operation of the "+owner+", Close included, would block")
		})
	}
	if n == 0 {
		c.Undecided("LOCK.balance", nil, owner+" lock released on every path", 0, "no Lock of the owner's mutex found")
	}
}
