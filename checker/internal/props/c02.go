package props

import (
	"go/types"
	"strings"

	"golang.org/x/tools/go/ssa"

	"jrpcvet/internal/chk"
	"jrpcvet/internal/ir"
)

// rulePanicInventory: every explicit panic in library code is either
// construction-time API misuse or discharged by a named invariant rule.
func rulePanicInventory(c *chk.Ctx) {
	stop := stopFunc(c, "server")
	start := startFunc(c)
	// a role is held by a function or by a private helper of it (not by a closure that may run
	// later on another goroutine)
	inRole := func(root, f *ssa.Function) bool {
		return root != nil && (f == root || (f.Parent() == nil && c.P.InExt(root, f)))
	}
	var slotRecv []*ssa.Function
	for _, g := range pkgFuncs(c, c.M.Pkg) {
		if g.Parent() != nil {
			continue
		}
		ir.Instrs(g, func(ins ssa.Instruction) {
			if _, _, ok := slotRecvAt(c, ins); ok {
				slotRecv = append(slotRecv, g)
			}
		})
	}
	var roleOf func(f *ssa.Function) string
	var roleDepth int
	roleOf = func(f *ssa.Function) string {
		r := ir.Root(f)
		// a private helper shared by functions that all have one role has that role
		// (a `mustWrap` used by the handler constructors)
		if f.Parent() == nil && !ir.Exported(f) && !c.P.UsedAsValue(f) && roleDepth < 2 {
			sites := c.P.Callers(f)
			role := ""
			for i, s := range sites {
				roleDepth++
				w := roleOf(s.Caller)
				roleDepth--
				if w == "" || (i > 0 && w != role) {
					role = ""
					break
				}
				role = w
			}
			if role != "" && len(sites) > 0 {
				return role
			}
		}
		switch {
		case inRole(stop, f):
			return "invariant in the stop function: table emptied by the loop that dominates the check"
		case r == start && f == r:
			return "documented API misuse: Start while running (this is the guard RUN.startOnce relies on)"
		}
		// the exported waiter of the lifetime group
		for _, w := range waitSites(c, chk.PathOfVar(c.M.Server, c.M.SWg).String()) {
			if ir.Exported(w.Parent()) && inRole(w.Parent(), f) {
				return "invariant: queue empty at shutdown — discharged by RUN.guard (no insert after stop) and RUN.drain"
			}
		}
		// the slot receiver (or the helper it shares the received message with)
		for _, g := range slotRecv {
			if inRole(g, f) || inRole(c.P.RegionRoot(g), f) {
				return "invariant: id mismatch — discharged by TOKEN.keyed"
			}
			for _, s := range c.P.Callers(g) {
				if inRole(s.Caller, f) && !ir.Exported(s.Caller) {
					return "invariant: id mismatch — discharged by TOKEN.keyed"
				}
			}
		}
		// constructors: exported package-level functions that build a Server, and the handler package's
		// exported constructors (construction-time API misuse)
		if ir.Exported(r) && r.Signature.Recv() == nil && f == r {
			allocs, allocsClient := false, false
			ir.Instrs(r, func(ins ssa.Instruction) {
				if al, ok := ins.(*ssa.Alloc); ok && al.Heap && types.Unalias(al.Type().(*types.Pointer).Elem()) == types.Type(c.M.Server) {
					allocs = true
				}
				if al, ok := ins.(*ssa.Alloc); ok && al.Heap && types.Unalias(al.Type().(*types.Pointer).Elem()) == types.Type(c.M.Client) {
					allocsClient = true
				}
			})
			if allocs {
				return "documented API misuse: nil assigner at construction"
			}
			if allocsClient {
				return "API misuse at construction of a client (not reachable from a peer's records)"
			}
			if inPkg(c, r, c.M.HandlerPkg) && r.Signature.Results().Len() == 1 && isHandlerSig(c, r.Signature.Results().At(0).Type()) {
				return "documented API misuse: bad function at construction (handler constructor)"
			}
		}
		if inPkg(c, r, c.M.HandlerPkg) && ir.Exported(r) && f == r && r.Signature.Results().Len() == 1 && isHandlerSig(c, r.Signature.Results().At(0).Type()) {
			return "documented API misuse: invalid FuncInfo at construction"
		}
		// the handler package's exported package-level functions run when handlers are built from Go
		// functions (before a server exists), never on a peer's records: only the closures they hand
		// out run per request, and those are not this function
		if inPkg(c, r, c.M.HandlerPkg) && ir.Exported(r) && f == r && r.Signature.Recv() == nil {
			return "API misuse while handlers are being built (handler package, not reachable from a peer's records)"
		}
		return ""
	}
	n := 0
	for _, f := range c.P.Funcs {
		ir.Instrs(f, func(ins ssa.Instruction) {
			p, ok := ins.(*ssa.Panic)
			if !ok {
				return
			}
			if mi, isMI := p.X.(*ssa.MakeInterface); isMI {
				if str, isK := constString(mi.X); isK && (strings.Contains(str, "blocking select matched no case") || strings.Contains(str, "range function") || strings.Contains(str, "iterator call")) {
					return // synthesised by go/ssa (select without default, range-over-func protocol checks); not in the source
				}
			}
			if f.Synthetic != "" {
				return
			}
			n++
			if why := roleOf(f); why != "" {
				c.Exists("WHO.panic", f, "explicit panic", p.Pos(), "%s", why)
			} else {
				c.Undecided("WHO.panic", f, "explicit panic", p.Pos(), "an explicit panic outside the inventoried roles (constructors, the start guard, the stop/wait invariants, the slot receiver): it must be shown unreachable from peer input before the survival clause can be claimed")
			}
		})
	}
	// (eight on the pinned tree; constructors sharing one panicking helper make it fewer)
	if n < 6 {
		c.Undecided("WHO.panic", nil, "panic inventory", 0, "found %d explicit panics (confirmed by hand: 8)", n)
	}
}

func init() {
	register(&Def{
		ID:          "C02",
		Technique:   "constant tables (error codes, sentinels, null token) resolved through go/types, dominance rules in the parser, reader and check/assign functions, running-state typestate, explicit-panic inventory",
		Explanation: "Decides: (D1) the five standard codes equal the specification's; every validation failure in the member parser uses a constant code ∈ {-32700,-32600}; undecodable message → -32700 sentinel, empty batch → -32600, empty method → -32600, unknown/reserved method → -32601, duplicate id → -32600; (D2) a member's deferred validation error is carried into its task, handlers are assigned and invoked only on the err == nil edge; (D3) the parser keeps an id only on the isValidID edge and exactly the 4-byte token null counts as absent; (D4) the reader uses channel, work signal and queue only with the running state established (no crash after stop), and the explicit panics in library code are the inventoried eight; (D5) emitted literals carry the Version the parser checks; (D6) a push-enabled server never keeps an unmatched reply for dispatch; (D7) decode-error and empty-batch edges are each answered once, directly, with id null, and never queued. (D8) the id validity predicate classifies the raw token and never runs it through a numeric parser (every JSON number is a valid id). (D9) the member parser records a failure exactly when a member has a method together with a result or an error (truth table over the three members).",
		NotDecided:  []string{"that each individual byte string gets the listed answer (input-exhaustive claim)", "which of several applicable codes a multi-defect member gets (map iteration order)", "panics inside dependencies"},
		Assumptions: []string{"encoding/json rejects exactly invalid JSON"},
		RuleText:    ruleText,
		Run: func(c *chk.Ctx, tier string) {
			d := dispatchOrUndecided(c, "ROLE.dispatch")
			if d == nil {
				return
			}
			c.Clause("C02-D1")
			ruleCodeTable(c, d)
			ruleEnvelopeErrorOnlyFromJSON(c)
			ruleMixedFieldsRejected(c)
			c.Clause("C02-D2")
			ruleInvalidNeverRuns(c, d)
			ruleInvokeSites(c, d)
			c.Clause("C02-D3")
			ruleMemberNamesExact(c)
			ruleNullErrorIsAbsent(c)
			ruleNullIsAbsent(c, d)
			ruleIDHandling(c)
			ruleNormaliserExact(c)
			ruleJSONWhitespace(c)
			c.Clause("C02-D4")
			ruleRunGuardServer(c)
			rulePanicInventory(c)
			c.Clause("C02-D5")
			ruleVersionLiteral(c)
			ruleEncoderOneOf(c)
			c.Clause("C02-D6")
			ruleReplyFilter(c)
			c.Clause("C02-D7")
			ruleReaderErrorReplies(c)
		},
	})
	register(&Def{
		ID:          "C13",
		Technique:   "byte provenance of every write in the encoders and of every raw field of library-built messages, error-propagation rule at json.Marshal/encoder call sites, version-literal table, index provenance in ParseRequests",
		Explanation: "Decides: (D1) every emitted literal that names the version member carries the Version constant the parser compares against; (D2) every byte the encoders write is a constant, a json.Marshal/element-encoder result on its err == nil edge, or a raw ID/P/R field, and an encoding error inside an encoder is returned at once; (D3) raw ID/P/R fields of messages the library builds come only from json.Marshal, strconv.FormatInt, null/nil, or raw fields holding JSON by the same rule (the peer's own tokens); (D4) no json.Marshal/encoder result is used with its error discarded; (D5) ParseRequests uses the server's list parser, reports a top-level error only from it, builds entry i from member i with the member's deferred error, and ToRequest refuses entries with an error. (D6) the bytes json.Marshal produced are never written through (no element store, copy-into, or append onto a shortened re-slice). (D7) no decision inside the loop over a message's members (a map range) reads a member field that another turn of the loop writes.",
		NotDecided:  []string{"parse-back equality and UTF-8/control-byte freedom for every value (encoding/json's contract)", "totality of the parser"},
		Assumptions: []string{"json.Marshal output is compact single-line valid JSON", "A-data"},
		RuleText:    ruleText,
		Run: func(c *chk.Ctx, tier string) {
			c.Clause("C13-D1")
			ruleVersionLiteral(c)
			c.Clause("C13-D2")
			ruleEncoderWrites(c)
			ruleEncoderOneOf(c)
			ruleParamsShapeOnEncodedBytes(c)
			ruleNoSharedEncoderBuffers(c)
			ruleMarshalOutputImmutable(c)
			ruleMemberLoopOrderIndependent(c)
			ruleConstantFormats(c)
			ruleBareObject(c)
			c.Clause("C13-D3")
			ruleRawFields(c)
			if d := dispatchOrUndecided(c, "ROLE.dispatch"); d != nil {
				ruleInvokeResultsMarshalled(c, d)
				ruleResultOnlyWithoutError(c, d)
			}
			c.Clause("C13-D4")
			ruleMarshalErrorsChecked(c)
			ruleSendWholeMessages(c)
			c.Clause("C13-D5")
			ruleParseRequests(c)
			ruleEnvelopeErrorOnlyFromJSON(c)
			ruleJSONWhitespace(c)
		},
	})
	register(&Def{
		ID:          "C14",
		Technique:   "effect (alias/taint) analysis of WithData, identity-accessor rule, decision-list extraction of ErrorCode, provenance of the response's error member and of the client's settled fields, constant tables of filterError vs ErrorCode",
		Explanation: "Decides: (D1) WithData performs no store, append, copy or map update that reaches memory owned by its receiver; (D2) every ErrCode method returns its receiver's code unchanged and Code.Err returns nil exactly for NoError, else the code itself; (D3) ErrorCode's decision list is nil → NoError, ErrCoder → its code, Canceled → Cancelled, DeadlineExceeded → DeadlineExceeded, else SystemError, in that order; (D4) the response builder forwards an *Error by identity (type assertion on task.err, no unwrapping) and maps any other error to Code = ErrorCode(task.err) (InternalError only on the NoError edge), Message = task.err.Error(); (D5) a Response settles with exactly the received message's error and result, Call/Callback return it through filterError, and filterError inverts ErrorCode on the two context sentinels; (D6) the invoke function returns json.Marshal's pair unmodified. (D7) when marshalling a callback result fails, the reply gets an error member on every path. (D8) every store into an Error's fields in the root package goes to a value allocated in the same function: sentinels, handler errors and decoded wire errors are never modified. (D9) every non-nil result of Code.Err is the receiver itself; filterError restores a context sentinel on the error's code alone. (D10) the response builder sets the result member only on the task.err == nil edge (never on a comparison of the error's code). Also decided: every return of Response.UnmarshalResult other than the response's own error is on the err == nil edge. (D11) the Code and Error types have no marshalling methods of their own (the default coding is exact for every int32), and the HTTP adapters build an Error only with a constant code — never from the code or message of another error.",
		NotDecided:  []string{"JSON-equality of data across the wire", "behaviour of arbitrary user ErrCoder / Unwrap chains beyond errors.As/Is"},
		Assumptions: []string{"errors.As / errors.Is semantics"},
		RuleText:    ruleText,
		Run: func(c *chk.Ctx, tier string) {
			d := dispatchOrUndecided(c, "ROLE.dispatch")
			if d == nil {
				return
			}
			c.Clause("C14-D1")
			ruleNoReceiverWrites(c, c.M.Func(c.M.Pkg, "(*Error).WithData"), "EFFECT.pure", "WithData leaves its receiver alone")
			ruleErrorValuesImmutable(c)
			c.Clause("C14-D2")
			ruleErrCodeAccessors(c)
			c.Clause("C14-D3")
			ruleErrorCodeOrder(c)
			c.Clause("C14-D4/D6")
			ruleServerErrorMapping(c, d)
			ruleResultOnlyWithoutError(c, d)
			c.Clause("C14-D5")
			ruleClientErrorMapping(c)
			ruleResultErrorFirst(c)
			ruleCallbackMarshalErrorReported(c)
			ruleEveryPeerErrorFiltered(c)
			ruleErrorWireDefault(c)
			ruleHTTPNeverRebuildsErrors(c)
			ruleWatcherReportsCtxErr(c, "client")
			ruleWatcherReportsCtxErr(c, "server")
			ruleFilterErrorTable(c)
		},
	})
}
