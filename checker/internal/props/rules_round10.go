package props

import (
	"go/types"
	"strings"

	"golang.org/x/tools/go/ssa"

	"jrpcvet/internal/chk"
	"jrpcvet/internal/ir"
)

// Rules added after the tenth round of independently seeded breakages. Each is
// a structural necessary condition of the property it is listed under.

// ruleErrorWireDefault (C14): the error object travels as encoding/json encodes
// and decodes its Go declaration: neither the Code type nor the Error type has
// a marshalling method of its own. (An int32 code is written and read back
// exactly by the default integer coding; a hand-written number parser on
// either side is where precision or range is lost.)
func ruleErrorWireDefault(c *chk.Ctx) {
	n := 0
	for _, name := range []string{"Code", "Error"} {
		obj, _ := c.M.Pkg.Pkg.Scope().Lookup(name).(*types.TypeName)
		if obj == nil {
			continue
		}
		n++
		bad := ""
		ms := types.NewMethodSet(types.NewPointer(obj.Type()))
		for _, m := range []string{"MarshalJSON", "UnmarshalJSON", "MarshalText", "UnmarshalText"} {
			if sel := ms.Lookup(c.M.Pkg.Pkg, m); sel != nil {
				bad = m
			}
		}
		c.Check(bad == "", "TABLE.codewire", nil, name+" has the default JSON coding", 0, "the type declares no MarshalJSON / UnmarshalJSON / MarshalText / UnmarshalText", "the "+name+" type has its own "+bad+" method: the error object no longer travels as the default coding of its declaration, so a code (any int32) or a data member can arrive different from what was sent")
	}
	if n < 2 {
		c.Undecided("TABLE.codewire", nil, "Code and Error types", 0, "found %d of the two types", n)
	}
}

// ruleHTTPNeverRebuildsErrors (C14, C19): the HTTP adapters hand a call's error
// on as it is. An Error object built in the jhttp package carries a constant
// code (the parse failure answered with 400); none is assembled from the code
// or message of another error, which is how the data member gets lost.
func ruleHTTPNeverRebuildsErrors(c *chk.Ctx) {
	bad := ""
	n := 0
	// a constant, or the parameter of a private helper that is given a constant at every call
	var isConstCode func(v ssa.Value, depth int) bool
	isConstCode = func(v ssa.Value, depth int) bool {
		v = ir.NormCell(v)
		if _, isK := ir.ConstInt(v); isK {
			return true
		}
		prm, isParam := v.(*ssa.Parameter)
		if !isParam || depth > 2 {
			return false
		}
		f := prm.Parent()
		if ir.Exported(f) || c.P.UsedAsValue(f) {
			return false
		}
		idx := -1
		for i, q := range f.Params {
			if q == prm {
				idx = i
			}
		}
		sites := c.P.Callers(f)
		if idx < 0 || len(sites) == 0 {
			return false
		}
		for _, s := range sites {
			args := s.Instr.Common().Args
			if idx >= len(args) || !isConstCode(args[idx], depth+1) {
				return false
			}
		}
		return true
	}
	for _, f := range pkgFuncs(c, c.M.JhttpPkg) {
		ir.Instrs(f, func(ins ssa.Instruction) {
			switch x := ins.(type) {
			case *ssa.Store:
				fa, ok := x.Addr.(*ssa.FieldAddr)
				if !ok || ir.FieldOwner(fa) != c.M.ErrorT || ir.FieldVar(fa).Name() != "Code" {
					return
				}
				n++
				if !isConstCode(x.Val, 0) && bad == "" {
					bad = c.P.Pos(x.Pos())
				}
			case *ssa.Call:
				g := x.Call.StaticCallee()
				if g == nil || g.Pkg != c.M.Pkg {
					return
				}
				// Errorf(code, …) and code.Err(): constructors that take the code first
				if len(x.Call.Args) > 0 && strings.HasSuffix(x.Call.Args[0].Type().String(), ".Code") && g.Signature.Results().Len() == 1 && (strings.HasSuffix(g.Signature.Results().At(0).Type().String(), ".Error") || g.Signature.Results().At(0).Type().String() == "error") {
					n++
					if !isConstCode(x.Call.Args[0], 0) && bad == "" {
						bad = c.P.Pos(x.Pos())
					}
				}
			}
		})
	}
	c.Check(bad == "", "PROV.httperr", nil, "HTTP adapters never rebuild an error", 0, "every Error built in the jhttp package has a constant code (the request-parse failure)", "the jhttp package builds an Error from a computed code (at "+bad+"): an error object assembled from another error's code and message drops its data member, so the HTTP caller does not see the error the handler returned")
	if n == 0 {
		c.Exists("PROV.httperr", nil, "error constructions in jhttp", 0, "none")
	}
}
