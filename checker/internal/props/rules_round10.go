package props

import (
	"go/types"
	"strings"

	"golang.org/x/tools/go/ssa"

	"jrpcvet/internal/chk"
	"jrpcvet/internal/ir"
)

// Rules added after the tenth round of independently seeded breakages. Each is
// a structural necessary condition of the property it is listed under.

// ruleErrorWireDefault (C14): the error object travels as encoding/json encodes
// and decodes its Go declaration: neither the Code type nor the Error type has
// a marshalling method of its own. (An int32 code is written and read back
// exactly by the default integer coding; a hand-written number parser on
// either side is where precision or range is lost.)
func ruleErrorWireDefault(c *chk.Ctx) {
	n := 0
	for _, name := range []string{"Code", "Error"} {
		obj, _ := c.M.Pkg.Pkg.Scope().Lookup(name).(*types.TypeName)
		if obj == nil {
			continue
		}
		n++
		bad := ""
		ms := types.NewMethodSet(types.NewPointer(obj.Type()))
		for _, m := range []string{"MarshalJSON", "UnmarshalJSON", "MarshalText", "UnmarshalText"} {
			if sel := ms.Lookup(c.M.Pkg.Pkg, m); sel != nil {
				bad = m
			}
		}
		c.Check(bad == "", "TABLE.codewire", nil, name+" has the default JSON coding", 0, "the type declares no MarshalJSON / UnmarshalJSON / MarshalText / UnmarshalText", "the "+name+" type has its own "+bad+" method: the error object no longer travels as the default coding of its declaration, so a code (any int32) or a data member can arrive different from what was sent")
	}
	if n < 2 {
		c.Undecided("TABLE.codewire", nil, "Code and Error types", 0, "found %d of the two types", n)
	}
}

// ruleHTTPNeverRebuildsErrors (C14, C19): the HTTP adapters hand a call's error
// on as it is. An Error object built in the jhttp package carries a constant
// code (the parse failure answered with 400); none is assembled from the code
// or message of another error, which is how the data member gets lost.
func ruleHTTPNeverRebuildsErrors(c *chk.Ctx) {
	bad := ""
	n := 0
	// a constant, or the parameter of a private helper that is given a constant at every call
	var isConstCode func(v ssa.Value, depth int) bool
	isConstCode = func(v ssa.Value, depth int) bool {
		v = ir.NormCell(v)
		if _, isK := ir.ConstInt(v); isK {
			return true
		}
		prm, isParam := v.(*ssa.Parameter)
		if !isParam || depth > 2 {
			return false
		}
		f := prm.Parent()
		if ir.Exported(f) || c.P.UsedAsValue(f) {
			return false
		}
		idx := -1
		for i, q := range f.Params {
			if q == prm {
				idx = i
			}
		}
		sites := c.P.Callers(f)
		if idx < 0 || len(sites) == 0 {
			return false
		}
		for _, s := range sites {
			args := s.Instr.Common().Args
			if idx >= len(args) || !isConstCode(args[idx], depth+1) {
				return false
			}
		}
		return true
	}
	for _, f := range pkgFuncs(c, c.M.JhttpPkg) {
		ir.Instrs(f, func(ins ssa.Instruction) {
			switch x := ins.(type) {
			case *ssa.Store:
				fa, ok := x.Addr.(*ssa.FieldAddr)
				if !ok || ir.FieldOwner(fa) != c.M.ErrorT || ir.FieldVar(fa).Name() != "Code" {
					return
				}
				n++
				if !isConstCode(x.Val, 0) && bad == "" {
					bad = c.P.Pos(x.Pos())
				}
			case *ssa.Call:
				g := x.Call.StaticCallee()
				if g == nil || g.Pkg != c.M.Pkg {
					return
				}
				// Errorf(code, …) and code.Err(): constructors that take the code first
				if len(x.Call.Args) > 0 && strings.HasSuffix(x.Call.Args[0].Type().String(), ".Code") && g.Signature.Results().Len() == 1 && (strings.HasSuffix(g.Signature.Results().At(0).Type().String(), ".Error") || g.Signature.Results().At(0).Type().String() == "error") {
					n++
					if !isConstCode(x.Call.Args[0], 0) && bad == "" {
						bad = c.P.Pos(x.Pos())
					}
				}
			}
		})
	}
	c.Check(bad == "", "PROV.httperr", nil, "HTTP adapters never rebuild an error", 0, "every Error built in the jhttp package has a constant code (the request-parse failure)", "the jhttp package builds an Error from a computed code (at "+bad+"): an error object assembled from another error's code and message drops its data member, so the HTTP caller does not see the error the handler returned")
	if n == 0 {
		c.Exists("PROV.httperr", nil, "error constructions in jhttp", 0, "none")
	}
}

// Rules added after the eleventh round.

// ruleMemberNamesExact (C02): the member parser compares member names as they
// were sent: no case folding between the key of the decoded object and the
// switch that tells the protocol's members from unknown ones ("Method" is an
// unknown field, not the method).
func ruleMemberNamesExact(c *chk.Ctx) {
	n := 0
	for _, f := range pkgFuncs(c, c.M.Pkg) {
		if ir.RecvNamed(f) != c.M.Jmessage || f.Signature.Params().Len() != 1 || f.Signature.Params().At(0).Type().String() != "[]byte" {
			continue
		}
		n++
		bad := ""
		c.P.ExtInstrs(f, func(ins ssa.Instruction) {
			call, ok := ins.(*ssa.Call)
			if !ok {
				return
			}
			if ir.IsCallTo(&call.Call, "strings.ToLower", "strings.ToUpper", "strings.ToTitle", "strings.EqualFold", "bytes.EqualFold", "bytes.ToLower", "bytes.ToUpper", "strings.Title") {
				bad = ir.CalleeName(&call.Call) + " at " + c.P.Pos(call.Pos())
			}
		})
		c.Check(bad == "", "TABLE.members", f, "member names compared as sent", f.Pos(), "no case folding in the member parser", "the member parser folds case ("+bad+"): a member such as \"Method\" or \"ID\", which the protocol does not define, would be taken for the real one instead of being reported as an unknown field with -32600 — the handler would run for an invalid request")
	}
	if n == 0 {
		c.Undecided("TABLE.members", nil, "member parser", 0, "member parser not found")
	}
}

// ruleHeaderSplitAtFirstColon (C12): a header line is cut at its first colon
// only; the value may contain further colons (a date, host:port).
func ruleHeaderSplitAtFirstColon(c *chk.Ctx) {
	n := 0
	for _, f := range chanMethods(c, "Recv") {
		c.P.ExtInstrs(f, func(ins ssa.Instruction) {
			call, ok := ins.(*ssa.Call)
			if !ok || len(call.Call.Args) < 2 {
				return
			}
			if sep, isK := constString(call.Call.Args[1]); !isK || sep != ":" {
				return
			}
			switch {
			case ir.IsCallTo(&call.Call, "strings.Split", "strings.SplitAfter", "strings.FieldsFunc"):
				n++
				c.Fail("PAIR.hdrloop", f, "header line cut at the first colon", call.Pos(), "the header line is split at every colon: a value that contains one (a date, host:port, a content-type parameter) would make a legal header block unreadable, and the rest of the frame would be misread as further frames")
			case ir.IsCallTo(&call.Call, "strings.SplitN", "strings.SplitAfterN"):
				n++
				k, isC := ir.ConstInt(call.Call.Args[2])
				c.Check(isC && k == 2, "PAIR.hdrloop", f, "header line cut at the first colon", call.Pos(), "SplitN(line, \":\", 2)", "the header line is not split into exactly name and value at the first colon")
			case ir.IsCallTo(&call.Call, "strings.Cut", "strings.Index", "strings.IndexByte"):
				n++
				c.Pass("PAIR.hdrloop", f, "header line cut at the first colon", call.Pos(), "cut at the first colon")
			}
		})
	}
	if n == 0 {
		c.Undecided("PAIR.hdrloop", nil, "header line split", 0, "no split of a header line at ':' found in a Recv method")
	}
}

// ruleStubDecodesTranslated (C15/C16): the array stub hands the raw parameter
// bytes to its translation step and to nothing else: every decode that follows
// works on the translated form (an array already rewritten to an object).
func ruleStubDecodesTranslated(c *chk.Ctx) {
	n := 0
	for _, f := range pkgFuncs(c, c.M.HandlerPkg) {
		if f.Parent() != nil || ir.BaseName(f) != "UnmarshalJSON" || len(f.Params) != 2 {
			continue
		}
		// the stub with a translation step: a private method of the same receiver, given the
		// data, returning ([]byte, error)
		data := f.Params[1]
		var translate *ssa.Call
		ir.Instrs(f, func(ins ssa.Instruction) {
			call, ok := ins.(*ssa.Call)
			if !ok {
				return
			}
			g := call.Call.StaticCallee()
			if g == nil || !c.P.InRepo[g] || ir.Exported(g) || g.Signature.Results().Len() != 2 || g.Signature.Results().At(0).Type().String() != "[]byte" {
				return
			}
			for _, a := range call.Call.Args {
				if a == ssa.Value(data) {
					translate = call
				}
			}
		})
		if translate == nil {
			continue
		}
		n++
		other := ""
		for _, r := range *data.Referrers() {
			if r == ssa.Instruction(translate) {
				continue
			}
			if _, isDbg := r.(*ssa.DebugRef); isDbg {
				continue
			}
			other = c.P.Pos(r.Pos())
		}
		c.Check(other == "", "WHO.strictstub", f, "stub decodes the translated parameters", f.Pos(), "the raw bytes go to the translation step only; every decode uses its result", "the array stub uses the raw parameter bytes after translating them (at "+other+"): an array is then decoded as it stands instead of as the object it was rewritten to, so the positional form of the parameters is refused (or mapped differently) on that branch")
	}
	if n == 0 {
		c.Exists("WHO.strictstub", nil, "array stub translation step", 0, "no stub hands its data to a private translation function (translation written in place)")
	}
}

// ruleArgumentTypeNilGuarded (C15): FuncInfo.Argument is nil for a function
// without a parameter; every method call on it sits under a != nil test of it.
func ruleArgumentTypeNilGuarded(c *chk.Ctx) {
	fiT, _ := c.M.HandlerPkg.Pkg.Scope().Lookup("FuncInfo").(*types.TypeName)
	if fiT == nil {
		c.Undecided("TABLE.check", nil, "FuncInfo", 0, "not found")
		return
	}
	isArg := func(v ssa.Value) bool {
		_, fv, ok := ir.FieldRead(ir.NormCell(v))
		return ok && fv != nil && fv.Name() == "Argument"
	}
	n := 0
	for _, f := range pkgFuncs(c, c.M.HandlerPkg) {
		ir.Instrs(f, func(ins ssa.Instruction) {
			call, ok := ins.(*ssa.Call)
			if !ok || !call.Call.IsInvoke() || !isArg(call.Call.Value) {
				return
			}
			n++
			recv := call.Call.Value
			guarded := false
			// (a function literal built on a branch where the type is known to be there carries
			// that knowledge with it: the variable it captured is never reassigned)
			conds := append([]ir.Cond{}, ir.CondsAt(call.Block())...)
			for fn := f; fn.Parent() != nil; fn = fn.Parent() {
				ir.Instrs(fn.Parent(), func(i2 ssa.Instruction) {
					if mc, isMC := i2.(*ssa.MakeClosure); isMC && mc.Fn == ssa.Value(fn) {
						conds = append(conds, ir.CondsAt(mc.Block())...)
					}
				})
			}
			for _, cd := range ir.NormConds(conds) {
				// (the test may have been given a name: hasArg := arg != nil)
				if nv := ir.NormCell(cd.V); nv != cd.V {
					for _, n2 := range ir.NormConds([]ir.Cond{{V: nv, Truth: cd.Truth}}) {
						if x, eq, isNC := ir.NilCompare(n2.V); isNC && eq != n2.Truth && (x == recv || ir.SameValue(x, recv) || sameFieldRead(x, recv) || (isArg(x) && ir.NormCell(x) == ir.NormCell(recv))) {
							guarded = true
						}
					}
				}
				if x, eq, isNC := ir.NilCompare(cd.V); isNC && eq != cd.Truth && (x == recv || ir.SameValue(x, recv) || sameFieldRead(x, recv) || (isArg(x) && ir.NormCell(x) == ir.NormCell(recv))) {
					guarded = true
				}
			}
			c.Check(guarded, "TABLE.check", f, "argument type used only where there is one", call.Pos(), "the method call on FuncInfo.Argument is under a != nil test of it", "FuncInfo.Argument."+call.Call.Method.Name()+" is called without knowing that the function has a parameter: for a function that takes only a context the type is nil, so wrapping it (e.g. with strict fields on) would panic instead of producing a handler")
		})
	}
	if n == 0 {
		c.Exists("TABLE.check", nil, "uses of FuncInfo.Argument", 0, "no method call on the argument type")
	}
}

// ruleNamesOwnSlice (C17): a Names method builds its own list: it never stores
// into a slice it obtained from another Namer (which may keep that slice).
func ruleNamesOwnSlice(c *chk.Ctx) {
	n := 0
	for _, f := range pkgFuncs(c, c.M.HandlerPkg) {
		if f.Parent() != nil || ir.BaseName(f) != "Names" || f.Signature.Recv() == nil {
			continue
		}
		n++
		bad := ""
		c.P.ExtInstrs(f, func(ins ssa.Instruction) {
			st, ok := ins.(*ssa.Store)
			if !ok {
				return
			}
			ia, ok := st.Addr.(*ssa.IndexAddr)
			if !ok {
				return
			}
			for _, src := range c.P.Sources(ia.X) {
				if call, isCall := src.(*ssa.Call); isCall && call.Call.IsInvoke() && call.Call.Method.Name() == "Names" {
					bad = c.P.Pos(st.Pos())
				}
			}
		})
		c.Check(bad == "", "EFFECT.pure", f, "Names writes only its own list", f.Pos(), "no store into a slice returned by another Namer", "Names stores into the slice another assigner's Names returned (at "+bad+"): an assigner that keeps its name list would have it rewritten, so the names reported the next time differ from the methods that are dispatched")
	}
	if n == 0 {
		c.Undecided("EFFECT.pure", nil, "Names methods", 0, "no Names method found in the handler package")
	}
}

// ruleSendFailureReported (C05): an entry point of the client that transmits
// reports a failed transmission: past the call of the transmitting function, nil
// is returned only where that function's error is known to be nil.
func ruleSendFailureReported(c *chk.Ctx) {
	var sendFn *ssa.Function
	for _, s := range chanSites(c, "Send") {
		if s.owners["client"] && s.instr.Parent().Parent() == nil && !ir.Exported(s.instr.Parent()) {
			sendFn = s.instr.Parent()
		}
	}
	if sendFn == nil {
		c.Exists("ERR.propagate", nil, "client transmit function", 0, "no private top-level client function holds the Send (sent in place or through a helper type)")
		return
	}
	// the transmitting function itself does not ask whether the caller's context is still
	// alive: a request is sent whatever the context says at that moment (it governs the wait
	// for the reply, through the watcher) — the HTTP bridge forwards a body whose sender has
	// already gone, and its notifications must still be delivered
	asks := ""
	ir.Instrs(sendFn, func(ins ssa.Instruction) {
		call, ok := ins.(*ssa.Call)
		if !ok || !call.Call.IsInvoke() || !strings.HasSuffix(call.Call.Value.Type().String(), "context.Context") {
			return
		}
		if m := call.Call.Method.Name(); m == "Err" || m == "Done" {
			asks = c.P.Pos(call.Pos())
		}
	})
	c.Check(asks == "", "ERR.propagate", sendFn, "transmission does not depend on the context's state", sendFn.Pos(), "the transmitting function never asks its context for Err or Done", "the client's transmitting function consults the context (at "+asks+") before sending: a request whose context has already ended is dropped instead of transmitted — through the HTTP bridge, a body whose sender has disconnected would run no handler and its notifications would be lost")
	n := 0
	for _, f := range pkgFuncs(c, c.M.Pkg) {
		if f.Parent() != nil || !ir.Exported(f) || ir.RecvNamed(f) != c.M.Client {
			continue
		}
		nres := f.Signature.Results().Len()
		if nres == 0 || f.Signature.Results().At(nres-1).Type().String() != "error" {
			continue
		}
		var call *ssa.Call
		ir.Instrs(f, func(ins ssa.Instruction) {
			if cl, ok := ins.(*ssa.Call); ok && cl.Call.StaticCallee() == sendFn {
				call = cl
			}
		})
		if call == nil {
			continue
		}
		n++
		isErr := func(x ssa.Value) bool { return ir.IsExtractOf(x, call, sendFn.Signature.Results().Len()-1) }
		bad := ""
		for _, r := range ir.Returns(f) {
			if !ir.InstrDominates(call, r) {
				continue
			}
			for _, w := range returnedWays(r, nres-1) {
				if !ir.IsNilConst(w.val) {
					continue
				}
				if !ir.ProvesNil(w.conds, isErr) && !ir.ProvesNil(ir.CondsAt(r.Block()), isErr) {
					bad = c.P.Pos(r.Pos())
				}
			}
		}
		c.Check(bad == "", "ERR.propagate", f, "a failed transmission is reported", call.Pos(), "after the transmitting call, nil is returned only on its err == nil edge", "the return at "+bad+" reports success although the transmission may have failed (e.g. the error is filtered as uninteresting): an operation on a stopped client would look as if it had been sent")
	}
	if n == 0 {
		c.Exists("ERR.propagate", nil, "client entry points that transmit", 0, "no exported client method calls the transmitting function directly")
	}
}

// ruleQuotedBytesAnyPadding (C19): a single-quoted query value is base64 with
// or without padding: the padding is trimmed and the unpadded alphabet decodes
// the rest (the padded decoder refuses unpadded input).
func ruleQuotedBytesAnyPadding(c *chk.Ctx) {
	f := c.M.Func(c.M.JhttpPkg, "ParseQuery")
	if f == nil {
		c.Undecided("TABLE.query", nil, "ParseQuery", 0, "not found")
		return
	}
	n := 0
	c.P.ExtInstrs(f, func(ins ssa.Instruction) {
		call, ok := ins.(*ssa.Call)
		if !ok || !ir.IsCallTo(&call.Call, "(*encoding/base64.Encoding).DecodeString") || len(call.Call.Args) != 2 {
			return
		}
		n++
		raw := false
		if g := globalLoad(call.Call.Args[0]); g != nil && strings.HasPrefix(g.Name(), "Raw") {
			raw = true
		}
		trimmed := false
		for _, src := range c.P.SourcesStop(call.Call.Args[1], func(v ssa.Value) bool {
			cl, isCall := v.(*ssa.Call)
			return isCall && ir.IsCallTo(&cl.Call, "strings.TrimRight", "strings.TrimSuffix")
		}) {
			if cl, isCall := src.(*ssa.Call); isCall && ir.IsCallTo(&cl.Call, "strings.TrimRight") {
				if k, isK := constString(cl.Call.Args[1]); isK && k == "=" {
					trimmed = true
				}
			}
		}
		c.Check(raw && trimmed, "TABLE.query", f, "quoted bytes decode with or without padding", call.Pos(), "padding trimmed, then the unpadded base64 alphabet", "the single-quoted value is not decoded as 'padding stripped, then unpadded base64': values whose padding is missing (or present) would be refused, and a well-formed URL answered with 400")
	})
	if n == 0 {
		c.Undecided("TABLE.query", f, "base64 decode", f.Pos(), "no base64 decode found in the query typing")
	}
}

// ruleParamsShapeOnEncodedBytes (C13): the client decides whether parameters are
// an array or object (or null) by looking at their encoding, not at their Go
// kind: wherever the marshalled bytes are returned, a test of those very bytes
// has been passed. (A time.Time is a struct and encodes as a string.)
func ruleParamsShapeOnEncodedBytes(c *chk.Ctx) {
	n := 0
	for _, f := range pkgFuncs(c, c.M.Pkg) {
		if f.Parent() != nil || ir.Exported(f) || f.Signature.Results().Len() != 2 || f.Signature.Results().At(0).Type().String() != "[]byte" && !strings.HasSuffix(f.Signature.Results().At(0).Type().String(), "json.RawMessage") {
			continue
		}
		if len(f.Params) == 0 {
			continue
		}
		// (the client's own marshaller: a method of the client, or a function only it calls)
		if ir.RecvNamed(f) != c.M.Client {
			sites := c.P.Callers(f)
			onlyClient := len(sites) > 0 && f.Signature.Recv() == nil
			for _, s2 := range sites {
				if ir.RecvNamed(ir.Root(s2.Caller)) != c.M.Client {
					onlyClient = false
				}
			}
			if !onlyClient {
				continue
			}
		}
		var marshal *ssa.Call
		ir.Instrs(f, func(ins ssa.Instruction) {
			if call, ok := ins.(*ssa.Call); ok && ir.IsCallTo(&call.Call, "encoding/json.Marshal") {
				if prm, isParam := ir.NormCell(call.Call.Args[0]).(*ssa.Parameter); isParam {
					if _, isIface := prm.Type().Underlying().(*types.Interface); isIface && prm.Type().String() != "error" {
						marshal = call
					}
				}
			}
		})
		if marshal == nil {
			continue
		}
		n++
		onBytes := func(cs []ir.Cond) bool {
			for _, cd := range cs {
				var uses func(v ssa.Value, depth int) bool
				uses = func(v ssa.Value, depth int) bool {
					if depth > 4 || v == nil {
						return false
					}
					if ir.IsExtractOf(v, marshal, 0) {
						return true
					}
					switch x := v.(type) {
					case *ssa.Call:
						for _, a := range x.Call.Args {
							if uses(a, depth+1) {
								return true
							}
						}
					case *ssa.BinOp:
						return uses(x.X, depth+1) || uses(x.Y, depth+1)
					case *ssa.UnOp:
						return uses(x.X, depth+1)
					case *ssa.IndexAddr:
						return uses(x.X, depth+1)
					case *ssa.ChangeType:
						return uses(x.X, depth+1)
					case *ssa.Convert:
						return uses(x.X, depth+1)
					case *ssa.Slice:
						return uses(x.X, depth+1)
					case *ssa.Extract:
						return uses(x.Tuple, depth+1)
					case *ssa.Phi:
						for _, e := range x.Edges {
							if uses(e, depth+1) {
								return true
							}
						}
					}
					return false
				}
				if uses(cd.V, 0) {
					return true
				}
			}
			return false
		}
		// (some branch of the function is decided by the encoded bytes themselves; which returns
		// it governs is left to the tests — what is excluded is a shape test that never looks
		// at the encoding)
		bad := ""
		tested := false
		ir.Instrs(f, func(ins ssa.Instruction) {
			if iff, ok := ins.(*ssa.If); ok && onBytes([]ir.Cond{{V: iff.Cond, Truth: true}}) {
				tested = true
			}
		})
		if !tested {
			bad = c.P.Pos(marshal.Pos())
		}
		c.Check(bad == "", "TABLE.params", f, "parameter shape checked on the encoded bytes", marshal.Pos(), "a branch of the marshalling function is decided by the encoded bytes (first byte / null)", "the parameters marshalled at "+bad+" are handed on without any test of the encoded bytes: a value whose Go kind is struct, slice or array but whose encoding is a string or number (time.Time, []byte, *big.Int) would be sent as parameters, and the request no longer parses as a valid request")
	}
	if n == 0 {
		// (the marshalling written out in place where the request is built: not this rule's shape)
		c.Exists("TABLE.params", nil, "client parameter marshaller", 0, "no private function marshalling an interface parameter into ([]byte, error)")
	}
}

// ruleNoSharedEncoderBuffers (C13, C10): the root package keeps no pool or
// package-level buffer: what an encoder returns is freshly built for that call,
// so the bytes handed to a channel's Send are not rewritten by the next encode.
func ruleNoSharedEncoderBuffers(c *chk.Ctx) {
	shared := ""
	for _, m := range c.M.Pkg.Members {
		g, ok := m.(*ssa.Global)
		if !ok {
			continue
		}
		pt, isPtr := g.Type().(*types.Pointer)
		if !isPtr {
			continue
		}
		var holds func(t types.Type, depth int) bool
		holds = func(t types.Type, depth int) bool {
			if depth > 4 {
				return false
			}
			switch t.String() {
			case "bytes.Buffer", "sync.Pool", "strings.Builder", "bufio.Writer", "bufio.Reader":
				return true
			}
			switch u := t.Underlying().(type) {
			case *types.Pointer:
				return holds(u.Elem(), depth+1)
			case *types.Slice:
				return holds(u.Elem(), depth+1)
			case *types.Array:
				return holds(u.Elem(), depth+1)
			case *types.Chan:
				return holds(u.Elem(), depth+1)
			case *types.Struct:
				for i := 0; i < u.NumFields(); i++ {
					if holds(u.Field(i).Type(), depth+1) {
						return true
					}
				}
			}
			return false
		}
		if holds(pt.Elem(), 0) && shared == "" {
			shared = g.Name() + " at " + c.P.Pos(g.Pos())
		}
	}
	c.Check(shared == "", "PROV.encoder", nil, "no shared encoder buffers", 0, "no package-level pool, buffer or builder in the root package", "the root package keeps a pool or buffer at package level ("+shared+"): bytes an encoder returned can be rewritten by a later encode while a channel still holds them — a record handed to Send is then no longer one complete JSON message")
}

// ruleCallbackWrappersGuarded (C04): an option accessor that wraps a user
// callback in a function of its own hands that wrapper out only where the
// callback is set: the users of the accessor test its result for nil to decide
// whether there is a callback at all, and a wrapper around an unset callback
// would be called.
func ruleCallbackWrappersGuarded(c *chk.Ctx) {
	n := 0
	for _, f := range pkgFuncs(c, c.M.Pkg) {
		if f.Parent() != nil || f.Signature.Recv() == nil || len(f.Params) == 0 {
			continue
		}
		rn := ir.RecvNamed(f)
		if rn == nil || !strings.HasSuffix(rn.Obj().Name(), "Options") {
			continue
		}
		for _, r := range ir.Returns(f) {
			if len(r.Results) != 1 {
				continue
			}
			mc, ok := ir.ReturnResult(r, 0).(*ssa.MakeClosure)
			if !ok {
				continue
			}
			for _, b := range mc.Bindings {
				// the captured callback: an option field read directly, or a local holding it
				v := b
				if al, isAl := b.(*ssa.Alloc); isAl {
					if sts := ir.CellStores(al); len(sts) == 1 {
						v = sts[0].Val
					}
				}
				if _, isSig := v.Type().Underlying().(*types.Signature); !isSig {
					continue
				}
				base, fv, isF := ir.FieldRead(v)
				if !isF || fv == nil || ir.NormCell(base) != ssa.Value(f.Params[0]) {
					continue
				}
				n++
				guarded := false
				for _, cd := range ir.NormConds(ir.CondsAt(r.Block())) {
					if x, eq, isNC := ir.NilCompare(cd.V); isNC && eq != cd.Truth && (x == v || sameFieldRead(x, v) || ir.NormCell(x) == v || sameFieldRead(ir.NormCell(x), v)) {
						guarded = true
					}
				}
				c.Check(guarded, "TABLE.default", f, "callback wrapper only for a set callback", r.Pos(), "the wrapper around "+fv.Name()+" is returned on the "+fv.Name()+" != nil edge", "the accessor returns a function that calls "+fv.Name()+" without having tested that the callback is set: its users take a non-nil result for \"there is a callback\", so the first inbound message of that kind would call a nil function (a panic on the delivery goroutine, with the lock held)")
			}
		}
	}
	if n == 0 {
		c.Exists("TABLE.default", nil, "callback wrappers in option accessors", 0, "none")
	}
}
