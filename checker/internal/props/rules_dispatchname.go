package props

import (
	"fmt"
	"go/token"
	"go/types"
	"sort"
	"strings"

	"golang.org/x/tools/go/ssa"

	"jrpcvet/internal/chk"
	"jrpcvet/internal/ir"
)

// describeCond renders a branch outcome for the few predicate shapes the name
// dispatch uses.
func describeGateCond(c *chk.Ctx, cd ir.Cond) string {
	neg := ""
	if !cd.Truth {
		neg = "¬"
	}
	v := cd.V
	if u, ok := v.(*ssa.UnOp); ok && u.Op == token.NOT {
		v = u.X
		if neg == "" {
			neg = "¬"
		} else {
			neg = ""
		}
	}
	if chk.LoadsField(v, c.M.SBuiltin) {
		return neg + "builtin"
	}
	isName := func(x ssa.Value) bool {
		_, isP := ir.NormCell(x).(*ssa.Parameter)
		return isP
	}
	if call, ok := v.(*ssa.Call); ok && ir.IsCallTo(&call.Call, "strings.HasPrefix") {
		if s, isS := constString(call.Call.Args[1]); isS && isName(call.Call.Args[0]) {
			return neg + "HasPrefix(name," + fmt.Sprintf("%q", s) + ")"
		}
	}
	// strings.CutPrefix(name, P): its "found" result is HasPrefix(name, P)
	if e, ok := v.(*ssa.Extract); ok && e.Index == 1 {
		if call, ok := e.Tuple.(*ssa.Call); ok && ir.IsCallTo(&call.Call, "strings.CutPrefix") {
			if s, isS := constString(call.Call.Args[1]); isS && isName(call.Call.Args[0]) {
				return neg + "HasPrefix(name," + fmt.Sprintf("%q", s) + ")"
			}
		}
	}
	if x, y, op, ok := ir.Rel(ir.Cond{V: v, Truth: neg == ""}); ok && (op == token.EQL || op == token.NEQ) {
		s, isS := constString(y)
		nm := x
		if !isS {
			s, isS = constString(x)
			nm = y
		}
		if isS && isName(nm) {
			if op == token.EQL {
				return "name==" + fmt.Sprintf("%q", s)
			}
			return "name!=" + fmt.Sprintf("%q", s)
		}
		// the remainder after strings.CutPrefix(name, P) compared with K: name == P+K (on the
		// found edge, which is where the remainder differs from the name)
		if e, isE := ir.NormCell(nm).(*ssa.Extract); isS && isE && e.Index == 0 {
			if call, isCall := e.Tuple.(*ssa.Call); isCall && ir.IsCallTo(&call.Call, "strings.CutPrefix", "strings.TrimPrefix") {
				if pfx, isP := constString(call.Call.Args[1]); isP && isName(call.Call.Args[0]) {
					if op == token.EQL {
						return "name==" + fmt.Sprintf("%q", pfx+s)
					}
					return "name!=" + fmt.Sprintf("%q", pfx+s)
				}
			}
		}
	}
	return neg + "other(" + v.String() + ")"
}

// ruleReservedPrefix: C17-D1.
func ruleReservedPrefix(c *chk.Ctx) {
	// the function that consults the assigner
	var af *ssa.Function
	var acall ssa.CallInstruction
	for _, f := range pkgFuncs(c, c.M.Pkg) {
		ir.Calls(f, func(ci ssa.CallInstruction) {
			cc := ci.Common()
			if cc.IsInvoke() && cc.Method.Name() == "Assign" && chk.LoadsField(cc.Value, c.M.SMux) {
				af, acall = f, ci
			}
		})
	}
	if af == nil {
		c.Undecided("TABLE.prefix", nil, "assigner call", 0, "no call of the server's assigner found")
		return
	}
	// every edge into the assigner call carries exactly ¬builtin or ¬HasPrefix(name, P)
	prefix := ""
	okEdges := true
	var seen []string
	b := acall.Block()
	var altsIn [][]ir.Cond
	for _, a := range ir.CondAltsAt(b) {
		altsIn = append(altsIn, expandPredicateHelpers(c, a, 0)...)
	}
	if len(altsIn) == 0 {
		okEdges = false
	}
	// the edges are read as a disjunction of conjunctions over the two atoms "builtin" and
	// "HasPrefix(name, P)"; it must be equivalent to ¬builtin ∨ ¬HasPrefix(name, P)
	type term struct{ b, p int } // -1 absent, 0 negated, 1 positive
	var terms []term
	for _, conds := range altsIn {
		var ks []string
		t := term{-1, -1}
		for _, cd := range dedupConds(conds) {
			k := describeGateCond(c, cd)
			ks = append(ks, k)
			switch {
			case k == "builtin":
				t.b = 1
			case k == "¬builtin":
				t.b = 0
			case strings.HasPrefix(k, "HasPrefix(name,"), strings.HasPrefix(k, "¬HasPrefix(name,"):
				pf := k[strings.Index(k, `"`)+1 : strings.LastIndex(k, `"`)]
				if prefix != "" && prefix != pf {
					okEdges = false
				}
				prefix = pf
				if strings.HasPrefix(k, "¬") {
					t.p = 0
				} else {
					t.p = 1
				}
			default:
				okEdges = false
			}
		}
		sort.Strings(ks)
		seen = append(seen, strings.Join(ks, "∧"))
		terms = append(terms, t)
	}
	for _, bv := range []int{0, 1} {
		for _, pv := range []int{0, 1} {
			got := false
			for _, t := range terms {
				if (t.b == -1 || t.b == bv) && (t.p == -1 || t.p == pv) {
					got = true
				}
			}
			if got != (bv == 0 || pv == 0) {
				okEdges = false
			}
		}
	}
	sort.Strings(seen)
	c.Check(okEdges && prefix != "", "TABLE.prefix", af, "assigner consulted exactly off the reserved prefix", acall.Pos(), "the assigner is reached exactly on ¬builtin or ¬HasPrefix(name, \""+prefix+"\")",
		"the assigner is reached on edges ["+strings.Join(seen, " | ")+"], not exactly {¬builtin, builtin∧¬HasPrefix(name, P)}: some reserved name reaches the assigner, or some ordinary name is withheld")
	c.Check(prefix == "rpc.", "TABLE.prefix", af, "reserved prefix", acall.Pos(), "the reserved prefix is \"rpc.\"", "the reserved prefix is \""+prefix+"\", not \"rpc.\"")
	// on the reserved edge: only constant names with that prefix map to a handler
	n := 0
	for _, r := range effectiveReturns(c, af, 0) {
		if r.Block() == b {
			continue
		}
		v := ir.ReturnResult(r, 0)
		var ks []string
		conds := ir.CondsAt(r.Block())
		if r.Parent() != af {
			// the handler chosen by a private helper the assign function ends in
			conds = c.P.CondsWithin(r, af)
		}
		if alts := expandPredicateHelpers(c, conds, 0); len(alts) == 1 {
			conds = alts[0]
		}
		for _, cd := range conds {
			ks = append(ks, describeGateCond(c, cd))
		}
		sort.Strings(ks)
		k := strings.Join(ks, "∧")
		if ir.IsNilConst(v) {
			continue
		}
		if call, isCall := v.(*ssa.Call); isCall && call == acall.(*ssa.Call) {
			continue // the assigner's own answer
		}
		n++
		okName := false
		for _, part := range ks {
			if strings.HasPrefix(part, "name==") {
				name := strings.Trim(strings.TrimPrefix(part, "name=="), `"`)
				if strings.HasPrefix(name, prefix) {
					okName = true
				}
			}
		}
		c.Check(okName, "TABLE.prefix", af, "built-in handler only for a reserved constant name", r.Pos(), "a built-in handler is returned only under name == a constant carrying the reserved prefix ["+k+"]", "a built-in handler is returned under ["+k+"], which is not equality with a constant reserved name")
	}
	if n == 0 {
		c.Undecided("TABLE.prefix", af, "built-in handler", af.Pos(), "no built-in handler return found")
	}
	// builtin = ¬DisableBuiltin (nil options ⇒ enabled)
	for _, st := range c.P.FieldStores(c.M.SBuiltin) {
		call, ok := st.Val.(*ssa.Call)
		if !ok || call.Call.StaticCallee() == nil {
			c.Fail("TABLE.prefix", st.Parent(), "builtin flag", st.Pos(), "the builtin flag is not set from the options accessor")
			continue
		}
		g := call.Call.StaticCallee()
		// truth table of the accessor: true ⇐ options == nil, or ¬DisableBuiltin; false ⇐ DisableBuiltin
		atomOf := func(v ssa.Value) (string, bool, bool) {
			if x, eq, ok := ir.NilCompare(v); ok {
				if _, isP := x.(*ssa.Parameter); isP {
					return "nil", !eq, true
				}
			}
			if ld, ok := v.(*ssa.UnOp); ok && ld.Op == token.MUL {
				if fa, ok := ld.X.(*ssa.FieldAddr); ok && ir.FieldVar(fa).Name() == "DisableBuiltin" {
					return "disabled", false, true
				}
			}
			return "", false, false
		}
		okAcc := true
		for _, as := range []map[string]bool{{"nil": true, "disabled": false}, {"nil": false, "disabled": false}, {"nil": false, "disabled": true}} {
			got, ok := c.P.EvalBool(g, atomOf, as)
			if !ok || got != (as["nil"] || !as["disabled"]) {
				okAcc = false
			}
		}
		c.Check(okAcc, "TABLE.prefix", g, "builtin = ¬DisableBuiltin", g.Pos(), "the accessor returns true for nil options and ¬DisableBuiltin otherwise", "the builtin flag is not exactly ¬DisableBuiltin (nil options ⇒ enabled)")
	}
}

// ruleMapAssign: C17-D2.
func ruleMapAssign(c *chk.Ctx) {
	n := 0
	for _, f := range pkgFuncs(c, c.M.HandlerPkg) {
		if f.Parent() != nil || ir.BaseName(f) != "Assign" || f.Signature.Recv() == nil || f.Synthetic != "" {
			continue
		}
		n++
		mp, ok := f.Signature.Recv().Type().Underlying().(*types.Map)
		if !ok {
			continue
		}
		method := f.Params[2]
		if isHandlerSig(c, mp.Elem()) {
			// Map: m[method] with the unmodified parameter
			// (or its comma-ok form, with nil returned only on the miss edge)
			okIdx := false
			allOK := true
			isLk := func(lk *ssa.Lookup) bool {
				return lk.Index == ssa.Value(method) && lk.X == ssa.Value(f.Params[0])
			}
			for _, r := range ir.Returns(f) {
				v := ir.ReturnResult(r, 0)
				if lk, ok := v.(*ssa.Lookup); ok && !lk.CommaOk && isLk(lk) {
					okIdx = true
					continue
				}
				if e, ok := v.(*ssa.Extract); ok && e.Index == 0 {
					if lk, ok := e.Tuple.(*ssa.Lookup); ok && isLk(lk) {
						okIdx = true
						continue
					}
				}
				miss := false
				if ir.IsNilConst(v) {
					for _, cd := range ir.CondsAt(r.Block()) {
						if e, ok := cd.V.(*ssa.Extract); ok && e.Index == 1 && !cd.Truth {
							if lk, ok := e.Tuple.(*ssa.Lookup); ok && isLk(lk) {
								miss = true
							}
						}
					}
				}
				if !miss {
					allOK = false
				}
			}
			okIdx = okIdx && allOK
			c.Check(okIdx, "TABLE.lookup", f, "exact-name lookup", f.Pos(), "the map is indexed with the unmodified method name", "Map.Assign does not index the map with the unmodified method name")
			continue
		}
		// ServiceMap: first-separator split
		var split *ssa.Call
		idiom := ""
		c.P.ExtInstrs(f, func(ins ssa.Instruction) {
			call, ok := ins.(*ssa.Call)
			if !ok || len(call.Call.Args) < 2 || (call.Call.Args[0] != ssa.Value(method) && c.P.Canon(call.Call.Args[0]) != ssa.Value(method)) {
				return
			}
			sep, _ := constString(call.Call.Args[1])
			sepB, isB := ir.ConstInt(call.Call.Args[1])
			switch {
			case ir.IsCallTo(&call.Call, "strings.SplitN") && sep == ".":
				if k, _ := ir.ConstInt(call.Call.Args[2]); k == 2 {
					split, idiom = call, "SplitN(m, \".\", 2)"
				} else {
					split, idiom = call, fmt.Sprintf("BAD SplitN with n=%d", k)
				}
			case ir.IsCallTo(&call.Call, "strings.Cut") && sep == ".":
				split, idiom = call, "Cut(m, \".\")"
			case ir.IsCallTo(&call.Call, "strings.Index") && sep == ".":
				split, idiom = call, "Index(m, \".\")"
			case ir.IsCallTo(&call.Call, "strings.IndexByte") && isB && sepB == '.':
				split, idiom = call, "IndexByte(m, '.')"
			case ir.IsCallTo(&call.Call, "strings.LastIndex", "strings.LastIndexByte", "strings.Split", "strings.SplitAfterN", "strings.SplitAfter"):
				split, idiom = call, "BAD "+ir.CalleeName(&call.Call)
			}
		})
		okSplit := split != nil && !strings.HasPrefix(idiom, "BAD")
		pos := f.Pos()
		if split != nil {
			pos = split.Pos()
		}
		c.Check(okSplit, "TABLE.lookup", f, "first-separator split", pos, "service and method are separated with "+idiom+" (first '.' only)", "ServiceMap.Assign does not split at the first '.' only ("+idiom+"): names with more than one dot would reach the wrong service or method")
		// returns nil on the no-separator edge and the missing-service edge; forwards the remainder unmodified
		nilRet, fwd := 0, false
		// every value that can be returned: a return's own, or — with one result variable and a
		// shared exit — each value that flows into it
		var retVals []ssa.Value
		for _, r := range ir.Returns(f) {
			v := ir.ReturnResult(r, 0)
			if phi, isPhi := v.(*ssa.Phi); isPhi {
				retVals = append(retVals, phi.Edges...)
				continue
			}
			retVals = append(retVals, v)
			// (one `return nil` reached from both failing tests counts for each of them)
			if ir.IsNilConst(v) {
				for i := 1; i < len(ir.CondAltsAt(r.Block())); i++ {
					retVals = append(retVals, v)
				}
			}
		}
		for _, v := range retVals {
			if ir.IsNilConst(v) {
				nilRet++
				continue
			}
			if call, ok := v.(*ssa.Call); ok && call.Call.IsInvoke() && call.Call.Method.Name() == "Assign" {
				// the receiver is a commaok lookup hit, the name derives from the split
				args := []ssa.Value{call.Call.Args[1]}
				// (the two parts may come back from a private splitting helper as fields of a
				// small struct: then the field's value at each of the helper's returns)
				if hc, ri, fk, isRes := ir.StructFieldOrigin(ir.NormCell(call.Call.Args[1])); isRes {
					if h := hc.Call.StaticCallee(); h != nil && c.P.InRepo[h] && !ir.Exported(h) {
						if fvs, known := ir.ResultFieldVals(h, ri, fk); known {
							args = nil
							for _, fv := range fvs {
								if !fv.Zero {
									args = append(args, fv.Val)
								}
							}
						}
					}
				}
				nFwd := 0
				for _, arg := range args {
					one := false
					for _, src := range c.P.SourcesStop(arg, func(x ssa.Value) bool { return x == ssa.Value(split) }) {
						if src == ssa.Value(split) {
							one = true
						}
					}
					if ir.IsExtractOf(arg, split, 1) {
						one = true // strings.Cut: the part after the first separator
					}
					// m[i+1:] with i the index of the first separator (directly, or as the result
					// of a private splitting helper)
					isRest := func(v ssa.Value) bool {
						sl, isSl := v.(*ssa.Slice)
						if !isSl || sl.High != nil || sl.Low == nil {
							return false
						}
						bo, isBO := sl.Low.(*ssa.BinOp)
						if !isBO || bo.Op != token.ADD {
							return false
						}
						k, isK := ir.ConstInt(bo.Y)
						return isK && k == 1 && bo.X == ssa.Value(split)
					}
					if isRest(ir.NormCell(arg)) {
						one = true
					}
					for _, src := range c.P.Sources(arg) {
						if isRest(src) {
							one = true
						}
					}
					if u, ok := arg.(*ssa.UnOp); ok {
						if ia, ok := u.X.(*ssa.IndexAddr); ok && ia.X == ssa.Value(split) {
							if k, _ := ir.ConstInt(ia.Index); k == 1 {
								one = true
							}
						}
					}
					if one {
						nFwd++
					}
				}
				if len(args) > 0 && nFwd == len(args) {
					fwd = true
				}
			}
		}
		c.Check(nilRet >= 2 && fwd, "TABLE.lookup", f, "failures are nil; remainder forwarded", f.Pos(), "nil for no separator and for an unknown service; the part after the first '.' is forwarded unmodified", "ServiceMap.Assign does not fail for both a missing separator and an unknown service, or does not forward the remainder of the name")
	}
	if n < 2 {
		c.Undecided("TABLE.lookup", nil, "Assign methods", 0, "found %d Assign methods in the handler package (want 2)", n)
	}
}

// ruleSortedNames: C17-D3.
func ruleSortedNames(c *chk.Ctx) {
	n := 0
	for _, f := range pkgFuncs(c, c.M.HandlerPkg) {
		if f.Parent() != nil || ir.BaseName(f) != "Names" || f.Signature.Recv() == nil || f.Synthetic != "" {
			continue
		}
		n++
		// (a `return h()` of a private helper — a name list's own "sorted" method — stands for
		// the helper's returns; the list may live in a field, read once to sort and once to return)
		for _, r := range effectiveReturns(c, f, 0) {
			v := ir.ReturnResult(r, 0)
			sorted := false
			ir.Instrs(r.Parent(), func(ins ssa.Instruction) {
				call, ok := ins.(*ssa.Call)
				if !ok {
					return
				}
				isSort := ir.IsCallTo(&call.Call, "sort.Strings", "slices.Sort")
				// (slices.SortFunc with the natural string order: strings.Compare / cmp.Compare)
				if strings.HasPrefix(ir.CalleeName(&call.Call), "slices.SortFunc") && len(call.Call.Args) == 2 {
					if fn, isFn := call.Call.Args[1].(*ssa.Function); isFn {
						if name := fn.String(); name == "strings.Compare" || strings.HasPrefix(name, "cmp.Compare") {
							isSort = true
						}
					}
				}
				if !isSort {
					return
				}
				if (call.Call.Args[0] == v || ir.SameFieldLoad(call.Call.Args[0], v)) && ir.InstrDominates(call, r) {
					sorted = true
				}
			})
			// or the result of slices.Sorted(...) itself
			if call, ok := v.(*ssa.Call); ok && strings.HasPrefix(ir.CalleeName(&call.Call), "slices.Sorted") {
				sorted = true
			}
			c.Check(sorted, "TABLE.sorted", f, "names are sorted", r.Pos(), "the returned slice passed through sort.Strings after its last append", "Names can return a slice that was not sorted after its last append (map iteration order would leak)")
		}
	}
	if n < 2 {
		c.Undecided("TABLE.sorted", nil, "Names methods", 0, "found %d Names methods (want 2)", n)
	}
}

// ruleContextKeys: C17-D4: each context reader has a writer with the type it asserts.
func ruleContextKeys(c *chk.Ctx, d *dispatchModel) {
	type rw struct {
		f   *ssa.Function
		pos token.Pos
		typ types.Type
	}
	readers := map[string][]rw{}
	writers := map[string][]rw{}
	keyOf := func(v ssa.Value) string {
		if mi, ok := v.(*ssa.MakeInterface); ok {
			t := mi.X.Type()
			if n, ok := types.Unalias(t).(*types.Named); ok {
				if _, isStruct := n.Underlying().(*types.Struct); isStruct && strings.HasSuffix(n.Obj().Name(), "Key") {
					return n.Obj().Name()
				}
			}
		}
		return ""
	}
	for _, f := range pkgFuncs(c, c.M.Pkg) {
		ir.Instrs(f, func(ins ssa.Instruction) {
			call, ok := ins.(*ssa.Call)
			if !ok {
				return
			}
			if call.Call.IsInvoke() && call.Call.Method.Name() == "Value" && len(call.Call.Args) == 1 {
				if k := keyOf(call.Call.Args[0]); k != "" {
					// asserted type
					for _, r := range *call.Referrers() {
						if ta, ok := r.(*ssa.TypeAssert); ok {
							readers[k] = append(readers[k], rw{f, call.Pos(), ta.AssertedType})
						}
					}
				}
			}
			if ir.IsCallTo(&call.Call, "context.WithValue") {
				if k := keyOf(call.Call.Args[1]); k != "" {
					if mi, ok := call.Call.Args[2].(*ssa.MakeInterface); ok {
						writers[k] = append(writers[k], rw{f, call.Pos(), mi.X.Type()})
					}
				}
			}
		})
	}
	if len(readers) < 3 {
		c.Undecided("TABLE.ctxkey", nil, "context readers", 0, "found %d context keys read (want 3)", len(readers))
	}
	var keys []string
	for k := range readers {
		keys = append(keys, k)
	}
	sort.Strings(keys)
	for _, k := range keys {
		for _, r := range readers[k] {
			ok := false
			for _, w := range writers[k] {
				if types.Identical(w.typ, r.typ) {
					ok = true
				}
			}
			c.Check(ok, "TABLE.ctxkey", r.f, "context key "+k, r.pos, "a WithValue writer stores a "+types.TypeString(r.typ, nil)+" under this key, as the reader asserts", "no writer stores a value of the asserted type "+types.TypeString(r.typ, nil)+" under key "+k+": the accessor would panic or return nil")
		}
	}
	// the assigner sees the request: the assign call in check/assign takes the task's context, after the context-attach call for the same task
	if d != nil {
		var attach, assign ssa.CallInstruction
		for _, g := range c.P.Ext(d.checkAssign) {
			ir.Calls(g, func(ci ssa.CallInstruction) {
				cc := ci.Common()
				if ir.IsCallTo(cc, "context.WithValue") && len(cc.Args) == 3 {
					if mi, ok := cc.Args[2].(*ssa.MakeInterface); ok {
						if _, fv, ok := taskFieldLoad(c, mi.X); ok && fv == c.M.THreq {
							attach = ci
						}
					}
				}
			})
		}
		c.P.ExtCalls(d.checkAssign, func(ci ssa.CallInstruction) {
			g := ci.Common().StaticCallee()
			if g != nil && ir.RecvNamed(g) == c.M.Server && g.Signature.Results().Len() == 1 && isHandlerSig(c, g.Signature.Results().At(0).Type()) {
				// (the assign function takes the context; a helper that merely picks a built-in does not)
				takesCtx := false
				for i := 0; i < g.Signature.Params().Len(); i++ {
					if g.Signature.Params().At(i).Type().String() == "context.Context" {
						takesCtx = true
					}
				}
				if takesCtx || assign == nil {
					assign = ci
				}
			}
		})
		ok := attach != nil && assign != nil && c.P.IDominates(attach, assign)
		if ok {
			_, fv, isTask := taskFieldLoad(c, assign.Common().Args[1])
			ok = isTask && fv == c.M.TCtx
			if !ok {
				// or the very value that is stored into the task's context
				c.P.ExtInstrs(d.checkAssign, func(ins ssa.Instruction) {
					if st, isSt := ins.(*ssa.Store); isSt && chk.IsField(st.Addr, c.M.TCtx) && ir.SameValue(st.Val, assign.Common().Args[1]) {
						ok = true
					}
				})
			}
		}
		pos := d.checkAssign.Pos()
		if assign != nil {
			pos = assign.Pos()
		}
		c.Check(ok, "TABLE.ctxkey", d.checkAssign, "assigner gets the request's context", pos, "the assigner is called with the task's context, after the inbound request was attached to it", "the assigner is not given the context that carries the inbound request")
		// the context attached carries the request of the same task
		okReq := false
		c.P.ExtInstrs(d.checkAssign, func(ins ssa.Instruction) {
			call, ok := ins.(*ssa.Call)
			if !ok || !ir.IsCallTo(&call.Call, "context.WithValue") {
				return
			}
			if mi, ok := call.Call.Args[2].(*ssa.MakeInterface); ok {
				if _, fv, ok := taskFieldLoad(c, mi.X); ok && fv == c.M.THreq {
					okReq = true
				}
			}
		})
		c.Check(okReq, "TABLE.ctxkey", d.setContext, "context carries the task's own request", d.setContext.Pos(), "the value stored under the inbound-request key is the task's own request", "the context does not carry the task's own request")
		// the handler is called with the context that carries the server
		hc := d.handlerCall.Common()
		okSrv := false
		isWV := func(v ssa.Value) bool {
			call, ok := v.(*ssa.Call)
			return ok && ir.IsCallTo(&call.Call, "context.WithValue")
		}
		nsrc := 0
		for _, src := range c.P.SourcesStop(hc.Args[0], isWV) {
			nsrc++
			call, ok := src.(*ssa.Call)
			good := false
			if ok && isWV(src) && keyOf(call.Call.Args[1]) != "" {
				if mi, ok := call.Call.Args[2].(*ssa.MakeInterface); ok {
					if pt, ok := mi.X.Type().(*types.Pointer); ok && types.Unalias(pt.Elem()) == types.Type(c.M.Server) {
						good = true
					}
				}
			}
			if !good {
				nsrc = -1000
			}
		}
		okSrv = nsrc > 0
		c.Check(okSrv, "TABLE.ctxkey", d.invoke, "handler context carries the server", d.handlerCall.Pos(), "the handler receives the context extended with the server under its key", "the handler is not called with the context that carries the server")
	}
}

// ruleServerInfo: C17-D5.
func ruleServerInfo(c *chk.Ctx) {
	si := c.M.Func(c.M.Pkg, "(*Server).ServerInfo")
	if si == nil {
		c.Undecided("TABLE.info", nil, "ServerInfo", 0, "not found")
		return
	}
	okNames := false
	c.P.ExtCalls(si, func(ci ssa.CallInstruction) {
		if ci.Common().IsInvoke() && ci.Common().Method.Name() == "Names" {
			// on a type assertion of the assigner field
			okNames = true
		}
	})
	c.Check(okNames, "TABLE.info", si, "methods come from the assigner's Names", si.Pos(), "ServerInfo lists the assigner's Names() when it is a Namer", "ServerInfo does not take the method list from the assigner")
}
