package props

import (
	"fmt"
	"go/token"
	"go/types"
	"strings"

	"golang.org/x/tools/go/ssa"

	"jrpcvet/internal/chk"
	"jrpcvet/internal/ir"
)

// Rules added after the third round of independently seeded breakages. Each
// is a structural necessary condition of the clause named in its message.

// ruleNoWaitInDispatchLoop: the loop that starts a batch's handlers contains
// no blocking wait (WaitGroup.Wait / channel receive): a wait there would hold
// back later tasks although semaphore slots are free.
func ruleNoWaitInDispatchLoop(c *chk.Ctx, d *dispatchModel) {
	cl := taskLoopFunc(c, d)
	bad := ""
	n := 0
	ir.Instrs(cl, func(ins ssa.Instruction) {
		if !ir.InCycle(ins.Block()) {
			return
		}
		n++
		switch x := ins.(type) {
		case *ssa.Call:
			if _, ok := wgCall(x, "Wait"); ok {
				bad = "WaitGroup.Wait at " + c.P.Pos(x.Pos())
			}
		case *ssa.UnOp:
			if x.Op == token.ARROW {
				bad = "channel receive at " + c.P.Pos(x.Pos())
			}
		case *ssa.Select:
			if x.Blocking {
				bad = "blocking select at " + c.P.Pos(x.Pos())
			}
		}
	})
	c.Check(bad == "" && n > 0, "GO.nowait", cl, "no blocking wait inside the task loop", cl.Pos(), "the loop that starts the batch's handlers contains no WaitGroup.Wait, receive or blocking select: every runnable task is handed to the semaphore at once", "the loop that starts the batch's handlers blocks ("+bad+"): later tasks of the batch wait for earlier ones although slots are free (the limit is no longer work-conserving)")
}

// rulePerChannelState: mutable per-channel state (buffers, readers) stored
// into a channel value is created in the same function as the channel value.
func rulePerChannelState(c *chk.Ctx) {
	n := 0
	for _, f := range pkgFuncs(c, c.M.ChanPkg) {
		ir.Instrs(f, func(ins ssa.Instruction) {
			st, ok := ins.(*ssa.Store)
			if !ok {
				return
			}
			fa, ok := st.Addr.(*ssa.FieldAddr)
			if !ok {
				return
			}
			al, ok := fa.X.(*ssa.Alloc)
			if !ok || al.Parent() != f {
				return
			}
			t := ir.FieldVar(fa).Type().String()
			helper := t == "*bytes.Buffer" || t == "*bufio.Reader" || t == "*encoding/json.Decoder"
			switch ir.FieldVar(fa).Type().Underlying().(type) {
			case *types.Slice, *types.Map:
				// a buffer or table of the channel: mutable storage just the same
			default:
				if !helper {
					return
				}
			}
			if helper {
				n++
			}
			v := st.Val
			if sl, isSl := v.(*ssa.Slice); isSl {
				v = sl.X
			}
			_, fromOuter := v.(*ssa.FreeVar)
			if gl := globalLoad(v); gl != nil {
				fromOuter = true
			}
			if u, ok := v.(*ssa.UnOp); ok {
				if _, isFV := u.X.(*ssa.FreeVar); isFV {
					fromOuter = true
				}
			}
			c.Check(!fromOuter, "WHO.chanstate", f, "per-channel "+ir.FieldVar(fa).Name(), st.Pos(), "the channel's "+t+" is created where the channel value is created (one per channel)", "a channel's "+t+" comes from the enclosing scope: every channel built from the same framing value shares it, so concurrent connections corrupt each other's records")
		})
	}
	if n < 3 {
		c.Undecided("WHO.chanstate", nil, "per-channel state", 0, "found %d per-channel helper objects (confirmed by hand: ≥ 3)", n)
	}
	// and there is no buffer storage at package level: a pool or free list of receive (or send)
	// buffers is shared by every channel of the process, so a record handed out by one channel
	// could be overwritten by a Recv on another while its caller is still reading it
	shared := ""
	var holds func(t types.Type, depth int) bool
	holds = func(t types.Type, depth int) bool {
		if depth > 5 {
			return false
		}
		switch ts := t.String(); ts {
		case "bytes.Buffer", "bufio.Reader", "bufio.Writer", "sync.Pool", "strings.Builder":
			return true
		}
		switch u := t.Underlying().(type) {
		case *types.Slice:
			if b, isB := u.Elem().Underlying().(*types.Basic); isB && b.Kind() == types.Byte {
				return true
			}
			return holds(u.Elem(), depth+1)
		case *types.Array:
			return holds(u.Elem(), depth+1)
		case *types.Pointer:
			return holds(u.Elem(), depth+1)
		case *types.Map:
			return holds(u.Elem(), depth+1)
		case *types.Chan:
			return holds(u.Elem(), depth+1)
		case *types.Struct:
			for i := 0; i < u.NumFields(); i++ {
				if holds(u.Field(i).Type(), depth+1) {
					return true
				}
			}
		}
		return false
	}
	// (constant data — a prefix or separator kept as a byte slice and only ever read — is not
	// storage: what counts is a variable some function other than the initialiser writes
	// through, or a pool)
	rootGlobal := func(v ssa.Value) *ssa.Global {
		for i := 0; i < 8; i++ {
			switch x := v.(type) {
			case *ssa.Global:
				return x
			case *ssa.FieldAddr:
				v = x.X
			case *ssa.IndexAddr:
				v = x.X
			case *ssa.UnOp:
				v = x.X
			case *ssa.Slice:
				v = x.X
			default:
				return nil
			}
		}
		return nil
	}
	written := map[*ssa.Global]bool{}
	for _, f := range pkgFuncs(c, c.M.ChanPkg) {
		if f.Name() == "init" || strings.HasPrefix(f.Name(), "init#") {
			continue
		}
		ir.Instrs(f, func(ins ssa.Instruction) {
			switch x := ins.(type) {
			case *ssa.Store:
				if g := rootGlobal(x.Addr); g != nil {
					written[g] = true
				}
			case *ssa.MapUpdate:
				if g := rootGlobal(x.Map); g != nil {
					written[g] = true
				}
			case ssa.CallInstruction:
				// a method with a pointer receiver called on the variable (pool.Get, buf.Write)
				for _, a := range x.Common().Args {
					if g := rootGlobal(a); g != nil {
						if _, isPtr := a.Type().(*types.Pointer); isPtr {
							written[g] = true
						}
					}
				}
			}
		})
	}
	for _, m := range c.M.ChanPkg.Members {
		if g, ok := m.(*ssa.Global); ok {
			if pt, isPtr := g.Type().(*types.Pointer); isPtr && holds(pt.Elem(), 0) && written[g] && shared == "" {
				shared = g.Name() + " at " + c.P.Pos(g.Pos())
			}
		}
	}
	c.Check(shared == "", "WHO.chanstate", nil, "no buffer storage at package level", 0, "no package-level variable of the channel package that is written after initialisation holds a byte buffer, reader, writer or pool", "the channel package keeps buffer storage at package level ("+shared+"): it is shared by every channel, so a record returned by one channel's Recv can be overwritten through another channel while its caller still reads it")
}

// ruleRawDecoderReadsStream: the RawJSON decoder is built directly on the
// constructor's reader.
func ruleRawDecoderReadsStream(c *chk.Ctx) {
	n := 0
	for _, f := range pkgFuncs(c, c.M.ChanPkg) {
		ir.Instrs(f, func(ins ssa.Instruction) {
			call, ok := ins.(*ssa.Call)
			if !ok || !ir.IsCallTo(&call.Call, "encoding/json.NewDecoder", "bufio.NewReader", "bufio.NewReaderSize") {
				return
			}
			n++
			_, direct := call.Call.Args[0].(*ssa.Parameter)
			why := ""
			if !direct {
				// a reader type of the package itself is acceptable when its Read hands on the inner
				// Read's byte count on every return
				direct, why = transparentReader(c, call.Call.Args[0])
			}
			c.Check(direct, "WHO.chanstate", f, "decoder reads the stream itself", call.Pos(), "the buffered reader / decoder is given the constructor's reader unchanged", "the framing's reader is built on a wrapped reader"+why+": the wrapper's own end-of-stream, byte budget or dropped byte counts would truncate or lose records")
		})
	}
	if n == 0 {
		c.Undecided("WHO.chanstate", nil, "stream decoder", 0, "no json.NewDecoder in the channel package")
	}
}

// transparentReader: v is a value of a reader type declared in the repository
// whose Read method returns, on every path, the byte count of the inner Read
// it forwards to (bytes delivered together with an error are not dropped).
func transparentReader(c *chk.Ctx, v ssa.Value) (bool, string) {
	mi, ok := v.(*ssa.MakeInterface)
	if !ok {
		return false, ""
	}
	var read *ssa.Function
	for _, f := range c.P.Funcs {
		if f.Parent() == nil && ir.BaseName(f) == "Read" && f.Signature.Recv() != nil && types.Identical(f.Signature.Recv().Type(), mi.X.Type()) {
			read = f
		}
	}
	if read == nil || read.Signature.Results().Len() != 2 {
		return false, ""
	}
	var inner *ssa.Call
	ir.Instrs(read, func(ins ssa.Instruction) {
		if call, ok := ins.(*ssa.Call); ok && call.Call.IsInvoke() && call.Call.Method.Name() == "Read" {
			inner = call
		}
	})
	if inner == nil {
		return false, " (its Read does not forward to an inner Read)"
	}
	for _, r := range ir.Returns(read) {
		if !ir.IsExtractOf(ir.ReturnResult(r, 0), inner, 0) {
			return false, " (its Read at " + c.P.Pos(r.Pos()) + " does not return the inner Read's byte count: bytes delivered together with an error would be lost)"
		}
	}
	return true, ""
}

// ruleUnmarshalParamsErrors: every error (*Request).UnmarshalParams returns
// is the InvalidParams sentinel with data (the handler wrapper passes *Error
// values through unchanged, so this is where the code is fixed).
func ruleUnmarshalParamsErrors(c *chk.Ctx) {
	f := c.M.Func(c.M.Pkg, "(*Request).UnmarshalParams")
	if f == nil {
		c.Undecided("PROV.invalidparams", nil, "UnmarshalParams", 0, "not found")
		return
	}
	globs := errorGlobals(c)
	ip, _ := pkgConstInt(c.M.Pkg, "InvalidParams")
	n := 0
	for _, r := range ir.Returns(f) {
		v := ir.ReturnResult(r, 0)
		if ir.IsNilConst(v) {
			continue
		}
		n++
		g := errGlobalOf(c, v)
		isWithData := false
		if mi, ok := v.(*ssa.MakeInterface); ok {
			if call, ok := mi.X.(*ssa.Call); ok && call.Call.StaticCallee() != nil && ir.BaseName(call.Call.StaticCallee()) == "WithData" {
				isWithData = true
			}
		}
		c.Check(g != nil && globs[g] == ip && isWithData, "PROV.invalidparams", f, "decode failures are InvalidParams", r.Pos(), "the error returned is the InvalidParams sentinel with data", "UnmarshalParams can return an error that is not built from the InvalidParams sentinel: the handler wrapper passes *Error values through, so a decode failure could reach the caller with a foreign code")
	}
	if n == 0 {
		c.Undecided("PROV.invalidparams", f, "error returns", f.Pos(), "no error return found")
	}
}

// ruleObjDecodeOnlyPresence: the per-key decode of Obj is subject to key
// presence only.
func ruleObjDecodeOnlyPresence(c *chk.Ctx) {
	f := handlerFunc(c, "(Obj).UnmarshalJSON")
	if f == nil {
		c.Undecided("PAIR.obj", nil, "ruleObjDecodeOnlyPresence: anchor", 0, "the code this rule is anchored in was not found (f == nil)")
		return
	}
	ir.Instrs(f, func(ins ssa.Instruction) {
		call, ok := ins.(*ssa.Call)
		if !ok || !ir.IsCallTo(&call.Call, "encoding/json.Unmarshal") {
			return
		}
		src := call.Call.Args[0]
		if ct, ok := src.(*ssa.ChangeType); ok {
			src = ct.X
		}
		if _, isExtract := src.(*ssa.Extract); !isExtract {
			return
		}
		extra := []string{}
		for _, cd := range ir.CondsAt(call.Block()) {
			if e, ok := cd.V.(*ssa.Extract); ok {
				if _, isLk := e.Tuple.(*ssa.Lookup); isLk && e.Index == 1 {
					continue // key presence
				}
				if _, isNext := e.Tuple.(*ssa.Next); isNext {
					continue // range loop
				}
			}
			if x, _, ok := ir.NilCompare(cd.V); ok {
				if call0, ok := x.(*ssa.Call); ok && ir.IsCallTo(&call0.Call, "encoding/json.Unmarshal") {
					continue // the object parse succeeded
				}
			}
			extra = append(extra, cd.V.String())
		}
		c.Check(len(extra) == 0, "PAIR.obj", f, "presence is the only condition", call.Pos(), "a present key is always decoded (no further condition on its value)", "the per-key decode is subject to a condition beyond key presence ("+strings.Join(extra, "; ")+"): some present keys (e.g. null values) would be skipped, unlike encoding/json")
	})
}

// ruleOmitTagConds: a positional name is turned into a json name only when it
// is neither empty nor "-".
func ruleOmitTagConds(c *chk.Ctx) {
	n := 0
	for _, f := range pkgFuncs(c, c.M.HandlerPkg) {
		f := f
		ir.Instrs(f, func(ins ssa.Instruction) {
			// the instruction that builds the tag text: a Sprintf with a json: format, or a string
			// concatenation with a constant piece containing json:"
			isTag := false
			if call, ok := ins.(*ssa.Call); ok && ir.IsCallTo(&call.Call, "fmt.Sprintf") {
				if s, isS := constString(call.Call.Args[0]); isS && strings.Contains(s, "json:") {
					isTag = true
				}
			}
			if bo, ok := ins.(*ssa.BinOp); ok && bo.Op == token.ADD {
				for _, side := range []ssa.Value{bo.X, bo.Y} {
					if s, isS := constString(side); isS && strings.Contains(s, "json:\"") {
						isTag = true
					}
				}
			}
			if !isTag {
				return
			}
			n++
			good := true
			for _, ctx := range c.P.Contexts(ins, nil) {
				ne, nd := false, false
				for _, cd := range ctx {
					x, y, op, ok := ir.Rel(cd)
					if !ok {
						continue
					}
					k, isK := constString(y)
					if !isK {
						k, isK = constString(x)
					}
					if !isK {
						continue
					}
					if k == "" && op == token.NEQ {
						ne = true
					}
					if k == "-" && op == token.NEQ {
						nd = true
					}
				}
				if !ne || !nd {
					good = false
				}
			}
			c.Check(good, "PAIR.positional", f, "a name is usable only if it is neither empty nor \"-\"", ins.Pos(), "the json name tag is generated only on the name != \"\" ∧ name != \"-\" edge; otherwise the field is unreachable by name", "the json name tag is generated although the name may be empty or \"-\": the slot would be settable through the generated field name, bypassing the given names")
		})
	}
	if n == 0 {
		c.Undecided("PAIR.positional", nil, "tag generation", 0, "no generated json tag found in the handler package")
	}
}

// ruleEnvelopeErrorOnlyFromJSON: the list parser reports a top-level error
// only on the error edge of json.Unmarshal.
func ruleEnvelopeErrorOnlyFromJSON(c *chk.Ctx) {
	var lp *ssa.Function
	for _, f := range pkgFuncs(c, c.M.Pkg) {
		if f.Parent() == nil && isListParser(c, f) {
			lp = f
		}
	}
	if lp == nil {
		c.Undecided("TABLE.parsereq", nil, "ruleEnvelopeErrorOnlyFromJSON: anchor", 0, "the code this rule is anchored in was not found (lp == nil)")
		return
	}
	n := 0
	for _, ra := range effectiveResults(c, lp, 0, 0) {
		r := ra.r
		if ir.IsNilConst(ir.ReturnResult(r, ra.idx)) {
			continue
		}
		n++
		ok := false
		for _, cd := range ir.CondsAt(r.Block()) {
			if x, eq, isN := ir.NilCompare(cd.V); isN && eq != cd.Truth {
				// the value tested is json.Unmarshal's result (on every way it can be produced:
				// one error variable may collect the results of the array and the single decode)
				all, some := true, false
				for _, src := range c.P.SourcesStop(x, func(v ssa.Value) bool { _, isCall := v.(*ssa.Call); return isCall }) {
					if call, isCall := src.(*ssa.Call); isCall && ir.IsCallTo(&call.Call, "encoding/json.Unmarshal") {
						some = true
					} else {
						all = false
					}
				}
				if all && some {
					ok = true
				}
			}
		}
		c.Check(ok, "TABLE.parsereq", lp, "top-level error exactly for invalid JSON", r.Pos(), "the envelope parser fails only on the err != nil edge of json.Unmarshal", "the envelope parser reports a top-level error on a path other than json.Unmarshal's failure: valid JSON that is not a request object would lose its per-member error entry")
	}
	if n == 0 {
		c.Undecided("TABLE.parsereq", lp, "envelope error", lp.Pos(), "no error return in the envelope parser")
	}
}

// ruleWatcherReportsCtxErr: a context watcher completes its request with the
// watched context's own Err().
func ruleWatcherReportsCtxErr(c *chk.Ctx, owner string) {
	n := 0
	for _, s := range slotSends(c) {
		if s.owner != owner {
			continue
		}
		// the watcher: the function of the slot write, or the private caller it was split from,
		// whose first action is to wait for a context to end
		f := s.fn
		var ctxParam ssa.Value
		for up := 0; up < 4 && f != nil && ctxParam == nil; up++ {
			if len(f.Blocks) > 0 {
				for _, ins := range f.Blocks[0].Instrs {
					if u, ok := ins.(*ssa.UnOp); ok && u.Op == token.ARROW {
						if cx, ok := doneRecvCtx(u.X); ok {
							ctxParam = c.P.Canon(cx)
						}
					}
				}
			}
			if ctxParam == nil {
				cs, ok := c.P.SoleCaller(f)
				if !ok {
					break
				}
				f = cs.Caller
			}
		}
		if ctxParam == nil {
			continue
		}
		n++
		okAll := true
		found := false
		isCtxErr := func(v ssa.Value) bool {
			inv, isCall := ir.NormCell(v).(*ssa.Call)
			return isCall && inv.Call.IsInvoke() && inv.Call.Method.Name() == "Err" && (c.P.Canon(inv.Call.Value) == ctxParam || ir.SameValue(c.P.Canon(inv.Call.Value), ctxParam))
		}
		c.P.ExtInstrs(f, func(ins ssa.Instruction) {
			call, ok := ins.(*ssa.Call)
			if !ok || call.Call.StaticCallee() == nil || ir.BaseName(call.Call.StaticCallee()) != "ErrorCode" {
				return
			}
			found = true
			// the classified value is ctx.Err() of the watched context, possibly handed to a helper
			for _, src := range c.P.SourcesStop(call.Call.Args[0], isCtxErr) {
				if !isCtxErr(src) {
					okAll = false
				}
			}
		})
		c.Check(found && okAll, "TABLE.ctxerr", f, owner+" watcher reports the context's own error", f.Pos(), "the code of the synthetic reply is ErrorCode(ctx.Err()) of the watched context", "the watcher classifies something other than the watched context's Err() (e.g. its cause): the caller would not get context.Canceled / DeadlineExceeded")
	}
	if n == 0 {
		c.Undecided("TABLE.ctxerr", nil, owner+" watcher", 0, "no context watcher found for the %s", owner)
	}
}

// ruleHeaderLoopExits: the header loop is left (towards the body) only on the
// blank-line edge.
func ruleHeaderLoopExits(c *chk.Ctx) {
	for _, f := range pkgFuncs(c, c.M.ChanPkg) {
		var rd *ssa.Call
		var lineHelper *ssa.Function
		isLineRead := func(cc *ssa.CallCommon) bool {
			return ir.IsCallTo(cc, "(*bufio.Reader).ReadString", "(*bufio.Reader).ReadLine", "(*bufio.Reader).ReadBytes")
		}
		ir.Instrs(f, func(ins ssa.Instruction) {
			call, ok := ins.(*ssa.Call)
			if !ok || !ir.InCycle(call.Block()) {
				return
			}
			if isLineRead(&call.Call) {
				rd, lineHelper = call, nil
				return
			}
			// or a private helper that reads (and trims) one header line per call
			if g := call.Call.StaticCallee(); g != nil && c.P.InRepo[g] && !ir.Exported(g) && g != f && rd == nil {
				reads, loops := false, false
				c.P.ExtInstrs(g, func(i2 ssa.Instruction) {
					if c2, ok := i2.(*ssa.Call); ok && isLineRead(&c2.Call) {
						reads = true
						if ir.InCycle(c2.Block()) {
							loops = true
						}
					}
				})
				if reads && !loops {
					rd, lineHelper = call, g
				}
			}
		})
		if rd == nil {
			continue
		}
		// trimmed(v): v is the line with its terminator trimmed off — a Trim call, or the line
		// helper's result, which on every successful return is one
		// (only the line terminator may be trimmed: a line of blanks is not the blank line, and a
		// field name does not start with a blank)
		isTermTrim := func(call *ssa.Call) bool {
			if !ir.IsCallTo(&call.Call, "strings.TrimRight", "strings.TrimSuffix") || len(call.Call.Args) != 2 {
				return false
			}
			cut, isK := constString(call.Call.Args[1])
			return isK && cut != "" && strings.Trim(cut, "\r\n") == ""
		}
		trimmed := func(v ssa.Value) bool {
			if call, ok := v.(*ssa.Call); ok && isTermTrim(call) {
				return true
			}
			if lineHelper == nil || !(ir.IsExtractOf(v, rd, 0) || v == ssa.Value(rd)) {
				return false
			}
			all, some := true, false
			for _, r := range effectiveReturns(c, lineHelper, 0) {
				last := len(r.Results) - 1
				if last > 0 && !ir.IsNilConst(ir.ReturnResult(r, last)) {
					continue
				}
				some = true
				call, ok := ir.ReturnResult(r, 0).(*ssa.Call)
				if !ok || !isTermTrim(call) {
					all = false
				}
			}
			return all && some
		}
		hdr := loopHeaderOf(rd.Block())
		if hdr == nil {
			c.Undecided("PAIR.hdrloop", f, "header loop", rd.Pos(), "loop header not found")
			return
		}
		in := map[*ssa.BasicBlock]bool{}
		for _, b := range f.Blocks {
			if hdr.Dominates(b) && (b == hdr || reachesWithout(b, hdr, nil)) {
				in[b] = true
			}
		}
		okAll, n := true, 0
		var bad string
		for b := range in {
			for _, s := range b.Succs {
				if in[s] {
					continue
				}
				if len(s.Instrs) > 0 {
					if _, isRet := s.Instrs[len(s.Instrs)-1].(*ssa.Return); isRet && len(s.Succs) == 0 && returnsError(s) {
						continue // an error exit
					}
				}
				n++
				blank := false
				for _, cd := range ir.EdgeConds(b, s) {
					if bo, ok := cd.V.(*ssa.BinOp); ok && bo.Op == token.EQL && cd.Truth {
						if k, isK := constString(bo.Y); isK && k == "" && trimmed(bo.X) {
							blank = true
						}
					}
				}
				if !blank {
					okAll = false
					bad = c.P.Pos(b.Instrs[len(b.Instrs)-1].Pos())
				}
			}
		}
		c.Check(okAll && n > 0, "PAIR.hdrloop", f, "header block ends only at a blank line", rd.Pos(), "the header loop is left towards the body only on the 'line is blank' edge; every other exit returns an error", "the header loop can be left at "+bad+" without having read the blank line: a header block cut off by end of stream would be accepted (with a zero length, as an empty record and no error)")
		return
	}
	c.Undecided("PAIR.hdrloop", nil, "header loop", 0, "no line-reading loop found in a Recv method")
}

func returnsError(b *ssa.BasicBlock) bool {
	r, ok := b.Instrs[len(b.Instrs)-1].(*ssa.Return)
	if !ok || len(r.Results) == 0 {
		return false
	}
	return !ir.IsNilConst(ir.ReturnResult(r, len(r.Results)-1))
}

// ruleEveryPeerErrorFiltered: after a Response has settled, every error the
// single-response entry points return goes through filterError.
func ruleEveryPeerErrorFiltered(c *chk.Ctx) {
	var settle *ssa.Function
	for _, f := range pkgFuncs(c, c.M.Pkg) {
		ir.Instrs(f, func(ins ssa.Instruction) {
			if _, _, ok := slotRecvAt(c, ins); ok {
				settle = f
			}
		})
	}
	if settle == nil {
		c.Undecided("PROV.settle", nil, "ruleEveryPeerErrorFiltered: anchor", 0, "the code this rule is anchored in was not found (settle == nil)")
		return
	}
	for _, f := range pkgFuncs(c, c.M.Pkg) {
		// (every entry point of the client and the server that hands back one call's outcome:
		// the response with its error, or — a convenience form — the error alone)
		nres := f.Signature.Results().Len()
		if f.Parent() != nil || !ir.Exported(f) || nres == 0 || nres > 2 || f.Signature.Results().At(nres-1).Type().String() != "error" {
			continue
		}
		if rn := ir.RecvNamed(f); nres == 1 && (rn == nil || (rn != c.M.Client && rn != c.M.Server)) {
			continue
		}
		if _, isSlice := f.Signature.Results().At(0).Type().(*types.Slice); isSlice {
			continue
		}
		var wait *ssa.Call
		ir.Instrs(f, func(ins ssa.Instruction) {
			if call, ok := ins.(*ssa.Call); ok {
				if g := call.Call.StaticCallee(); g == settle || (g != nil && c.P.InRepo[g] && !ir.Exported(g) && reachesCallee(c, g, settle, 1)) {
					wait = call
				}
			}
		})
		if wait == nil {
			continue
		}
		bad := ""
		for _, r := range ir.Returns(f) {
			if !ir.InstrDominates(wait, r) {
				continue
			}
			ev := ir.ReturnResult(r, nres-1)
			if ir.IsNilConst(ev) {
				continue
			}
			if nres == 1 && !fromResponse(c, ev) {
				continue // (an error of the transmission, not the peer's)
			}
			if through, _ := errorsThroughFilter(c, ev); !through {
				bad = c.P.Pos(r.Pos())
			}
		}
		c.Check(bad == "", "PROV.settle", f, "every peer error goes through filterError", f.Pos(), "after the Response settled, every non-nil error returned is filterError(...)", fmt.Sprintf("the return at %s hands back the peer's error without filterError: a handler's context.Canceled / DeadlineExceeded would reach the caller as a bare *Error", bad))
	}
}

// ruleLoopSuccessReachesFinish: once a service's Assigner succeeded, every
// path of the connection goroutine reaches Finish.
func ruleLoopSuccessReachesFinish(c *chk.Ctx) {
	loop := c.M.Func(c.M.ServerPkg, "Loop")
	if loop == nil {
		c.Undecided("PAIR.loop", nil, "ruleLoopSuccessReachesFinish: anchor", 0, "the code this rule is anchored in was not found (loop == nil)")
		return
	}
	for _, g := range pkgFuncs(c, c.M.ServerPkg) {
		var assigner *ssa.Call
		ir.Instrs(g, func(ins ssa.Instruction) {
			if call, ok := ins.(*ssa.Call); ok && call.Call.IsInvoke() && call.Call.Method.Name() == "Assigner" {
				assigner = call
			}
		})
		if assigner == nil {
			continue
		}
		var okEdge *ssa.BasicBlock
		for _, r := range *assigner.Referrers() {
			if e, ok := r.(*ssa.Extract); ok && e.Index == 1 {
				for _, r2 := range *e.Referrers() {
					if bo, ok := r2.(*ssa.BinOp); ok {
						for _, r3 := range *bo.Referrers() {
							if iff, ok := r3.(*ssa.If); ok {
								_, eq, _ := ir.NilCompare(bo)
								if eq {
									okEdge = iff.Block().Succs[0]
								} else {
									okEdge = iff.Block().Succs[1]
								}
							}
						}
					}
				}
			}
		}
		if okEdge == nil || len(okEdge.Instrs) == 0 {
			c.Undecided("PAIR.loop", g, "initialised service is finished", assigner.Pos(), "cannot find the Assigner success edge")
			return
		}
		isFinish := func(i ssa.Instruction) bool {
			call, ok := i.(*ssa.Call)
			return ok && call.Call.IsInvoke() && call.Call.Method.Name() == "Finish"
		}
		first := okEdge.Instrs[0]
		ok := isFinish(first)
		var at ssa.Instruction
		if !ok {
			ok, at = ir.PathQuery{Goal: isFinish}.MustReach(first)
		}
		where := ""
		if at != nil {
			where = c.P.Pos(at.Pos())
		}
		c.Check(ok, "PAIR.loop", g, "initialised service is finished", assigner.Pos(), "from the Assigner success edge every path reaches Finish", "a path from a successful Assigner leaves the connection goroutine at "+where+" without Finish: an initialised service would get no server and no Finish")
	}
}

// ruleArrayTranslateTotal: the array-to-object translation maps every element
// to its name (no element is skipped).
func ruleArrayTranslateTotal(c *chk.Ctx) {
	n := 0
	for _, f := range pkgFuncs(c, c.M.HandlerPkg) {
		f := f
		ir.Instrs(f, func(ins ssa.Instruction) {
			mu, ok := ins.(*ssa.MapUpdate)
			if !ok {
				return
			}
			// the array-to-object translation: a raw element of a parsed array stored into a map
			if !strings.HasSuffix(mu.Value.Type().String(), "json.RawMessage") {
				return
			}
			if u, isU := mu.Value.(*ssa.UnOp); !isU {
				return
			} else if _, isIA := u.X.(*ssa.IndexAddr); !isIA {
				return
			}
			n++
			var extra []string
			for _, cd := range ir.CondsAt(mu.Block()) {
				if isLoopCond(cd) || isLenCond(cd) {
					continue
				}
				if x, _, ok := ir.NilCompare(cd.V); ok {
					if x.Type().String() == "error" {
						continue // an error check passed on the way selects no element
					}
					if _, isCall := x.(*ssa.Call); isCall {
						continue // the array parse succeeded
					}
					if e, isE := x.(*ssa.Extract); isE {
						if _, isCall := e.Tuple.(*ssa.Call); isCall {
							continue // the array parse (in a helper) succeeded
						}
					}
				}
				if bo, ok := cd.V.(*ssa.BinOp); ok {
					if k, isK := ir.ConstInt(bo.Y); isK && k == '[' {
						continue // input is an array
					}
				}
				extra = append(extra, cd.V.String())
			}
			// index provenance: obj[names[i]] = arr[i]
			sameIdx := false
			if u, ok := mu.Value.(*ssa.UnOp); ok {
				if ia, ok := u.X.(*ssa.IndexAddr); ok {
					if ku, ok := mu.Key.(*ssa.UnOp); ok {
						if kia, ok := ku.X.(*ssa.IndexAddr); ok && kia.Index == ia.Index {
							sameIdx = true
						}
					}
				}
			}
			c.Check(len(extra) == 0 && sameIdx, "PAIR.length", f, "every element is mapped to its name", mu.Pos(), "obj[names[i]] = arr[i] for every i, unconditionally", "the array-to-object translation skips or misplaces elements (conditions: "+strings.Join(extra, "; ")+"): the function would receive a different argument than the documented array-to-field mapping gives")
		})
	}
	if n == 0 {
		c.Undecided("PAIR.length", nil, "element mapping", 0, "no element mapping found in the array translation")
	}
}

// ruleConstantFormats: every printf-style call in the HTTP package that builds
// wire bytes uses a constant format string (no request text spliced into it).
func ruleConstantFormats(c *chk.Ctx) {
	n := 0
	for _, f := range pkgFuncs(c, c.M.JhttpPkg) {
		ir.Instrs(f, func(ins ssa.Instruction) {
			call, ok := ins.(*ssa.Call)
			if !ok {
				return
			}
			idx := -1
			switch {
			case ir.IsCallTo(&call.Call, "fmt.Sprintf", "fmt.Errorf"):
				idx = 0
			case ir.IsCallTo(&call.Call, "fmt.Appendf", "fmt.Fprintf"):
				idx = 1
			}
			if idx < 0 {
				return
			}
			n++
			_, isConst := call.Call.Args[idx].(*ssa.Const)
			c.Check(isConst, "PROV.format", f, "constant format string", call.Pos(), "the format string is a constant", "a format string is assembled from run-time text (e.g. the caller's id): a '%' in that text corrupts the JSON the bridge writes")
		})
	}
	if n == 0 {
		c.Undecided("PROV.format", nil, "format strings", 0, "no printf-style call found in the HTTP package")
	}
}

// ruleEncoderOneOf: the member encoder writes at most one of the method,
// result and error members (their writes are on mutually exclusive branches).
func ruleEncoderOneOf(c *chk.Ctx) {
	found := false
	for f := range encoderFuncs(c) {
		if _, isSlice := f.Signature.Recv().Type().Underlying().(*types.Slice); isSlice {
			continue
		}
		blocks := map[string]*ssa.BasicBlock{}
		innerBlocks := map[string]*ssa.BasicBlock{}
		// the member's name may be chosen by a private helper that returns it (with the value)
		// as a field of a small record: one name per return of the helper, one write of the field
		chosen := map[string]*ssa.Return{}
		chosenLoop := false
		for _, em := range emitsOf(c, f, encoderFuncs(c)) {
			if s, ok := constString(em.arg); ok {
				for _, k := range []string{"method", "result", "error"} {
					if strings.Contains(s, `"`+k+`"`) || s == k {
						// (where the write is made from the encoder, and where the write itself sits:
						// inside a private helper that writes all three, they are told apart by the
						// helper's own branches)
						blocks[k] = em.at.Block()
						innerBlocks[k] = em.inner.Block()
					}
				}
				continue
			}
			// (the member's name handed down as an argument: `w.field("result", j.R)` — the
			// write of the name sits in the helper, the choice where the encoder calls it)
			if _, isParam := ir.NormCell(em.arg).(*ssa.Parameter); isParam && em.at != em.inner {
				for _, site := range em.chain {
					ci, isCall := site.(ssa.CallInstruction)
					if !isCall {
						continue
					}
					for _, a := range ci.Common().Args {
						if s, ok := constString(a); ok {
							for _, k := range []string{"method", "result", "error"} {
								if s == k {
									blocks[k] = site.Block()
									innerBlocks[k] = site.Block()
								}
							}
						}
					}
				}
				continue
			}
			if hc, ri, fk, isRes := ir.StructFieldOrigin(ir.NormCell(em.arg)); isRes {
				if h := hc.Call.StaticCallee(); h != nil && c.P.InRepo[h] && !ir.Exported(h) {
					if fvs, known := ir.ResultFieldVals(h, ri, fk); known {
						for _, fv := range fvs {
							if fv.Zero {
								continue
							}
							if s, ok := constString(fv.Val); ok {
								for _, k := range []string{"method", "result", "error"} {
									if strings.Contains(s, `"`+k+`"`) || s == k {
										if _, dup := chosen[k]; dup {
											chosenLoop = true
										}
										chosen[k] = fv.Ret
										if ir.InCycle(em.at.Block()) {
											chosenLoop = true
										}
									}
								}
							}
						}
					}
				}
			}
		}
		if len(blocks) == 0 && len(chosen) > 0 {
			found = true
			distinct := len(chosen) == 3 && chosen["method"] != chosen["result"] && chosen["result"] != chosen["error"] && chosen["method"] != chosen["error"]
			c.Check(distinct && !chosenLoop, "TABLE.oneof", f, "exactly one of method / result / error", f.Pos(), "the member name is chosen by three different returns of one helper call and written once", "the encoder can write more than one of the method, result and error members into one message (or one of the three writes is missing)")
			continue
		}
		if len(blocks) == 0 {
			continue // a wrapper around the function that writes the members
		}
		found = true
		exclusive := func(m map[string]*ssa.BasicBlock) bool {
			ok := len(m) == 3
			for a, ba := range m {
				for b, bb := range m {
					if a != b && (ba == bb || ba.Parent() != bb.Parent() || reachesWithout(ba, bb, nil)) {
						ok = false
					}
				}
			}
			return ok
		}
		ok := exclusive(blocks) || exclusive(innerBlocks)
		c.Check(ok, "TABLE.oneof", f, "exactly one of method / result / error", f.Pos(), "the three member writes are on mutually exclusive branches", "the encoder can write more than one of the method, result and error members into one message (or one of the three writes is missing)")
	}
	if !found {
		c.Undecided("TABLE.oneof", nil, "member encoder", 0, "no function writes the method / result / error members")
	}
}

// ruleStopResultInvoked: every call of the client's stop function has its
// returned function invoked (so the stop hook runs on every stopping path).
func ruleStopResultInvoked(c *chk.Ctx) {
	stop := stopFunc(c, "client")
	if stop == nil {
		c.Undecided("HOOK.stop", nil, "ruleStopResultInvoked: anchor", 0, "the code this rule is anchored in was not found (stop == nil)")
		return
	}
	for _, s := range c.P.Callers(stop) {
		call, ok := s.Instr.(*ssa.Call)
		if !ok {
			c.Fail("HOOK.stop", s.Caller, "stop result invoked", s.Instr.Pos(), "the stop function is started with go/defer: its returned hook runner is lost")
			continue
		}
		invoked := 0
		for _, r := range *call.Referrers() {
			if ci, ok := r.(ssa.CallInstruction); ok && ci.Common().Value == ssa.Value(call) {
				invoked++
			} else if ok {
				// the stop function's result is a record handed to the private function that
				// runs the hook for it
				g := ci.Common().StaticCallee()
				if g == nil || !c.P.InRepo[g] || ir.Exported(g) {
					continue
				}
				given := false
				for _, a := range ci.Common().Args {
					if a == ssa.Value(call) {
						given = true
					}
				}
				runs := false
				ir.Calls(g, func(c2 ssa.CallInstruction) {
					if chk.LoadsField(c2.Common().Value, c.M.CShook) {
						runs = true
					}
				})
				if given && runs {
					invoked++
				}
			}
		}
		if stop.Signature.Results().Len() == 1 && stop.Signature.Results().At(0).Type().String() == "bool" {
			// the stop function reports whether this call stopped the client: the caller runs the
			// hook once, on the true outcome
			ir.Instrs(s.Caller, func(i2 ssa.Instruction) {
				ci, ok := i2.(ssa.CallInstruction)
				if !ok || !chk.LoadsField(ci.Common().Value, c.M.CShook) {
					return
				}
				for _, cd := range ir.CondsAt(i2.Block()) {
					if cd.V == ssa.Value(call) && cd.Truth {
						invoked++
					}
				}
			})
		}
		c.Check(invoked == 1, "HOOK.stop", s.Caller, "stop result invoked", call.Pos(), "the function returned by the stop function is invoked exactly once by this caller", fmt.Sprintf("the function returned by the stop function is invoked %d times by this caller: OnStop would be lost or repeated", invoked))
	}
}

// ruleNullErrorIsAbsent: the member parser never installs a fresh error object
// for the "error" member without having excluded the JSON null (a reply
// {"result":…,"error":null} carries no error).
func ruleNullErrorIsAbsent(c *chk.Ctx) {
	n := 0
	for _, f := range pkgFuncs(c, c.M.Pkg) {
		if ir.RecvNamed(f) != c.M.Jmessage || f.Signature.Params().Len() != 1 || f.Signature.Params().At(0).Type().String() != "[]byte" {
			continue
		}
		n++
		bad := ""
		ir.Instrs(f, func(ins ssa.Instruction) {
			st, ok := ins.(*ssa.Store)
			if !ok || !chk.IsField(st.Addr, c.M.JE) {
				return
			}
			if _, fresh := st.Val.(*ssa.Alloc); !fresh {
				return
			}
			nullExcluded := false
			for _, cd := range ir.CondsAt(st.Block()) {
				if call, ok := cd.V.(*ssa.Call); ok && !cd.Truth && call.Call.StaticCallee() != nil && ir.BaseName(call.Call.StaticCallee()) == "isNull" {
					nullExcluded = true
				}
			}
			if !nullExcluded {
				bad = c.P.Pos(st.Pos())
			}
		})
		// the reply members of a received message come from the peer's bytes only: the parser
		// never clears one (a reply whose error member is present but malformed would otherwise
		// look like a success to everything that reads the members)
		cleared := ""
		c.P.ExtInstrs(f, func(ins ssa.Instruction) {
			st, ok := ins.(*ssa.Store)
			if !ok || !ir.IsNilConst(st.Val) || !(chk.IsField(st.Addr, c.M.JE) || chk.IsField(st.Addr, c.M.JR)) {
				return
			}
			cleared = c.P.Pos(st.Pos())
		})
		c.Check(cleared == "", "PROV.member", f, "reply members are never cleared while parsing", f.Pos(), "no store of nil into the error or result member of the message being parsed", "the parser clears a reply member at "+cleared+": a reply whose error member is present but does not decode would be matched by its id and completed as a success with an empty result")
		c.Check(bad == "", "TABLE.null", f, "a null error member is no error", f.Pos(), "the parser installs an error object only by decoding into the field itself (null leaves it nil) or after excluding null", "the parser installs a fresh error object at "+bad+" without excluding null: a reply carrying \"error\":null next to its result would be reported as an error")
	}
	if n == 0 {
		c.Undecided("TABLE.null", nil, "member parser", 0, "member parser not found")
	}
}

// taskLoopFunc: the function that holds the loop over the batch's tasks: the
// smallest region from which every handler invocation is reached (the batch
// runner itself, or the helper its fan-out loop was moved into).
func taskLoopFunc(c *chk.Ctx, d *dispatchModel) *ssa.Function {
	level := []ssa.Instruction{}
	for _, s := range d.invokeSites {
		level = append(level, s)
	}
	for depth := 0; depth < 5 && len(level) > 0; depth++ {
		found := map[*ssa.Function]bool{}
		for _, at := range level {
			if ir.InCycle(at.Block()) {
				found[at.Parent()] = true
			}
		}
		if len(found) == 1 {
			for f := range found {
				return f
			}
		}
		if len(found) > 1 {
			break
		}
		var next []ssa.Instruction
		seen := map[ssa.Instruction]bool{}
		for _, at := range level {
			for _, cs := range c.P.Callers(at.Parent()) {
				if !seen[cs.Instr] {
					seen[cs.Instr] = true
					next = append(next, cs.Instr)
				}
			}
		}
		level = next
	}
	return d.closure
}

// fromResponse: some source of the error value v is what a Response reports:
// the result of one of its methods, or its error field.
func fromResponse(c *chk.Ctx, v ssa.Value) bool {
	isResp := func(x ssa.Value) bool {
		if call, ok := x.(*ssa.Call); ok {
			if g := call.Call.StaticCallee(); g != nil && ir.RecvNamed(g) == c.M.Response {
				return true
			}
		}
		return chk.LoadsField(x, c.M.RErr)
	}
	for _, src := range c.P.SourcesStop(v, isResp) {
		if isResp(src) {
			return true
		}
	}
	return false
}
