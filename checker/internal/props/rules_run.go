package props

import (
	"fmt"
	"go/token"
	"go/types"
	"strings"

	"golang.org/x/tools/go/ssa"

	"jrpcvet/internal/chk"
	"jrpcvet/internal/facts"
	"jrpcvet/internal/ir"
)

// stopFunc returns the function that calls Close on the owner's channel.
func stopFunc(c *chk.Ctx, owner string) *ssa.Function {
	var f *ssa.Function
	n := 0
	for _, s := range chanSites(c, "Close") {
		if s.owners[owner] {
			f = s.fn
			n++
		}
	}
	if n != 1 {
		return nil
	}
	return f
}

// startFunc returns the function that installs the server's channel.
func startFunc(c *chk.Ctx) *ssa.Function {
	var f *ssa.Function
	for _, st := range c.P.FieldStores(c.M.SCh) {
		if !ir.IsNilConst(st.Val) {
			if f != nil && f != st.Parent() {
				return nil
			}
			f = st.Parent()
		}
	}
	return f
}

func running(c *chk.Ctx, st facts.State, owner string) (bool, string) {
	if owner == "server" {
		p := chk.PathOfVar(c.M.Server, c.M.SCh)
		return st.Has(facts.NonNil, p), "NonNil(" + p.String() + ")"
	}
	pc := chk.PathOfVar(c.M.Client, c.M.CCh)
	pe := chk.PathOfVar(c.M.Client, c.M.CErr)
	if st.Has(facts.NonNil, pc) {
		return true, "NonNil(" + pc.String() + ")"
	}
	return st.Has(facts.IsNil, pe), "IsNil(" + pe.String() + ")"
}

// nilCheckedDownstream: value v (a possibly-nil channel) flows into calls; is
// every eventual method call on it dominated by a nil check in the function
// that makes it?
func nilCheckedDownstream(c *chk.Ctx, v ssa.Value, depth int, trail string, aliases ...ssa.Value) (bool, string) {
	if depth > 6 {
		return false, "flow too deep to follow: " + trail
	}
	// v and the values it was converted from denote the same channel: a nil check on any of them counts
	isV := func(y ssa.Value) bool {
		if y == v {
			return true
		}
		for _, a := range aliases {
			if y == a {
				return true
			}
		}
		return false
	}
	chain := append(append([]ssa.Value{}, aliases...), v)
	refs := v.Referrers()
	if refs == nil {
		return true, ""
	}
	for _, r := range *refs {
		switch x := r.(type) {
		case *ssa.DebugRef:
		case *ssa.ChangeInterface:
			if ok, why := nilCheckedDownstream(c, x, depth, trail, chain...); !ok {
				return false, why
			}
		case *ssa.MakeInterface:
			if ok, why := nilCheckedDownstream(c, x, depth, trail, chain...); !ok {
				return false, why
			}
		case *ssa.Phi:
			if ok, why := nilCheckedDownstream(c, x, depth+1, trail); !ok {
				return false, why
			}
		case *ssa.BinOp:
			// comparison: fine
		case *ssa.If:
		case *ssa.Store:
			if x.Val == v {
				if fa, isField := x.Addr.(*ssa.FieldAddr); isField {
					fv := ir.FieldVar(fa)
					if fv == c.M.SCh || fv == c.M.CCh {
						continue // installing into the owner's channel field: covered by the field's own rules
					}
					// kept in a field of some other record (a batch runner's state): every read of that
					// field hands the value on
					okAll := true
					var whyNot string
					for _, g := range c.P.Funcs {
						ir.Instrs(g, func(i2 ssa.Instruction) {
							var ld ssa.Value
							switch y := i2.(type) {
							case *ssa.UnOp:
								if fa2, isFA := y.X.(*ssa.FieldAddr); isFA && y.Op == token.MUL && ir.FieldVar(fa2) == fv {
									ld = y
								}
							case *ssa.Field:
								if st, isSt := y.X.Type().Underlying().(*types.Struct); isSt && y.Field < st.NumFields() && st.Field(y.Field) == fv {
									ld = y
								}
							}
							if ld == nil {
								return
							}
							if ok, why := nilCheckedDownstream(c, ld, depth+1, trail+" → field "+fv.Name()+" read in "+ir.Name(g)); !ok {
								okAll, whyNot = false, why
							}
						})
					}
					if okAll {
						continue
					}
					return false, whyNot
				}
				if al, isCell := x.Addr.(*ssa.Alloc); isCell {
					okAll := true
					var whyNot string
					for _, ld := range ir.CellLoads(al) {
						if ok, why := nilCheckedDownstream(c, ld, depth+1, trail+" → "+ir.Name(ld.Parent())); !ok {
							okAll, whyNot = false, why
						}
					}
					if okAll {
						continue
					}
					return false, whyNot
				}
				return false, fmt.Sprintf("stored at %s (%s)", c.P.Pos(x.Pos()), trail)
			}
		case *ssa.MakeClosure:
			g := x.Fn.(*ssa.Function)
			for i, b := range x.Bindings {
				if b == v && i < len(g.FreeVars) {
					if ok, why := nilCheckedDownstream(c, g.FreeVars[i], depth+1, trail+" → closure "+ir.Name(g)); !ok {
						return false, why
					}
				}
			}
		case ssa.CallInstruction:
			cc := x.Common()
			if cc.IsInvoke() && cc.Value == v {
				same := isV
				if !ir.ProvesNonNil(ir.CondsAt(x.Block()), same) {
					return false, fmt.Sprintf("%s.%s at %s is not dominated by a nil check (%s)", "value", cc.Method.Name(), c.P.Pos(x.Pos()), trail)
				}
				continue
			}
			if ir.ProvesNonNil(ir.CondsAt(x.Block()), isV) {
				continue // known non-nil where it is passed on
			}
			gs, _ := c.P.Callees(x)
			followed := false
			for _, g := range gs {
				if !c.P.InRepo[g] {
					continue
				}
				for i, a := range cc.Args {
					if a == v && i < len(g.Params) {
						followed = true
						if ok, why := nilCheckedDownstream(c, g.Params[i], depth+1, trail+" → "+ir.Name(g)); !ok {
							return false, why
						}
					}
				}
			}
			if !followed {
				for _, a := range cc.Args {
					if a == v {
						return false, fmt.Sprintf("passed to %s at %s (%s)", ir.CalleeName(cc), c.P.Pos(x.Pos()), trail)
					}
				}
			}
		case *ssa.UnOp:
		default:
			return false, fmt.Sprintf("used by %T at %s (%s)", r, c.P.Pos(r.Pos()), trail)
		}
	}
	return true, ""
}

// ruleRunGuardServer: uses that are legal only while running.
func ruleRunGuardServer(c *chk.Ctx) {
	stop := stopFunc(c, "server")
	lock := ownerLock(c, "server")
	chPath := chk.PathOfVar(c.M.Server, c.M.SCh)
	for _, f := range pkgFuncs(c, c.M.Pkg) {
		c.F.Walk(f, func(ins ssa.Instruction, st facts.State) {
			// (a) loads of Server.ch that are used as a call operand
			if u, ok := ins.(*ssa.UnOp); ok && u.Op == token.MUL && chk.LoadsField(u, c.M.SCh) {
				usedInCall := false
				for _, r := range *u.Referrers() {
					switch x := r.(type) {
					case ssa.CallInstruction:
						usedInCall = true
						_ = x
					case *ssa.ChangeInterface, *ssa.MakeInterface, *ssa.MakeClosure, *ssa.Phi:
						usedInCall = true
					}
				}
				if !usedInCall {
					return
				}
				held := st.Has(facts.Held, lock)
				if ok, why := running(c, st, "server"); ok && held {
					c.Pass("RUN.guard", f, "use of server channel", u.Pos(), "channel value taken under the lock with %s established in the same critical section", why)
				} else if ok2, why2 := nilCheckedDownstream(c, u, 0, ir.Name(f)); ok2 && held {
					c.Pass("RUN.guard", f, "use of server channel", u.Pos(), "channel value may be nil here, but every method call it reaches downstream is dominated by a nil check")
				} else {
					c.Fail("RUN.guard", f, "use of server channel", u.Pos(), "the server's channel is used without the running state (%s) established in this critical section [held=%v]: after Stop it is nil%s",
						chPath, held, sfx(why2))
				}
			}
			// (b) send on the work channel
			var workSend bool
			switch x := ins.(type) {
			case *ssa.Send:
				workSend = chk.LoadsField(x.Chan, c.M.SWork)
			case *ssa.Select:
				for _, s := range x.States {
					if s.Dir == types.SendOnly && chk.LoadsField(s.Chan, c.M.SWork) {
						workSend = true
					}
				}
			}
			if workSend {
				ok, why := running(c, st, "server")
				ok = ok && st.Has(facts.Held, lock)
				c.Check(ok, "RUN.guard", f, "send on work channel", ins.Pos(), "signal sent only with "+why+" under the lock (the stop function closes this channel)",
					"send on the work channel without the running state established under the lock: the stop function closes it, so this can panic with send on closed channel"+describeEntry(c, f, lock))
			}
			// (c) queue insert
			if ci, ok := ins.(ssa.CallInstruction); ok && len(ci.Common().Args) > 0 && chk.IsField(ci.Common().Args[0], c.M.SInq) {
				name := ir.BaseName(ci.Common().StaticCallee())
				if name == "Add" || name == "Push" {
					if stop != nil && c.P.InExt(stop, f) {
						c.Exists("RUN.guard", f, "queue insert", ci.Pos(), "insert inside the stop function (retained notifications)")
					} else {
						ok, why := running(c, st, "server")
						ok = ok && st.Has(facts.Held, lock)
						c.Check(ok, "RUN.guard", f, "queue insert", ci.Pos(), "queued only with "+why+" under the lock", "request queued without the running state established under the lock: after stop the queue must stay empty (WaitStatus panics otherwise)")
					}
				}
			}
			// (d) close of the work channel: only in the stop function
			if call, ok := ins.(*ssa.Call); ok {
				if b, isB := call.Call.Value.(*ssa.Builtin); isB && b.Name() == "close" && chk.LoadsField(call.Call.Args[0], c.M.SWork) {
					ok, why := running(c, st, "server")
					ok = ok && stop != nil && c.P.InExt(stop, f) && st.Has(facts.Held, lock)
					c.Check(ok, "RUN.guard", f, "close work channel", call.Pos(), "closed once, in the stop function, with "+why, "work channel closed outside the guarded stop path: a second close panics")
				}
			}
		})
	}
	c.Floor("RUN.guard", 6, "encode(s.ch) in pushReq and pushErrorLocked, captured channel in the dispatcher, Close receiver, signal, queue insert, close(work)")
}

func sfx(s string) string {
	if s == "" {
		return ""
	}
	return "; " + s
}

// ruleRunGuardClient: client sends happen only while running.
func ruleRunGuardClient(c *chk.Ctx) {
	for _, s := range chanSites(c, "Send") {
		if !s.owners["client"] {
			continue
		}
		st := c.F.At(s.instr)
		ok, why := running(c, st, "client")
		ok = ok && st.Has(facts.Held, ownerLock(c, "client"))
		c.Check(ok, "RUN.guard", s.fn, "client Send", s.instr.Pos(), "Send only with "+why+" established in the same critical section: a stopped client transmits nothing",
			fmt.Sprintf("client Send without the running state established in the same critical section (facts %v): a stopped client could transmit, or dereference its cleared channel", st))
	}
}

// ruleRunCoupled: the fields that change meaning at stop are written only by
// the start/constructor and the stop function, and the stop cause is
// recorded only on the guarded path.
func ruleRunCoupled(c *chk.Ctx, owner string) {
	stop := stopFunc(c, owner)
	if stop == nil {
		c.Undecided("RUN.coupled", nil, owner+" stop function", 0, "stop function not uniquely resolved")
		return
	}
	var fields []*types.Var
	var start *ssa.Function
	if owner == "server" {
		fields = []*types.Var{c.M.SCh, c.M.SErr, c.M.SWork}
		start = startFunc(c)
	} else {
		fields = []*types.Var{c.M.CCh, c.M.CErr}
	}
	for _, fv := range fields {
		for _, st := range c.P.FieldStores(fv) {
			f := st.Parent()
			fa, _ := st.Addr.(*ssa.FieldAddr)
			fresh := fa != nil && freshOwner(c, fa.X)
			switch {
			case f == stop || (c.P.InExt(stop, f) && f != start):
				// (the store may sit in a private helper of the stop function; the facts at the
				// store are those established along every call chain into it)
				s := c.F.At(st)
				ok, why := s.Has(facts.NonNil, chk.PathOfVar(ownerType(c, owner), ownerCh(c, owner))), "guard"
				_ = why
				ok = ok && s.Has(facts.Held, ownerLock(c, owner))
				c.Check(ok, "RUN.coupled", f, owner+" "+fv.Name()+" written at stop", st.Pos(), "written only on the guarded path (running) under the lock: first stop cause wins",
					"written in the stop function outside the running guard: a later stop could overwrite the recorded state")
			case (f == start || (start != nil && c.P.InExt(start, f))) && owner == "server":
				c.Exists("RUN.coupled", f, owner+" "+fv.Name()+" written at start", st.Pos(), "written by the start function")
			case fresh:
				c.Exists("RUN.coupled", f, owner+" "+fv.Name()+" written in constructor", st.Pos(), "written into a freshly allocated owner")
			default:
				c.Fail("RUN.coupled", f, owner+" "+fv.Name()+" written", st.Pos(), "field %s.%s, which changes meaning at stop, is written outside the start and stop functions", ownerType(c, owner).Obj().Name(), fv.Name())
			}
		}
	}
	// the stop function stores the cause and clears the channel on every path after Close
	var closeSite ssa.Instruction
	for _, s := range chanSites(c, "Close") {
		if s.owners[owner] {
			closeSite = s.instr
		}
	}
	errF := c.M.SErr
	if owner == "client" {
		errF = c.M.CErr
	}
	if closeSite != nil {
		q := ir.PathQuery{Goal: c.P.LiftGoal(func(i ssa.Instruction) bool {
			st, ok := i.(*ssa.Store)
			return ok && chk.IsField(st.Addr, errF)
		}, 0)}
		ok, _ := q.MustReach(closeSite)
		c.Check(ok, "RUN.coupled", stop, owner+" cause recorded", closeSite.Pos(), "every path from Close records the stop cause", "a path from Close returns without recording the stop cause")
	}
	// stop cause is non-nil at every call of the stop function (so err != nil ⇔ stopped)
	idx := -1
	for i, p := range stop.Params {
		if p.Type().String() == "error" {
			idx = i
		}
	}
	for _, s := range c.P.Callers(stop) {
		if idx < 0 {
			break
		}
		arg := s.Instr.Common().Args[idx]
		ok, why := provablyNonNilError(c, arg, s.Instr)
		c.Check(ok, "RUN.coupled", s.Caller, owner+" stop cause non-nil", s.Instr.Pos(), "stop cause is non-nil: "+why, "the stop function may be given a nil cause ("+why+"): the owner would look running after it stopped")
	}
}

// provablyNonNilError: arg is a load of a package-level error variable that
// is initialised by errors.New/fmt.Errorf and never reassigned, or is known
// non-nil from a dominating branch.
func provablyNonNilError(c *chk.Ctx, arg ssa.Value, at ssa.Instruction) (bool, string) {
	if u, ok := arg.(*ssa.UnOp); ok && u.Op == token.MUL {
		if g, ok := u.X.(*ssa.Global); ok {
			n, good := 0, 0
			for _, f := range c.P.Funcs {
				ir.Instrs(f, func(ins ssa.Instruction) {
					if st, ok := ins.(*ssa.Store); ok && st.Addr == ssa.Value(g) {
						n++
						v := st.Val
						if mi, ok := v.(*ssa.MakeInterface); ok {
							v = mi.X
						}
						if call, ok := v.(*ssa.Call); ok && ir.IsCallTo(&call.Call, "errors.New", "fmt.Errorf") {
							good++
						}
					}
				})
			}
			// initialisers live in the package init function
			if init := g.Pkg.Func("init"); init != nil {
				ir.Instrs(init, func(ins ssa.Instruction) {
					if st, ok := ins.(*ssa.Store); ok && st.Addr == ssa.Value(g) {
						n++
						if call, ok := st.Val.(*ssa.Call); ok && ir.IsCallTo(&call.Call, "errors.New", "fmt.Errorf") {
							good++
						}
					}
				})
			}
			if n >= 1 && n == good {
				return true, "package variable " + g.Name() + " initialised by errors.New and never reassigned"
			}
			return false, fmt.Sprintf("package variable %s has %d store(s), %d from errors.New", g.Name(), n, good)
		}
	}
	same := func(x ssa.Value) bool { return x == arg || ir.SameValue(x, arg) }
	if ir.ProvesNonNil(ir.CondsAt(at.Block()), same) {
		return true, "dominated by a != nil check"
	}
	// phi of checked values: err = nil reassigned? accept Phi whose every edge is non-nil-proved
	if phi, ok := arg.(*ssa.Phi); ok {
		all := true
		for i, e := range phi.Edges {
			if k, isC := e.(*ssa.Const); isC && k.IsNil() {
				// nil edge must be excluded by a dominating check on the phi itself
				all = false
				_ = i
			}
		}
		if all && ir.ProvesNonNil(ir.CondsAt(at.Block()), same) {
			return true, "dominated by a != nil check"
		}
	}
	// the parameter of a private helper ("the reader failed with err"): non-nil when it is so at
	// every call of the helper
	if prm, isParam := ir.NormCell(arg).(*ssa.Parameter); isParam {
		f := prm.Parent()
		idx := -1
		for i, q := range f.Params {
			if q == prm {
				idx = i
			}
		}
		sites := c.P.Callers(f)
		if idx >= 0 && len(sites) > 0 && !ir.Exported(f) && !c.P.UsedAsValue(f) {
			all := true
			for _, s := range sites {
				args := s.Instr.Common().Args
				if idx >= len(args) || s.Caller == f {
					all = false
					break
				}
				if ok, _ := provablyNonNilError(c, args[idx], s.Instr); !ok {
					all = false
				}
			}
			if all {
				return true, "non-nil at every call of " + ir.Name(f)
			}
		}
	}
	return false, "not a never-reassigned package error and not dominated by a != nil check"
}

// ruleRunRestart: the start function re-arms everything the stop function
// leaves terminal.
func ruleRunRestart(c *chk.Ctx) {
	start := startFunc(c)
	if start == nil {
		c.Undecided("RUN.restart", nil, "start function", 0, "start function not uniquely resolved")
		return
	}
	type need struct {
		f    *types.Var
		what string
		ok   func(v ssa.Value) bool
	}
	needs := []need{
		{c.M.SCh, "channel installed", func(v ssa.Value) bool { return !ir.IsNilConst(v) }},
		{c.M.SErr, "stop cause cleared", func(v ssa.Value) bool { return ir.IsNilConst(v) }},
		{c.M.SWork, "work channel re-made (buffered)", func(v ssa.Value) bool { return isBufferedChanMake(c, v, 0) }},
	}
	for _, n := range needs {
		found := false
		var pos token.Pos
		c.P.ExtInstrs(start, func(ins ssa.Instruction) {
			if st, ok := ins.(*ssa.Store); ok && chk.IsField(st.Addr, n.f) && n.ok(st.Val) {
				// must be on every path to the go statements: dominate every go in start
				// (from inside a private helper — a "reset" method — as well)
				dom := true
				ir.Instrs(start, func(i2 ssa.Instruction) {
					if g, ok := i2.(*ssa.Go); ok && !ir.InstrDominates(st, g) && !(st.Parent() != start && c.P.IDominates(st, g)) {
						dom = false
					}
				})
				if dom {
					found = true
					pos = st.Pos()
				}
			}
		})
		c.Check(found, "RUN.restart", start, n.what, pos, "stored before the worker goroutines start, on every path", "the start function does not re-arm this field before starting the workers: a restarted server would use the state the previous stop left behind (closed work channel / stale cause)")
	}
	// lifetime group Add(2) agrees with the go statements: covered by GO.class
}

// ruleStatusTable: WaitStatus sets at most one flag, Closed exactly for
// EOF ∨ IsErrClosing, Stopped exactly for the sentinel Stop passes.
func ruleStatusTable(c *chk.Ctx) {
	// the exported function that waits on the lifetime group
	var ws *ssa.Function
	for _, w := range waitSites(c, chk.PathOfVar(c.M.Server, c.M.SWg).String()) {
		if ir.Exported(w.Parent()) && w.Parent().Parent() == nil {
			ws = w.Parent()
		}
	}
	if ws == nil {
		c.Undecided("TABLE.status", nil, "WaitStatus", 0, "no exported function waits on the server's lifetime WaitGroup")
		return
	}
	// which global does Stop pass to the stop function?
	stop := stopFunc(c, "server")
	var stopSentinel *ssa.Global
	for _, s := range c.P.Callers(stop) {
		if ir.Exported(s.Caller) && s.Caller.Parent() == nil {
			for _, a := range s.Instr.Common().Args {
				if u, ok := a.(*ssa.UnOp); ok && u.Op == token.MUL {
					if g, ok := u.X.(*ssa.Global); ok {
						stopSentinel = g
					}
				}
			}
		}
	}
	if stopSentinel == nil {
		c.Undecided("TABLE.status", ws, "stop sentinel", 0, "cannot find the package variable the exported Stop method passes as the stop cause")
		return
	}
	// stores of `true` into bool fields of the status struct
	type flagStore struct {
		st   *ssa.Store
		name string
	}
	var flags []flagStore
	c.P.ExtInstrs(ws, func(ins ssa.Instruction) {
		st, ok := ins.(*ssa.Store)
		if !ok {
			return
		}
		fa, ok := st.Addr.(*ssa.FieldAddr)
		if !ok {
			return
		}
		if k, ok := st.Val.(*ssa.Const); ok && k.Value != nil && k.Value.String() == "true" {
			flags = append(flags, flagStore{st, ir.FieldVar(fa).Name()})
		}
	})
	if len(flags) != 2 {
		c.Undecided("TABLE.status", ws, "status flags", 0, "found %d flag stores in the status function (want 2: stopped, closed)", len(flags))
		return
	}
	if reachesWithout(flags[0].st.Block(), flags[1].st.Block(), nil) || reachesWithout(flags[1].st.Block(), flags[0].st.Block(), nil) || flags[0].st.Block() == flags[1].st.Block() {
		c.Fail("TABLE.status", ws, "at most one flag", flags[0].st.Pos(), "both status flags can be set on one path")
	} else {
		c.Pass("TABLE.status", ws, "at most one flag", flags[0].st.Pos(), "the two flag stores are on mutually exclusive branches")
	}
	for _, fl := range flags {
		conds := ir.CondsAt(fl.st.Block())
		// classify the governing condition
		var kinds []string
		for _, cd := range conds {
			kinds = append(kinds, describeErrCond(c, cd, stopSentinel))
		}
		desc := strings.Join(kinds, " ∧ ")
		lname := strings.ToLower(fl.name)
		switch {
		case strings.Contains(lname, "stop"):
			ok := hasKind(kinds, "err==stopSentinel")
			c.Check(ok, "TABLE.status", ws, "Stopped flag", fl.st.Pos(), "Stopped set exactly under err == the sentinel Stop passes ("+desc+")", "Stopped is not governed by equality with the sentinel that Stop passes ("+desc+")")
		case strings.Contains(lname, "close"):
			// reached either from err==EOF true or from IsErrClosing true: both preds of the block
			ok := closedGoverned(c, fl.st.Block(), stopSentinel)
			c.Check(ok, "TABLE.status", ws, "Closed flag", fl.st.Pos(), "Closed set exactly under err == io.EOF ∨ IsErrClosing(err)", "Closed is not governed by err == io.EOF ∨ channel.IsErrClosing(err) ("+desc+")")
		default:
			c.Undecided("TABLE.status", ws, "flag "+fl.name, fl.st.Pos(), "unrecognised status flag")
		}
	}
}

func hasKind(ks []string, want string) bool {
	for _, k := range ks {
		if k == want {
			return true
		}
	}
	return false
}

func describeErrCond(c *chk.Ctx, cd ir.Cond, sentinel *ssa.Global) string {
	neg := ""
	if !cd.Truth {
		neg = "¬"
	}
	if bo, ok := cd.V.(*ssa.BinOp); ok && bo.Op == token.EQL {
		for _, side := range []ssa.Value{bo.X, bo.Y} {
			if u, ok := side.(*ssa.UnOp); ok && u.Op == token.MUL {
				if g, ok := u.X.(*ssa.Global); ok {
					if g == sentinel {
						return neg + "err==stopSentinel"
					}
					if g.Pkg != nil && g.Pkg.Pkg.Path() == "io" && g.Name() == "EOF" {
						return neg + "err==io.EOF"
					}
					return neg + "err==" + g.Name()
				}
			}
		}
	}
	if call, ok := cd.V.(*ssa.Call); ok {
		if g := call.Call.StaticCallee(); g != nil && ir.BaseName(g) == "IsErrClosing" {
			return neg + "IsErrClosing"
		}
	}
	return neg + "?"
}

// closedGoverned: block b is entered exactly under err == io.EOF, or
// IsErrClosing(err) — whether written as if/||, or as a tagless switch case.
func closedGoverned(c *chk.Ctx, b *ssa.BasicBlock, sentinel *ssa.Global) bool {
	var alts [][]ir.Cond
	for _, p := range b.Preds {
		own, ok := ir.EdgeOwnCond(p, b)
		if !ok {
			return false
		}
		// (the test may be a private predicate: "did the peer close?")
		for _, a := range ir.CondAlternatives(own, 0) {
			alts = append(alts, expandPredicateHelpers(c, a, 0)...)
		}
	}
	if len(alts) != 2 {
		return false
	}
	seen := map[string]bool{}
	for _, alt := range alts {
		pos := ""
		for _, cd := range alt {
			d := describeErrCond(c, cd, sentinel)
			if !strings.HasPrefix(d, "¬") {
				if pos != "" {
					return false
				}
				pos = d
			}
		}
		seen[pos] = true
	}
	return seen["err==io.EOF"] && seen["IsErrClosing"]
}

// ruleReaderExitStops: the reader gives up only after stopping its owner (or
// when the owner is already stopped), so a dead reader never leaves a
// half-alive owner behind.
func ruleReaderExitStops(c *chk.Ctx, owner string) {
	stop := stopFunc(c, owner)
	reader, _ := readerOf(c, owner)
	if stop == nil || reader == nil {
		c.Undecided("RUN.readerexit", nil, owner+" reader", 0, "reader or stop function not resolved")
		return
	}
	chPath := chk.PathOfVar(ownerType(c, owner), ownerCh(c, owner))
	n := 0
	// a reader that handles one record per call and tells its caller's loop whether to go on:
	// the value on which the loop continues (true/false), found at the call site
	contKnown, contVal := readerContinueValue(c, reader)
	alreadyStoppedConds := func(cs []ir.Cond) bool {
		for _, cd := range cs {
			if x, eq, ok := ir.NilCompare(cd.V); ok && chk.LoadsField(x, ownerCh(c, owner)) && eq == cd.Truth {
				return true
			}
		}
		return false
	}
	stopDominates := func(at ssa.Instruction) bool {
		found := false
		isStopCall := func(i ssa.Instruction) bool {
			ci, ok := i.(ssa.CallInstruction)
			if !ok {
				return false
			}
			for _, g := range calleesOf(c, ci) {
				if g == stop {
					return true
				}
			}
			return false
		}
		ir.Calls(at.Parent(), func(ci ssa.CallInstruction) {
			if !(ir.InstrDominates(ci, at) || ci == at) {
				return
			}
			for _, g := range calleesOf(c, ci) {
				if g == stop {
					found = true
				}
				// (a private helper that stops the owner on every path: "the reader failed")
				if _, plain := ci.(*ssa.Call); plain && g != stop && c.P.InRepo[g] && !ir.Exported(g) && len(calleesOf(c, ci)) == 1 && c.P.MustPass(g, isStopCall, 0) {
					found = true
				}
			}
		})
		return found
	}
	// judgeBool: every way function h can yield the value that ends the reader loop (≠ cont)
	// follows a call of the stop function, or sits on the already-stopped edge. A result that is
	// the result of a private boolean helper is judged inside that helper.
	var judgeBool func(h *ssa.Function, cont bool, depth int) (ok bool, exits int)
	judgeBool = func(h *ssa.Function, cont bool, depth int) (bool, int) {
		if depth > 3 {
			return false, 1
		}
		type way struct {
			v    ssa.Value
			pred *ssa.BasicBlock
			to   *ssa.BasicBlock
			r    *ssa.Return
			at   ssa.Instruction // for a value assigned to a result variable: the assignment
			zero bool            // the result variable's initial false
		}
		var ways []way
		for _, r := range ir.Returns(h) {
			if len(r.Results) != 1 {
				return false, 1
			}
			var expand func(v ssa.Value, pred, to *ssa.BasicBlock, at ssa.Instruction, d int)
			expand = func(v ssa.Value, pred, to *ssa.BasicBlock, at ssa.Instruction, d int) {
				if phi, isPhi := v.(*ssa.Phi); isPhi && d < 4 {
					for i, e := range phi.Edges {
						expand(e, phi.Block().Preds[i], phi.Block(), nil, d+1)
					}
					return
				}
				// a result variable (named result kept in memory because of a defer): one way per
				// assignment, plus its initial value
				cellOf := func(x ssa.Value) *ssa.Alloc {
					if al, isAl := x.(*ssa.Alloc); isAl {
						return al // NormCell's representative of a variable with several assignments
					}
					if u, isU := x.(*ssa.UnOp); isU && u.Op == token.MUL {
						al, _ := u.X.(*ssa.Alloc)
						return al
					}
					return nil
				}
				if d < 4 {
					if al := cellOf(v); al != nil && al.Parent() == h {
						for _, st := range ir.CellStores(al) {
							if su, isSU := st.Val.(*ssa.UnOp); isSU && su.Op == token.MUL && su.X == ssa.Value(al) {
								continue // `return done` re-storing the variable's own value
							}
							expand(st.Val, nil, nil, st, d+1)
						}
						ways = append(ways, way{r: r, zero: true})
						return
					}
				}
				ways = append(ways, way{v: v, pred: pred, to: to, r: r, at: at})
			}
			expand(ir.NormCell(ir.ReturnResult(r, 0)), nil, nil, nil, 0)
		}
		allOK, exits := true, 0
		for _, w := range ways {
			if w.zero {
				if cont {
					// the variable's initial false would end the loop: only acceptable if stopped
					if !(stopDominates(w.r) || alreadyStoppedConds(ir.CondsAt(w.r.Block()))) {
						exits++
						allOK = false
					}
				}
				continue
			}
			if k, isK := w.v.(*ssa.Const); isK && k.Value != nil && (k.Value.String() == "true") == cont {
				continue
			}
			// a helper's verdict handed on
			v, cv := w.v, cont
			if u, isU := v.(*ssa.UnOp); isU && u.Op == token.NOT {
				v, cv = u.X, !cont
			}
			if call, isCall := v.(*ssa.Call); isCall {
				if g := call.Call.StaticCallee(); g != nil && c.P.InExt(reader, g) && g.Signature.Results().Len() == 1 && g.Signature.Results().At(0).Type().String() == "bool" {
					okg, ng := judgeBool(g, cv, depth+1)
					exits += ng
					if !okg {
						allOK = false
					}
					continue
				}
			}
			exits++
			okw := false
			if w.at != nil {
				okw = stopDominates(w.at) || alreadyStoppedConds(ir.CondsAt(w.at.Block()))
			} else if w.pred == nil {
				okw = stopDominates(w.r) || alreadyStoppedConds(ir.CondsAt(w.r.Block()))
			} else {
				last := w.pred.Instrs[len(w.pred.Instrs)-1]
				okw = stopDominates(last) || alreadyStoppedConds(append(ir.CondsAt(w.pred), ir.EdgeConds(w.pred, w.to)...))
			}
			if !okw {
				allOK = false
			}
		}
		return allOK, exits
	}
	if contKnown {
		okAll, exits := judgeBool(reader, contVal, 0)
		if exits > 0 {
			n++
			c.Check(okAll, "RUN.readerexit", reader, owner+" reader exit", reader.Pos(), "the reader tells its loop to end only after calling the stop function (or on the edge where "+chPath.String()+" is already nil)", "the "+owner+"'s reader can exit without stopping the "+owner+": pending operations would never complete, the stop hook would not run and later operations would transmit on a dead connection")
		}
	}
	for _, r := range ir.Returns(reader) {
		if contKnown {
			break
		}
		if owner == "client" {
			// the reader loop continues while the reader function returns nil
			if len(r.Results) == 1 && ir.IsNilConst(ir.ReturnResult(r, 0)) {
				continue
			}
		}
		n++
		stopped := stopDominates(r)
		alreadyStopped := func(b *ssa.BasicBlock) bool { return alreadyStoppedConds(ir.CondsAt(b)) }
		if !stopped && alreadyStopped(r.Block()) {
			stopped = true
		}
		if !stopped && r.Parent() == reader {
			// a shared exit (several breaks out of the loop, one unlock-and-return): no path from the
			// function's entry reaches it without passing a call of the stop function or an edge on
			// which the owner is already stopped
			seen := map[*ssa.BasicBlock]bool{}
			var free func(b *ssa.BasicBlock) bool
			free = func(b *ssa.BasicBlock) bool {
				if seen[b] {
					return false
				}
				seen[b] = true
				if alreadyStopped(b) {
					return false
				}
				for _, ins := range b.Instrs {
					if ci, ok := ins.(ssa.CallInstruction); ok {
						if _, isDefer := ins.(*ssa.Defer); !isDefer {
							for _, g := range calleesOf(c, ci) {
								if g == stop {
									return false
								}
							}
						}
					}
					if ins == ssa.Instruction(r) {
						return true
					}
				}
				for _, sc := range b.Succs {
					if alreadyStoppedConds(ir.EdgeConds(b, sc)) {
						continue // the edge itself is the already-stopped outcome
					}
					if owner == "client" && len(r.Results) == 1 {
						// (an edge on which the returned error is known to be nil leads to a
						// return that lets the loop go on: not an exit)
						rv := ir.ReturnResult(r, 0)
						if own, has := ir.EdgeOwnCond(b, sc); has && ir.ProvesNil(ir.NormConds([]ir.Cond{own}), func(x ssa.Value) bool { return x == rv }) {
							continue
						}
					}
					if free(sc) {
						return true
					}
				}
				return false
			}
			if len(reader.Blocks) > 0 && !free(reader.Blocks[0]) {
				stopped = true
			}
		}
		if !stopped {
			// the decision to exit may be made by a private helper that reports it as a boolean:
			// every way the helper yields that value must follow a stop (or an already-stopped test)
			for _, cd := range ir.CondsAt(r.Block()) {
				v, truth := cd.V, cd.Truth
				if u, isU := v.(*ssa.UnOp); isU && u.Op == token.NOT {
					v, truth = u.X, !truth
				}
				// an exit flag set on some branches and tested after the shared unlock: every edge
				// that sets it to the exiting value follows a stop (or the already-stopped test)
				if phi, isPhi := v.(*ssa.Phi); isPhi {
					all, some := true, false
					visited := map[*ssa.Phi]bool{}
					var walkPhi func(p *ssa.Phi, depth int)
					walkPhi = func(p *ssa.Phi, depth int) {
						visited[p] = true
						for i, e := range p.Edges {
							if inner, isInner := e.(*ssa.Phi); isInner && visited[inner] {
								continue // the flag carried round the loop unchanged
							}
							if inner, isInner := e.(*ssa.Phi); isInner && depth < 4 {
								walkPhi(inner, depth+1)
								continue
							}
							k, isK := e.(*ssa.Const)
							if !isK || k.Value == nil {
								all = false
								continue
							}
							if (k.Value.String() == "true") != truth {
								continue
							}
							some = true
							pred := p.Block().Preds[i]
							last := pred.Instrs[len(pred.Instrs)-1]
							if !(stopDominates(last) || alreadyStoppedConds(append(ir.CondsAt(pred), ir.EdgeConds(pred, p.Block())...))) {
								all = false
							}
						}
					}
					walkPhi(phi, 0)
					if all && some {
						stopped = true
					}
					continue
				}
				call, ok := ir.NormCell(v).(*ssa.Call)
				if !ok || call.Call.StaticCallee() == nil || !c.P.InExt(reader, call.Call.StaticCallee()) {
					continue
				}
				h := call.Call.StaticCallee()
				if h.Signature.Results().Len() != 1 || h.Signature.Results().At(0).Type().String() != "bool" {
					continue
				}
				okh, nh := judgeBool(h, !truth, 1)
				if okh && nh > 0 {
					stopped = true
				}
			}
		}
		c.Check(stopped, "RUN.readerexit", reader, owner+" reader exit", r.Pos(), "the reader exits only after calling the stop function (or on the edge where "+chPath.String()+" is already nil)", "the "+owner+"'s reader can exit without stopping the "+owner+": pending operations would never complete, the stop hook would not run and later operations would transmit on a dead connection")
	}
	if n == 0 {
		c.Undecided("RUN.readerexit", reader, owner+" reader exit", reader.Pos(), "no exit found in the reader")
	}
}

// readerContinueValue: when reader returns a single bool that a loop in its
// (sole) caller tests to decide whether to call it again, report the value on
// which the loop goes on.
func readerContinueValue(c *chk.Ctx, reader *ssa.Function) (known, val bool) {
	res := reader.Signature.Results()
	if res.Len() != 1 || res.At(0).Type().String() != "bool" {
		return false, false
	}
	site, ok := c.P.SoleCaller(reader)
	if !ok {
		return false, false
	}
	call, isCall := site.Instr.(*ssa.Call)
	if !isCall {
		return false, false
	}
	for _, r := range *call.Referrers() {
		var iff *ssa.If
		neg := false
		switch x := r.(type) {
		case *ssa.If:
			iff = x
		case *ssa.UnOp:
			if x.Op == token.NOT {
				for _, r2 := range *x.Referrers() {
					if i2, isIf := r2.(*ssa.If); isIf {
						iff, neg = i2, true
					}
				}
			}
		}
		if iff == nil {
			continue
		}
		back := func(b *ssa.BasicBlock) bool {
			seen := map[*ssa.BasicBlock]bool{}
			var walk func(x *ssa.BasicBlock) bool
			walk = func(x *ssa.BasicBlock) bool {
				if x == call.Block() {
					return true
				}
				if seen[x] {
					return false
				}
				seen[x] = true
				for _, s := range x.Succs {
					if walk(s) {
						return true
					}
				}
				return false
			}
			return walk(b)
		}
		t, f := back(iff.Block().Succs[0]), back(iff.Block().Succs[1])
		if t == f {
			continue
		}
		return true, t != neg
	}
	return false, false
}

// isBufferedChanMake: v is a freshly made channel with a constant buffer of at
// least one, directly or as the result of a private constructor.
func isBufferedChanMake(c *chk.Ctx, v ssa.Value, depth int) bool {
	switch x := v.(type) {
	case *ssa.MakeChan:
		k, isC := ir.ConstInt(x.Size)
		return isC && k >= 1
	case *ssa.ChangeType:
		return isBufferedChanMake(c, x.X, depth)
	case *ssa.Call:
		g := x.Call.StaticCallee()
		if g == nil || !c.P.InRepo[g] || ir.Exported(g) || depth > 2 {
			return false
		}
		rets := ir.Returns(g)
		for _, r := range rets {
			if len(r.Results) != 1 || !isBufferedChanMake(c, ir.ReturnResult(r, 0), depth+1) {
				return false
			}
		}
		return len(rets) > 0
	}
	return false
}
