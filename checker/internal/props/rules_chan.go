package props

import (
	"fmt"
	"go/token"
	"go/types"
	"sort"
	"strings"

	"golang.org/x/tools/go/ssa"

	"jrpcvet/internal/chk"
	"jrpcvet/internal/facts"
	"jrpcvet/internal/ir"
)

// ---------------------------------------------------------------------------
// shared helpers

// rootFuncs lists every function (and closure) of the root package.
func pkgFuncs(c *chk.Ctx, pkg *ssa.Package) []*ssa.Function {
	var out []*ssa.Function
	for _, f := range c.P.Funcs {
		r := ir.Root(f)
		pk := r.Pkg
		if pk == nil && r.Origin() != nil {
			pk = r.Origin().Pkg
		}
		if pk == pkg {
			out = append(out, f)
		}
	}
	return out
}

func hasMethod(t types.Type, name string) bool {
	ms := types.NewMethodSet(t)
	for i := 0; i < ms.Len(); i++ {
		if ms.At(i).Obj().Name() == name {
			return true
		}
	}
	return false
}

// isChanIface: an interface type with Send([]byte) error and/or Recv, Close
// (channel.Channel, the package-local sender/receiver).
func isIface(t types.Type) bool {
	_, ok := t.Underlying().(*types.Interface)
	return ok
}

type chanSite struct {
	fn     *ssa.Function
	instr  ssa.CallInstruction
	method string
	recv   ssa.Value
	args   []ssa.Value     // the operation's arguments as the site's function sees them
	owners map[string]bool // "server", "client"
	other  bool            // provenance includes something that is not an owner's channel field
}

// ownerOf traces a channel-typed value back to the owner field(s) it was
// loaded from.
func ownerOf(c *chk.Ctx, v ssa.Value) (owners map[string]bool, other bool) {
	owners = map[string]bool{}
	stop := func(x ssa.Value) bool {
		if p, ok := x.(*ssa.Parameter); ok && startParamOwner(c, p) != "" {
			return true
		}
		return chk.LoadsField(x, c.M.SCh) || chk.LoadsField(x, c.M.CCh)
	}
	for _, s := range c.P.SourcesStop(v, stop) {
		switch {
		case chk.LoadsField(s, c.M.SCh):
			owners["server"] = true
		case chk.LoadsField(s, c.M.CCh):
			owners["client"] = true
		default:
			if p, ok := s.(*ssa.Parameter); ok {
				// the channel handed to the start function / constructor: the
				// value that is also stored into the owner's field
				if o := startParamOwner(c, p); o != "" {
					owners[o] = true
					continue
				}
			}
			if k, ok := s.(*ssa.Const); ok && k.IsNil() {
				continue
			}
			other = true
		}
	}
	return
}

// startParamOwner: p is the parameter of the function that stores it into an
// owner's channel field.
func startParamOwner(c *chk.Ctx, p *ssa.Parameter) string {
	for _, f := range []struct {
		v *types.Var
		o string
	}{{c.M.SCh, "server"}, {c.M.CCh, "client"}} {
		for _, st := range c.P.FieldStores(f.v) {
			v := ir.NormCell(st.Val)
			if ci, ok := v.(*ssa.ChangeInterface); ok {
				v = ir.NormCell(ci.X)
			}
			if v == ssa.Value(p) {
				return f.o
			}
		}
	}
	return ""
}

// chanSites finds the Send/Recv/Close interface calls in the root package.
func chanSites(c *chk.Ctx, methods ...string) []chanSite {
	var out []chanSite
	for _, f := range pkgFuncs(c, c.M.Pkg) {
		ir.Calls(f, func(ci ssa.CallInstruction) {
			cc := ci.Common()
			if !cc.IsInvoke() {
				return
			}
			ok := false
			for _, m := range methods {
				if cc.Method.Name() == m {
					ok = true
				}
			}
			if !ok {
				return
			}
			// restrict to channel-like interfaces: the interface, or the
			// package's channel.Channel, has the method with the channel signature
			if !types.Identical(cc.Method.Type().(*types.Signature).Params(), chanSig(c, cc.Method.Name()).Params()) ||
				!types.Identical(cc.Method.Type().(*types.Signature).Results(), chanSig(c, cc.Method.Name()).Results()) {
				return
			}
			s := chanSite{fn: f, instr: ci, method: cc.Method.Name(), recv: cc.Value, args: cc.Args}
			s.owners, s.other = ownerOf(c, cc.Value)
			// a one-line method of a helper record that performs just this operation
			// (`func (l *link) transmit(b []byte) error { return l.ch.Send(b) }`) is read as
			// the operation at each of its call sites
			if lifted, ok := liftChanWrapper(c, s); ok {
				out = append(out, lifted...)
				return
			}
			out = append(out, s)
		})
	}
	sort.Slice(out, func(i, j int) bool { return out[i].instr.Pos() < out[j].instr.Pos() })
	return out
}

// liftChanWrapper: s sits in an unexported, straight-line method whose only call
// is s itself, made on a channel read from a field of the receiver, with the
// method's own parameters as arguments and its result returned as it is.
func liftChanWrapper(c *chk.Ctx, s chanSite) ([]chanSite, bool) {
	h := s.fn
	if h.Parent() != nil || ir.Exported(h) || len(h.Blocks) != 1 || h.Signature.Recv() == nil || c.P.UsedAsValue(h) {
		return nil, false
	}
	if _, isOwner := map[*types.Named]bool{c.M.Server: true, c.M.Client: true}[ir.RecvNamed(h)]; isOwner {
		return nil, false
	}
	if _, ok := facts.LoadPath(s.recv); !ok {
		return nil, false
	}
	paramIdx := func(v ssa.Value) int {
		p, ok := ir.NormCell(v).(*ssa.Parameter)
		if !ok {
			return -1
		}
		for i, q := range h.Params {
			if q == p {
				return i
			}
		}
		return -1
	}
	for _, ins := range h.Blocks[0].Instrs {
		switch x := ins.(type) {
		case ssa.CallInstruction:
			if x != s.instr {
				return nil, false
			}
		case *ssa.Store:
			if al, isAl := x.Addr.(*ssa.Alloc); !isAl || al.Heap {
				return nil, false
			}
		case *ssa.Return:
			for _, r := range x.Results {
				v := ir.NormCell(r)
				if v != s.instr.Value() && !ir.IsExtractOfAny(v, s.instr.Value()) {
					return nil, false
				}
			}
		case *ssa.Send, *ssa.MapUpdate, *ssa.Panic, *ssa.Select:
			return nil, false
		}
	}
	var idx []int
	for _, a := range s.args {
		i := paramIdx(a)
		if i < 0 {
			return nil, false
		}
		idx = append(idx, i)
	}
	sites := c.P.Callers(h)
	if len(sites) == 0 {
		return nil, false
	}
	var out []chanSite
	for _, cs := range sites {
		if _, isGo := cs.Instr.(*ssa.Go); isGo {
			return nil, false
		}
		ls := chanSite{fn: cs.Caller, instr: cs.Instr, method: s.method, recv: s.recv, owners: s.owners, other: s.other}
		for _, i := range idx {
			if i >= len(cs.Instr.Common().Args) {
				return nil, false
			}
			ls.args = append(ls.args, cs.Instr.Common().Args[i])
		}
		out = append(out, ls)
	}
	return out, true
}

func chanSig(c *chk.Ctx, method string) *types.Signature {
	ch := c.M.ChanPkg.Pkg.Scope().Lookup("Channel")
	if ch == nil {
		return types.NewSignatureType(nil, nil, nil, nil, nil, false)
	}
	iface := ch.Type().Underlying().(*types.Interface)
	for i := 0; i < iface.NumMethods(); i++ {
		if iface.Method(i).Name() == method {
			return iface.Method(i).Type().(*types.Signature)
		}
	}
	return types.NewSignatureType(nil, nil, nil, nil, nil, false)
}

func ownerLock(c *chk.Ctx, owner string) facts.Path {
	if owner == "server" {
		return chk.PathOfVar(c.M.Server, c.M.SMu)
	}
	return chk.PathOfVar(c.M.Client, c.M.CMu)
}

func ownerType(c *chk.Ctx, owner string) *types.Named {
	if owner == "server" {
		return c.M.Server
	}
	return c.M.Client
}

func ownerCh(c *chk.Ctx, owner string) *types.Var {
	if owner == "server" {
		return c.M.SCh
	}
	return c.M.CCh
}

func locksOfOwner(st facts.State, owner *types.Named) []string {
	var out []string
	for _, l := range st.HeldLocks() {
		if owner != nil && l.Owner == owner.Obj() {
			out = append(out, l.String())
		}
	}
	return out
}

func describeEntry(c *chk.Ctx, f *ssa.Function, lock facts.Path) string {
	var parts []string
	for _, cs := range c.F.EntrySitesWithout(f, lock) {
		parts = append(parts, fmt.Sprintf("%s at %s (%s) enters with %v", ir.Name(cs.Caller), c.P.Pos(cs.Instr.Pos()), cs.Kind, cs.State.HeldLocks()))
	}
	if len(parts) == 0 {
		return ""
	}
	return "; unlocked entries: " + strings.Join(parts, "; ")
}

// ---------------------------------------------------------------------------
// LOCK.common over Send ∪ Close

func ruleLockCommonSendClose(c *chk.Ctx) {
	sites := chanSites(c, "Send", "Close")
	perOwner := map[string][]chanSite{}
	for _, s := range sites {
		if len(s.owners) == 0 {
			c.Undecided("LOCK.common", s.fn, s.method, s.instr.Pos(), "%s on a channel value whose owner cannot be resolved (not loaded from Server/Client channel field)", s.method)
			continue
		}
		if s.other {
			c.Undecided("LOCK.common", s.fn, s.method, s.instr.Pos(), "%s receiver has provenance outside the owner's channel field", s.method)
		}
		for o := range s.owners {
			perOwner[o] = append(perOwner[o], s)
		}
	}
	for _, owner := range []string{"server", "client"} {
		ss := perOwner[owner]
		// intersection of the owner's locks held over all sites
		var common map[string]bool
		type sl struct {
			s     chanSite
			locks []string
		}
		var rows []sl
		for _, s := range ss {
			st := c.F.At(s.instr)
			if d, ok := s.instr.(*ssa.Defer); ok {
				st = c.F.AtDeferred(d)
			}
			locks := locksOfOwner(st, ownerType(c, owner))
			rows = append(rows, sl{s, locks})
			set := map[string]bool{}
			for _, l := range locks {
				set[l] = true
			}
			if common == nil {
				common = set
			} else {
				for l := range common {
					if !set[l] {
						delete(common, l)
					}
				}
			}
		}
		if len(ss) == 0 {
			c.Undecided("LOCK.common", nil, owner+" Send/Close", 0, "no Send/Close site found for the %s's channel", owner)
			continue
		}
		for _, r := range rows {
			construct := fmt.Sprintf("%s %s", owner, r.s.method)
			if len(common) != 0 {
				c.Pass("LOCK.common", r.s.fn, construct, r.s.instr.Pos(), "must-lockset %v; common lock over all %d %s Send/Close sites: %v", r.locks, len(ss), owner, keys(common))
			} else if len(r.locks) == 0 {
				c.Fail("LOCK.common", r.s.fn, construct, r.s.instr.Pos(), "%s on the %s's channel with no %s lock held on some path%s", r.s.method, owner, owner,
					describeEntry(c, r.s.fn, ownerLock(c, owner)))
			} else {
				c.Fail("LOCK.common", r.s.fn, construct, r.s.instr.Pos(), "holds %v but no single lock is common to all %s Send/Close sites", r.locks, owner)
			}
			// wrapper call contexts (diagnosability and floor): receiver comes from a parameter
			if isParamDerived(r.s.recv) {
				for _, cs := range c.F.Sites[r.s.fn] {
					locks := locksOfOwner(cs.State, ownerType(c, owner))
					ok := cs.Kind != "go" && len(locks) != 0
					c.Check(ok, "LOCK.common", cs.Caller, fmt.Sprintf("%s %s via %s", owner, r.s.method, ir.Name(r.s.fn)), cs.Instr.Pos(),
						fmt.Sprintf("call context holds %v", locks), fmt.Sprintf("calls %s (which performs %s) without the %s lock", ir.Name(r.s.fn), r.s.method, owner))
				}
			}
		}
	}
	c.Floor("LOCK.common", 6, "server: encode Send + at least one call context + Close; client: 2 Sends + Close")
}

func isParamDerived(v ssa.Value) bool {
	for {
		switch x := v.(type) {
		case *ssa.Parameter:
			return true
		case *ssa.ChangeInterface:
			v = x.X
		default:
			return false
		}
	}
}

func keys(m map[string]bool) []string {
	var out []string
	for k := range m {
		out = append(out, k)
	}
	sort.Strings(out)
	return out
}

// ---------------------------------------------------------------------------
// one receiver per owner

// goRootsReaching walks the resolved callers of f upward and returns the go
// statements from which f is reachable, and whether some path reaches an
// entry that is not a go statement.
func goRootsReaching(c *chk.Ctx, f *ssa.Function) (gos []*ssa.Go, nonGoEntry []string) {
	seen := map[*ssa.Function]bool{}
	seenGo := map[*ssa.Go]bool{}
	var walk func(g *ssa.Function)
	walk = func(g *ssa.Function) {
		if seen[g] {
			return
		}
		seen[g] = true
		sites := c.P.Callers(g)
		if len(sites) == 0 || ir.Exported(g) || c.P.UsedAsValue(g) {
			nonGoEntry = append(nonGoEntry, ir.Name(g))
		}
		for _, s := range sites {
			if gi, ok := s.Instr.(*ssa.Go); ok {
				if !seenGo[gi] {
					seenGo[gi] = true
					gos = append(gos, gi)
				}
				continue
			}
			walk(s.Caller)
		}
	}
	walk(f)
	return
}

func ruleOneReceiver(c *chk.Ctx) {
	sites := chanSites(c, "Recv")
	count := map[string]int{}
	for _, s := range sites {
		owner := ""
		if len(s.owners) == 1 && !s.other {
			for o := range s.owners {
				owner = o
			}
		}
		if owner == "" {
			c.Undecided("WHO.recv", s.fn, "Recv", s.instr.Pos(), "Recv on a channel in a function that belongs to neither Server nor Client")
			continue
		}
		count[owner]++
		gos, other := goRootsReaching(c, s.fn)
		if len(other) != 0 {
			c.Fail("WHO.recv", s.fn, owner+" Recv", s.instr.Pos(), "Recv is reachable from non-goroutine entries %v: callers could receive concurrently with the reader", other)
			continue
		}
		if len(gos) != 1 {
			c.Fail("WHO.recv", s.fn, owner+" Recv", s.instr.Pos(), "Recv is reachable from %d go statements (want exactly 1)", len(gos))
			continue
		}
		g := gos[0]
		if ir.InCycle(g.Block()) {
			c.Fail("WHO.recv", s.fn, owner+" Recv", g.Pos(), "the reader goroutine is started inside a loop in %s", ir.Name(g.Parent()))
			continue
		}
		// the spawner must be the start function: it stores a non-nil channel into the owner's field
		starts := false
		for _, st := range c.P.FieldStores(ownerCh(c, owner)) {
			if st.Parent() == g.Parent() && !ir.IsNilConst(st.Val) {
				starts = true
			}
		}
		if !starts {
			c.Fail("WHO.recv", s.fn, owner+" Recv", g.Pos(), "the reader goroutine is started in %s, which is not the function that installs the channel", ir.Name(g.Parent()))
			continue
		}
		c.Pass("WHO.recv", s.fn, owner+" Recv", s.instr.Pos(), "single Recv site; reachable only from the go statement at %s in %s (not in a loop), the function that installs the channel",
			c.P.Pos(g.Pos()), ir.Name(g.Parent()))
	}
	for _, owner := range []string{"server", "client"} {
		if count[owner] != 1 {
			c.Fail("WHO.recv", nil, owner+" Recv sites", 0, "%d Recv sites for the %s (want exactly 1)", count[owner], owner)
		}
	}
	c.Floor("WHO.recv", 2, "server reader and client reader")
}

// ---------------------------------------------------------------------------
// RUN.stopOnce / startOnce

func isStoreNilTo(ins ssa.Instruction, f *types.Var) bool {
	st, ok := ins.(*ssa.Store)
	return ok && chk.IsField(st.Addr, f) && ir.IsNilConst(st.Val)
}

// releases reports whether ins may release lock l (an Unlock, or a call whose
// callee may lock/unlock it).
func releases(c *chk.Ctx, ins ssa.Instruction, l facts.Path) bool {
	ci, ok := ins.(ssa.CallInstruction)
	if !ok {
		return false
	}
	if _, isDefer := ins.(*ssa.Defer); isDefer {
		return false
	}
	if _, isGo := ins.(*ssa.Go); isGo {
		return false
	}
	if op, lp, ok := facts.IsMutexOp(ci.Common()); ok {
		return op == "unlock" && lp == l
	}
	gs, _ := c.P.Callees(ci)
	for _, g := range gs {
		if fi := c.F.Funcs[g]; fi != nil && fi.Sum.Touches[l] {
			return true
		}
	}
	return false
}

func ruleStopOnce(c *chk.Ctx, owner string) {
	chf := ownerCh(c, owner)
	lock := ownerLock(c, owner)
	var closes []chanSite
	for _, s := range chanSites(c, "Close") {
		if s.owners[owner] {
			closes = append(closes, s)
		}
	}
	if len(closes) != 1 {
		c.Fail("RUN.stopOnce", nil, owner+" Close sites", 0, "%d Close sites on the %s's channel (want exactly 1)", len(closes), owner)
	}
	for _, s := range closes {
		st := c.F.At(s.instr)
		chPath := chk.PathOfVar(ownerType(c, owner), chf)
		if !st.Has(facts.NonNil, chPath) {
			c.Fail("RUN.stopOnce", s.fn, owner+" Close guard", s.instr.Pos(), "Close is not dominated, within the critical section, by the check that the %s is running (%s != nil): a second stop could close again", owner, chPath)
		} else {
			c.Pass("RUN.stopOnce", s.fn, owner+" Close guard", s.instr.Pos(), "NonNil(%s) holds at Close under %s", chPath, lock)
		}
		q := ir.PathQuery{
			// (the store may be made by a private helper that every path through it passes)
			Goal: c.P.LiftGoal(func(i ssa.Instruction) bool { return isStoreNilTo(i, chf) }, 0),
			Bad:  func(i ssa.Instruction) bool { return releases(c, i, lock) },
		}
		ok, at := q.MustReach(s.instr)
		if ok {
			c.Pass("RUN.stopOnce", s.fn, owner+" Close then clear", s.instr.Pos(), "every path from Close stores nil into %s before the lock can be released or the function returns", chPath)
		} else {
			where := "?"
			if at != nil {
				where = c.P.Pos(at.Pos()) + " (" + at.String() + ")"
			}
			c.Fail("RUN.stopOnce", s.fn, owner+" Close then clear", s.instr.Pos(), "a path from Close reaches %s without clearing %s: the next stop would close the channel again", where, chPath)
		}
	}
	c.Floor("RUN.stopOnce", 2, "guard + clear")
}

func ruleStartOnce(c *chk.Ctx) {
	// server: every store of a non-nil channel requires IsNil(ch) ∧ Held(mu)
	n := 0
	for _, st := range c.P.FieldStores(c.M.SCh) {
		if ir.IsNilConst(st.Val) {
			continue
		}
		n++
		s := c.F.At(st)
		chPath := chk.PathOfVar(c.M.Server, c.M.SCh)
		ok := s.Has(facts.IsNil, chPath) && s.Has(facts.Held, ownerLock(c, "server"))
		c.Check(ok, "RUN.startOnce", st.Parent(), "server install channel", st.Pos(),
			"channel installed only when IsNil("+chPath.String()+") under the lock: at most one reader and one Close per start",
			fmt.Sprintf("channel installed without the not-running guard under the lock (facts %v): two starts could overlap", s))
	}
	for _, st := range c.P.FieldStores(c.M.CCh) {
		if ir.IsNilConst(st.Val) {
			continue
		}
		n++
		fa, _ := st.Addr.(*ssa.FieldAddr)
		fresh := fa != nil && freshOwner(c, fa.X)
		c.Check(fresh, "RUN.startOnce", st.Parent(), "client install channel", st.Pos(),
			"channel installed only into a freshly allocated Client (constructor)", "client channel installed outside the constructor")
	}
	if n < 2 {
		c.Undecided("RUN.startOnce", nil, "install sites", 0, "found %d channel install sites (want 2)", n)
	}
}

// ---------------------------------------------------------------------------
// PROV: whole messages

// encoders are the methods of jmessage/jmessages that return ([]byte, error).
func encoderFuncs(c *chk.Ctx) map[*ssa.Function]bool {
	out := map[*ssa.Function]bool{}
	for _, f := range pkgFuncs(c, c.M.Pkg) {
		if f.Parent() != nil || f.Signature.Recv() == nil {
			continue
		}
		rt := f.Signature.Recv().Type()
		if p, ok := rt.(*types.Pointer); ok {
			rt = p.Elem()
		}
		n, ok := types.Unalias(rt).(*types.Named)
		if !ok {
			continue
		}
		isMsg := n == c.M.Jmessage
		if sl, ok := n.Underlying().(*types.Slice); ok {
			if p, ok := sl.Elem().(*types.Pointer); ok && types.Unalias(p.Elem()) == types.Type(c.M.Jmessage) {
				isMsg = true
			}
		}
		if !isMsg {
			continue
		}
		res := f.Signature.Results()
		if f.Signature.Params().Len() == 0 && res.Len() == 2 && res.At(0).Type().String() == "[]byte" && res.At(1).Type().String() == "error" {
			out[f] = true
		}
		// a method of the message types that writes into a buffer handed to it (an encoder split
		// into "encode to this buffer" and a wrapper)
		if res.Len() == 1 && res.At(0).Type().String() == "error" && writesBuffer(f) {
			out[f] = true
		}
	}
	return out
}

func isBufferWrite(cc *ssa.CallCommon) bool {
	return ir.IsCallTo(cc, "(*bytes.Buffer).Write", "(*bytes.Buffer).WriteString", "(*bytes.Buffer).WriteByte", "(*strings.Builder).WriteString", "(*strings.Builder).Write", "(*strings.Builder).WriteByte")
}

func writesBuffer(f *ssa.Function) bool {
	found := false
	ir.Calls(f, func(ci ssa.CallInstruction) {
		if isBufferWrite(ci.Common()) {
			found = true
		}
	})
	return found
}

func isEncoderCall(encs map[*ssa.Function]bool, v ssa.Value) (*ssa.Call, bool) {
	call, ok := v.(*ssa.Call)
	if !ok {
		return nil, false
	}
	g := call.Call.StaticCallee()
	return call, g != nil && encs[g]
}

// successGuarded: every direct use of e (result #0 of call) happens where the
// call's error result is known to be nil.
func successGuarded(e *ssa.Extract) (bool, string) {
	call := e.Tuple
	sameErr := func(x ssa.Value) bool { return ir.IsExtractOf(x, call, 1) }
	refs := e.Referrers()
	if refs == nil {
		return true, ""
	}
	for _, r := range *refs {
		if _, ok := r.(*ssa.DebugRef); ok {
			continue
		}
		if phi, ok := r.(*ssa.Phi); ok {
			for i, edge := range phi.Edges {
				if edge != ssa.Value(e) {
					continue
				}
				if !ir.ProvesNil(ir.EdgeConds(phi.Block().Preds[i], phi.Block()), sameErr) {
					return false, "flows on through a path where the encoder's error was not checked"
				}
			}
			continue
		}
		if !ir.ProvesNil(ir.CondsAt(r.Block()), sameErr) {
			return false, fmt.Sprintf("used by %q where the encoder's error was not checked", r.String())
		}
	}
	return true, ""
}

func nonEmptyAt(c *chk.Ctx, v ssa.Value, at ssa.Instruction, depth int) (bool, string) {
	if sl, ok := v.(*ssa.Slice); ok {
		if al, ok := sl.X.(*ssa.Alloc); ok {
			if arr, ok := al.Type().Underlying().(*types.Pointer).Elem().Underlying().(*types.Array); ok && arr.Len() >= 1 && sl.Low == nil && sl.High == nil {
				return true, fmt.Sprintf("literal with %d element(s)", arr.Len())
			}
		}
	}
	// (a field of a record read twice is one value: go/ssa has no common-subexpression elimination)
	same := func(x ssa.Value) bool { return x == v || ir.SameValue(x, v) || ir.SameFieldLoad(x, v) }
	for _, cd := range ir.CondsAt(at.Block()) {
		if ir.ImpliesNonEmpty(cd, same) {
			return true, "dominated by a length guard"
		}
	}
	if p, ok := v.(*ssa.Parameter); ok && depth < 4 {
		f := p.Parent()
		if !ir.Exported(f) && !c.P.UsedAsValue(f) && len(c.P.Callers(f)) > 0 {
			idx := -1
			for i, q := range f.Params {
				if q == p {
					idx = i
				}
			}
			var whys []string
			for _, s := range c.P.Callers(f) {
				args := s.Instr.Common().Args
				if idx < 0 || idx >= len(args) {
					return false, "argument not found at " + c.P.Pos(s.Instr.Pos())
				}
				ok, why := nonEmptyAt(c, args[idx], s.Instr, depth+1)
				if !ok {
					return false, fmt.Sprintf("caller %s at %s: %s", ir.Name(s.Caller), c.P.Pos(s.Instr.Pos()), why)
				}
				whys = append(whys, why)
			}
			return true, "every caller: " + strings.Join(whys, " / ")
		}
	}
	return false, "no length guard or non-empty literal"
}

func ruleSendWholeMessages(c *chk.Ctx) {
	encs := encoderFuncs(c)
	if len(encs) < 2 {
		c.Undecided("PROV.send", nil, "encoders", 0, "found %d message encoder methods (want 2: one message, message list)", len(encs))
		return
	}
	stop := func(v ssa.Value) bool {
		if e, ok := v.(*ssa.Extract); ok {
			_, is := isEncoderCall(encs, e.Tuple)
			return is
		}
		return false
	}
	for _, s := range chanSites(c, "Send") {
		args := s.args
		if len(args) != 1 {
			continue
		}
		arg := args[0]
		allEncoded := true
		var bad, foreign []string
		n := 0
		for _, src := range c.P.SourcesStop(arg, stop) {
			n++
			if e, ok := src.(*ssa.Extract); ok && stop(src) && e.Index == 0 {
				if ok, why := successGuarded(e); ok {
					continue
				} else {
					bad = append(bad, fmt.Sprintf("encoder result at %s %s", c.P.Pos(e.Tuple.Pos()), why))
				}
			} else {
				bad = append(bad, fmt.Sprintf("%s (%T) at %s", src.String(), src, c.P.Pos(src.Pos())))
				// bytes that are neither an encoder's output nor "nothing" (nil): text assembled
				// some other way (a formatted string, a conversion) — the emptiness guard at the
				// sink says nothing about its being valid JSON
				if !ir.IsNilConst(src) {
					if _, isParam := src.(*ssa.Parameter); !isParam {
						foreign = append(foreign, fmt.Sprintf("%s (%T) at %s", src.String(), src, c.P.Pos(src.Pos())))
					}
				}
			}
			allEncoded = false
		}
		if len(foreign) > 0 {
			c.Fail("PROV.send", s.fn, "Send argument", s.instr.Pos(), "Send may transmit bytes that no encoder produced: %s — text assembled by formatting is not escaped as JSON (an error message quoting a '\"' would make the record unparseable)", strings.Join(foreign, "; "))
			continue
		}
		if n == 0 {
			c.Undecided("PROV.send", s.fn, "Send argument", s.instr.Pos(), "no provenance found for the Send argument")
			continue
		}
		if allEncoded {
			c.Pass("PROV.send", s.fn, "Send argument", s.instr.Pos(), "every source is the encoder's first result on its err == nil edge (%d source(s))", n)
			continue
		}
		// otherwise the sink itself must refuse an empty record
		if ok, why := nonEmptyAt(c, arg, s.instr, 0); ok {
			c.Pass("PROV.send", s.fn, "Send argument", s.instr.Pos(), "some sources are not checked encoder results (%s), but the Send is %s", strings.Join(bad, "; "), why)
		} else {
			c.Fail("PROV.send", s.fn, "Send argument", s.instr.Pos(), "Send may transmit bytes that are not a successfully encoded message: %s; and the Send is not guarded against an empty record", strings.Join(bad, "; "))
		}
	}
	// list encodings are non-empty
	for _, f := range pkgFuncs(c, c.M.Pkg) {
		ir.Calls(f, func(ci ssa.CallInstruction) {
			g := ci.Common().StaticCallee()
			if g == nil || !encs[g] || len(ci.Common().Args) == 0 {
				return
			}
			recv := ci.Common().Args[0]
			if _, isSlice := recv.Type().Underlying().(*types.Slice); !isSlice {
				return
			}
			if encs[f] {
				return
			}
			ok, why := nonEmptyAt(c, recv, ci, 0)
			c.Check(ok, "PROV.nonempty", f, "message list encoded", ci.Pos(), "the encoded list is non-empty: "+why, "the list passed to the encoder may be empty ("+why+"): an empty array is not a JSON-RPC message")
		})
	}
	c.Floor("PROV.send", 3, "encode, client send, client callback reply")
	c.Floor("PROV.nonempty", 2, "encode and client send")
}

// ruleBareObject: the list encoder emits the bare object exactly when
// len == 1 ∧ ¬batch.
func ruleBareObject(c *chk.Ctx) {
	encs := encoderFuncs(c)
	for f := range encs {
		if _, isSlice := f.Signature.Recv().Type().Underlying().(*types.Slice); !isSlice {
			continue
		}
		n := 0
		ir.Instrs(f, func(ins ssa.Instruction) {
			r, ok := ins.(*ssa.Return)
			if !ok {
				return
			}
			v := ir.ReturnResult(r, 0)
			e, ok := v.(*ssa.Extract)
			if !ok {
				return
			}
			call, ok := e.Tuple.(*ssa.Call)
			if !ok || call.Call.StaticCallee() == nil || !encs[call.Call.StaticCallee()] {
				return
			}
			n++
			var kinds []string
			// (the test may be a one-line predicate of the list: expanded to its conditions)
			conds := ir.CondsAt(r.Block())
			if alts := expandPredicateHelpers(c, conds, 0); len(alts) == 1 {
				conds = alts[0]
			}
			for _, cd := range conds {
				if x, y, op, ok := ir.Rel(cd); ok {
					_, isLen := ir.LenOf(x)
					k, isC := ir.ConstInt(y)
					if !isLen {
						if _, l2 := ir.LenOf(y); l2 {
							k, isC = ir.ConstInt(x)
							isLen = isC
							flip := map[token.Token]token.Token{token.LSS: token.GTR, token.GTR: token.LSS, token.LEQ: token.GEQ, token.GEQ: token.LEQ, token.EQL: token.EQL, token.NEQ: token.NEQ}
							op = flip[op]
						}
					}
					if isLen && isC {
						kinds = append(kinds, fmt.Sprintf("len%s%d:true", op, k))
						continue
					}
				}
				v, t := cd.V, cd.Truth
				if u, isNot := v.(*ssa.UnOp); isNot && u.Op == token.NOT {
					v, t = u.X, !t
				}
				if chk.LoadsField(v, c.M.JBatch) {
					kinds = append(kinds, fmt.Sprintf("batch:%v", t))
					continue
				}
				kinds = append(kinds, "other")
			}
			kinds = dedupStrings(kinds)
			want := map[string]bool{"len==1:true": true, "batch:false": true}
			ok2 := len(kinds) == 2 && want[kinds[0]] && want[kinds[1]] && kinds[0] != kinds[1]
			c.Check(ok2, "TABLE.bare", f, "bare object iff single non-batch", r.Pos(), "the single-object form is returned exactly under len == 1 ∧ ¬batch", "the single-object form is returned under ["+strings.Join(kinds, " ∧ ")+"], not exactly len == 1 ∧ ¬batch: an array request could be answered with a bare object or vice versa")
		})
		if n == 0 {
			c.Undecided("TABLE.bare", f, "bare object iff single non-batch", f.Pos(), "no direct return of the element encoder's result found")
		}
	}
}

// readerOf resolves the owner's reader: its single Recv site (found by the
// provenance of the channel value, not by where the call sits) and the reader
// function, i.e. the owner's method from which that site is reached (the
// function of the site itself, or the method that calls the private helper
// holding it).
func readerOf(c *chk.Ctx, owner string) (*ssa.Function, *chanSite) {
	var site *chanSite
	for _, s := range chanSites(c, "Recv") {
		s := s
		if len(s.owners) == 1 && s.owners[owner] && !s.other {
			if site != nil {
				return nil, nil
			}
			site = &s
		}
	}
	if site == nil {
		return nil, nil
	}
	f := site.fn
	for i := 0; i < 4 && ir.RecvNamed(f) != ownerType(c, owner); i++ {
		cs, ok := c.P.SoleCaller(f)
		if !ok {
			return nil, site
		}
		f = cs.Caller
	}
	if ir.RecvNamed(f) != ownerType(c, owner) {
		return nil, site
	}
	return f, site
}
