package props

import "jrpcvet/internal/chk"

func init() {
	register(&Def{
		ID:          "C01",
		Technique:   "dominance/exclusivity rules over the dispatch closure, goroutine join accounting, field-level provenance in the response builder, predicate extraction (skip, count, bare-object), lockset of sends",
		Explanation: "Decides: (D1) each handler invocation site is reached only for tasks with err == nil, the sites are mutually exclusive within one iteration, and the counter that selects the inline site counts exactly err == nil; (D2) each site reads ctx/handler/request from and writes result/error to one and the same task; (D3) every goroutine that runs a handler is joined by the WaitGroup waited on before the single delivery call, which dominates every return; (D4) the response builder appends once per iteration a fresh message whose id, batch flag, result and error come from the iteration's own task, and bypasses the append exactly when id is absent ∧ code ∉ {ParseError, InvalidRequest}; (D5) nothing is encoded for an empty list and the bare-object form is chosen exactly for len == 1 ∧ ¬batch; (D6) all sends are serialised (C10-D1); (D7) a handler's error is returned only for non-notifications. (D8) the count of runnable tasks is decremented in the task loop only on the err == nil edge of the task at hand (it agrees with what the counting function counts). (D9) the runnable count is never compared with a task's position in the batch; no list of batch members is sorted or reversed; foreign (non-encoder) bytes never reach Send.",
		NotDecided:  []string{"that the wire shows the handler's outcome for every value (parts in C13/C14)", "behaviour when a handler panics or returns an *Error whose Data is not JSON (assumption A-data)", "liveness"},
		Assumptions: []string{"A-data: a handler-supplied *Error carries valid JSON data", "sync.WaitGroup semantics"},
		RuleText:    ruleText,
		Run: func(c *chk.Ctx, tier string) {
			d := dispatchOrUndecided(c, "ROLE.dispatch")
			if d == nil {
				return
			}
			c.Clause("C01-D1/D2")
			ruleInvokeSites(c, d)
			ruleNumToDo(c, d)
			ruleCountdownAgrees(c, d)
			ruleInlineDecisionNotByIndex(c, d)
			ruleNoReorderingOfMessages(c)
			c.Clause("C01-D3")
			ruleDeliverAfterJoin(c, d)
			c.Clause("C01-D4")
			ruleResponses(c, d)
			ruleBatchFlagChain(c, d)
			c.Clause("C01-D5")
			ruleReaderErrorReplies(c)
			ruleSendWholeMessages(c)
			ruleBareObject(c)
			c.Clause("C01-D6")
			ruleLockCommonSendClose(c)
			c.Clause("C01-D7")
			ruleNotificationErrorsDropped(c, d)
		},
	})
	register(&Def{
		ID:          "C03",
		Technique:   "who-may-call and call-graph rules for the single dispatcher, must-pass-through and dominance rules for the notification barrier, predicate agreement between counter and Done sites, lock-state facts at the barrier wait",
		Explanation: "Decides: (D1) the inbound queue is FIFO (Add/Pop only), inserted into only by the reader and the stop function, dequeued at one site reachable only from one go statement of the start function, and the batch is prepared right where it is dequeued; (D2) every path through the prepare function calls the barrier function synchronously, which waits for outstanding notifications and then adds exactly the notification count of the counting function, with the server lock definitely released during the wait; (D3) after every handler invocation Done is called exactly when that same task's request is a notification, and Done/Add sites match; (D4) each batch's runner executes in its own goroutine tracked by the lifetime group, never on the dispatcher's own goroutine; (D5) notifications retained at stop are re-queued one original entry at a time, after the queue was walked and cleared. Also decided: between the handler's return and the barrier Done there is no test other than whether the request is a notification; every batch taken off the queue is handed to the prepare function.",
		NotDecided:  []string{"the liveness half (fair scheduling, semaphore progress)", "handlers that re-enter the server beyond 'the lock is released while waiting'"},
		Assumptions: []string{"sync.WaitGroup semantics", "the queue's Add/Pop are FIFO (mds/queue)"},
		RuleText:    ruleText,
		Run: func(c *chk.Ctx, tier string) {
			d := dispatchOrUndecided(c, "ROLE.dispatch")
			if d == nil {
				return
			}
			c.Clause("C03-D1/D4")
			ruleSingleDispatcher(c, d)
			ruleNoWaitInDispatchLoop(c, d)
			c.Clause("C03-D2/D3")
			ruleNullIsAbsent(c, d)
			ruleBarrier(c, d)
			ruleNumToDo(c, d)
			c.Clause("C03-D5")
			ruleRetainNotifications(c)
		},
	})
	register(&Def{
		ID:          "C06",
		Technique:   "who-may-call inventory of Handler-typed calls, dominance by the Acquire success edge, acquire/release pairing by path query, provenance of the semaphore size",
		Explanation: "Decides: (D1) server-side code calls a Handler value at exactly one site, dominated by the err == nil edge of Acquire on the server's semaphore (built-in handlers are returned as Handler values and take the same path); (D2) every Release is in the acquiring function's own control flow with the acquire's weight, every path from a successful Acquire to the function's exit releases, and no Release precedes the handler call; (D3) the semaphore size is the options accessor's result, which is NumCPU() or the option on its ≥ 1 edge, without arithmetic; (D4) on Acquire's error edge the handler is unreachable. (D5) between obtaining a slot and calling the handler nothing takes the server lock. (D6) on the failure edge of the slot wait the invoke function returns Acquire's own error.",
		NotDecided:  []string{"work conservation (semaphore.Weighted's contract)", "that a cancelled waiter's error is reported as a cancellation error (C14)"},
		Assumptions: []string{"golang.org/x/sync/semaphore.Weighted semantics"},
		RuleText:    ruleText,
		Run: func(c *chk.Ctx, tier string) {
			d := dispatchOrUndecided(c, "ROLE.dispatch")
			if d == nil {
				return
			}
			c.Clause("C06")
			ruleNoWaitInDispatchLoop(c, d)
			ruleSemaphore(c, d)
			ruleSlotWaitErrorReturnedAsIs(c, d)
			ruleOneSemaphoreAtConstruction(c)
			ruleNoLockBeforeHandler(c, d)
			ruleBuiltinThroughInvoke(c)
		},
	})
	register(&Def{
		ID:          "C07",
		Technique:   "writer/deleter inventory of the in-flight table with call-graph reachability, lock discipline on the table, dominance of the reservation by validation, extracted 'not executed' predicate vs. reservation post-condition, loop-exit analysis of the release loop",
		Explanation: "Decides: (D1) ids are reserved at one site, in the context-attach function, and the table is accessed only under the server lock; (D2) the reservation is reached only on the err == nil edge of the same task, a hit in the table fails the task, and all lookups of a batch precede its first reservation; (D3) the predicate under which a response is marked 'not executed' (task.X == nil) is implied false by a reservation (X set non-nil before reserving), the delivery-time release is governed exactly by that mark, and the release loop has no early exit; (D4) ids are deleted only on the way through the delivery function or the stop function (never from CancelRequest). (D5) each reservation stores the cancel function of a context.WithCancel executed for that reservation, and CancelRequest looks up exactly the id it was given. (D6) the in-batch duplicate table is consulted and updated whatever the member's validity; option accessors do not call the user's NewContext themselves. Also decided: the per-batch duplicate table records only members with an id; the exported cancel entry point stores nothing into the server.",
		NotDecided:  []string{"the history-level statement in full", "that the key passed to the reservation equals the id looked up (lock-step slices)"},
		Assumptions: []string{"context.WithCancel/WithValue return non-nil contexts"},
		RuleText:    ruleText,
		Run: func(c *chk.Ctx, tier string) {
			d := dispatchOrUndecided(c, "ROLE.dispatch")
			if d == nil {
				return
			}
			c.Clause("C07-D1")
			ruleLockField(c, "server", c.M.SUsed)
			c.Clause("C07-D1..D4")
			ruleUsedTable(c, d)
			ruleNullIsAbsent(c, d)
			ruleFreshCancelPerReservation(c, d)
			ruleDuplicateCheckForAllMembers(c, d)
			ruleDupTableHoldsOnlyIDs(c, d)
			ruleCancelEntryHasNoOtherEffect(c)
			ruleAccessorsDoNotCallBack(c, "TABLE.default", c.M.Pkg)
			ruleCancelExactID(c)
		},
	})
}
