package props

import (
	"golang.org/x/tools/go/ssa"

	"jrpcvet/internal/chk"
	"jrpcvet/internal/ir"
)

func clientGo(c *chk.Ctx) func(goClass) bool {
	return func(gc goClass) bool {
		r := ir.RecvNamed(gc.g.Parent())
		return inPkg(c, gc.g.Parent(), c.M.Pkg) && (r == c.M.Client || (r != c.M.Server && sideOf(c, gc.g.Parent())["client"] && !sideOf(c, gc.g.Parent())["server"]) || (r == nil && ir.Root(gc.g.Parent()).Name() == "NewClient") || startsClient(c, gc.g.Parent()))
	}
}

func startsClient(c *chk.Ctx, f *ssa.Function) bool {
	for _, st := range c.P.FieldStores(c.M.CCh) {
		if st.Parent() == ir.Root(f) && !ir.IsNilConst(st.Val) {
			return true
		}
	}
	return false
}

func init() {
	register(&Def{
		ID:          "C04",
		Technique:   "typestate of the pending table (lookup-remove-write in one critical section), single-writer slot rules, atomic read-modify-write of the id counter, id/key provenance, routing dominance",
		Explanation: "Decides: (D1) the id counter is read into FormatInt and incremented by exactly 1 in one critical section, with no other writer and no arithmetic between counter and id; (D2) every write into a response slot happens under the client lock, after a hit lookup of the id in the pending table and its removal, to the looked-up entry, once, with no release in between (3 sites); slots have constant capacity ≥ 1; (D3) requests are registered under the lock with key = Response.id, only on the success edge of Send, each with a context watcher whose cancel function is stored in the Response; (D4) the message written into a slot carries the id under which the Response was registered (the id-mismatch panic is unreachable), and request-shaped inbound members are routed away before the table is consulted; unknown ids return without a write. (D6) the loop that delivers the members of an inbound message has no early exit. (D7) the key used to match a reply is the whole (null-normalised) id text, never a substring or respelling. (D8) no list of messages, tasks or responses is sorted or reversed. (D9) the bytes a Recv returned are decoded inside the receiving call: they reach no goroutine, stored closure, field or channel (a framing may reuse its buffer on the next Recv). Also decided: the client's reader performs no channel operation, semaphore acquisition or wait between receives.",
		NotDecided:  []string{"that the value delivered equals what the peer sent for every reply stream", "that response i of Batch belongs to call i is decided only structurally (request i from spec i, one slot per id-carrying request in one in-order pass, send's slice returned unchanged)"},
		Assumptions: []string{"sync.Mutex semantics", "strconv.FormatInt is injective"},
		RuleText:    ruleText,
		Run: func(c *chk.Ctx, tier string) {
			c.Clause("C04-D1")
			ruleAtomicCounter(c, "client", c.M.CNextID)
			ruleLockField(c, "client", c.M.CPending, c.M.CNextID)
			c.Clause("C04-D2")
			ruleTokenWrite(c, "client")
			ruleTokenBuffered(c)
			c.Clause("C04-D3")
			ruleTokenRegister(c, "client")
			ruleRegisterAfterSend(c)
			ruleWatcherContextPairing(c)
			c.Clause("C04-D4")
			ruleTokenKeyed(c, "client")
			ruleClientRouting(c)
			ruleNoReorderingOfMessages(c)
			ruleReaderDoesNotWait(c)
			ruleReplyKeyWhole(c, c.M.CPending, "client")
			ruleSettleCopiesBoth(c)
			ruleCallbackWrappersGuarded(c)
			ruleNullErrorIsAbsent(c)
			ruleRecvBufferNotRetained(c, "PROV.recvbuf")
			c.Clause("C04-D5")
			ruleBatchOrder(c)
			ruleDeliveryLoopVisitsAll(c)
		},
	})
	register(&Def{
		ID:          "C05",
		Technique:   "single-writer slot typestate, stop-function path queries, running-state facts at client sends, goroutine accounting against the lifetime WaitGroup, lock-state facts at hook calls, constant tables of filterError vs ErrorCode",
		Explanation: "Decides: (D1) at most one completion per request: slot writes follow lookup-and-remove in one critical section, slots are closed only by their single receiver after a successful receive; (D2) at least one after an ending event: every registration starts a context watcher with a guaranteed cancel, and every path from Close in the stop function cancels all pending entries and the callback context; Close is guarded, once, and coupled with the stop cause, which is non-nil at every call; (D3) both client Send sites require the running state established in the same critical section; (D4) filterError maps exactly the codes ErrorCode assigns to context.Canceled/DeadlineExceeded back to them; (D5) OnCancel runs with the lock definitely released, after the Response settled, from a closure created only after this goroutine wrote the slot; OnStop runs with the lock released, only from the closure the stop function returns after actually closing; (D6) reader, per-message delivery and callback goroutines are registered with the WaitGroup that Close waits on before every return. (D7) the waiter that settles a Response calls its cancel function on every path; the delivery loop has no early exit. (D8) the loop that waits for the responses of a batch has no early exit; the table of pending responses is assigned only at construction. (D9) option accessors hand the user's callbacks on: they neither call them nor wrap them in a conditional call. Also decided: the client's reader performs no channel operation, semaphore acquisition or wait between receives. From every Lock of the client mutex no path reaches a return without an Unlock (direct, by a callee, or deferred). Also decided: only the stop function cancels the pending table wholesale; the reader reaches no further Recv once it has found the client stopped.",
		NotDecided:  []string{"which of reply / context end wins a race", "absence of blocking in user hooks; timing"},
		Assumptions: []string{"context cancellation semantics", "sync.WaitGroup semantics"},
		RuleText:    ruleText,
		Run: func(c *chk.Ctx, tier string) {
			c.Clause("C05-D1")
			ruleTokenWrite(c, "client")
			ruleTokenClose(c)
			ruleFirstWaiterReleases(c)
			ruleReaderDoesNotWait(c)
			ruleSendFailureReported(c)
			ruleLockBalanced(c, "client")
			ruleBatchWaitsAll(c)
			ruleCallbackWrappersGuarded(c)
			ruleAccessorsDoNotCallBack(c, "TABLE.default", c.M.Pkg)
			rulePendingTablesNeverReplaced(c, c.M.CPending)
			ruleDeliveryLoopVisitsAll(c)
			ruleTokenBuffered(c)
			c.Clause("C05-D2")
			ruleTokenRegister(c, "client")
			ruleWatcherContextPairing(c)
			ruleStopCancelsTable(c, "client", c.M.CPending, c.M.RCancel, "pending requests")
			ruleStopCallsField(c, "client", c.M.CCbcancel, "callback handler contexts")
			ruleStopOnce(c, "client")
			ruleStopAlwaysCloses(c, "client")
			ruleRunCoupled(c, "client")
			c.Clause("C05-D3")
			ruleRunGuardClient(c)
			ruleReaderExitStops(c, "client")
			ruleStoppedReaderExits(c, "client")
			c.Clause("C05-D4")
			ruleFilterErrorTable(c)
			ruleWatcherReportsCtxErr(c, "client")
			ruleEveryPeerErrorFiltered(c)
			c.Clause("C05-D5")
			ruleHooks(c)
			ruleStopResultInvoked(c)
			c.Clause("C05-D6")
			gos := ruleGo(c, clientGo(c), 4, "NewClient, accept, handleRequestLocked, send")
			ruleLifetimeWaited(c, gos, chk.PathOfVar(c.M.Client, c.M.CDone).String(), 3, "client")
			ruleLockField(c, "client", c.M.CCh, c.M.CErr, c.M.CPending)
		},
	})
	register(&Def{
		ID:          "C09",
		Technique:   "gate dominance for push entry points, running-state facts at the push send, atomic id counter, single-writer slot typestate for the callback table, predicate extraction in the reply filter, provenance of the queued batch",
		Explanation: "Decides: (D1) the push function is called only on the allowPush edge, the other edge returning a package-level error; (D2) the push send requires the running state in its critical section and the not-running edge returns a package-level error; (D3) callback ids come from FormatInt(counter) with counter++ in one critical section; (D4) callback slots are written only after lookup-and-remove under the server lock (reader interception and context watcher), registered with key = id together with a context watcher, all cancelled by the stop function; (D5) the reply filter keeps a member for dispatch only if it is a request/notification or push is disabled, and never returns its input; (D6) the reader queues exactly the filter's result (interception precedes queueing, under the lock). (D7) the callback watcher is started on every path after registration; a removed callback entry is always completed; every look-up in the callback table sits on the ¬isRequestOrNotification edge. (D8) the request predicate is exactly method ≠ \"\" ∧ no error ∧ no result; the callback table is assigned only at construction; replies are matched by their whole id text. Also decided: Callback's error filter returns the peer's error itself or a context sentinel, never nil for a non-nil error. Also decided: the member parser never clears the error or result member of a message it is parsing, and installs an error object only by decoding into the field (a null error member is no error).",
		NotDecided:  []string{"which of reply / context end / stop wins a race for a callback"},
		Assumptions: []string{"sync.Mutex semantics"},
		RuleText:    ruleText,
		Run: func(c *chk.Ctx, tier string) {
			c.Clause("C09-D1/D2")
			rulePushGate(c)
			ruleNotifyIgnoresContext(c)
			ruleSettleCopiesBoth(c)
			ruleRunGuardServer(c)
			c.Clause("C09-D3")
			ruleAtomicCounter(c, "server", c.M.SCallID)
			c.Clause("C09-D4")
			ruleWatcherReportsCtxErr(c, "server")
			ruleFilterErrorTable(c)
			ruleTokenWrite(c, "server")
			ruleTokenKeyed(c, "server")
			ruleTokenRegister(c, "server")
			ruleTokenBuffered(c)
			ruleStopCancelsTable(c, "server", c.M.SCall, c.M.RCancel, "pending callbacks")
			ruleCallbackTakeCompletes(c)
			rulePendingTablesNeverReplaced(c, c.M.SCall)
			ruleReplyKeyWhole(c, c.M.SCall, "server")
			ruleRequestPredicateTable(c)
			ruleNullErrorIsAbsent(c)
			ruleLockField(c, "server", c.M.SCall, c.M.SCallID)
			c.Clause("C09-D5/D6")
			ruleReplyFilter(c)
		},
	})
}
