package props

import "jrpcvet/internal/chk"

func init() {
	register(&Def{
		ID:          "C11",
		Technique:   "must-pass-through (dominance) rule for the split-byte refusal, writer/reader constant agreement for header names and length, accumulation-integrity and full-read rules in the receivers, closed-edge rule for the in-memory channel",
		Explanation: "NARROW. Decides only: (D1) in every delimiter framing's Send each write is dominated by the 'delimiter not found in msg' edge and the other edge returns an error without writing — this decides the property's last sentence outright; (D2) the header names the sender writes are, case-folded, the labels the reader switches on, the length written is Itoa(len(msg)) of the very msg appended after the blank line, in one Write; (D3) the in-memory channel's Recv returns io.EOF exactly on the closed edge; plus two necessary conditions of intact delivery under fragmentation: the delimiter receiver returns either the accumulated line or nil where the accumulation is known empty, and record bodies are read with a full-read primitive whose error is returned (a bare Read's count is never ignored). (N2) every Send transmits the caller's record itself (no library call returning a rewritten copy); buffers and tables stored into a channel value are created with it. (N3) Send and Recv of one channel type share no pointer/slice/map field. Also decided: nothing but a Recv method receives from a framing's record channel and the framings start no goroutines. Also decided: the record returned by the delimiter receiver is the accumulated line cut at most once; a framing's buffered reader/decoder is built on the stream itself or on a reader type whose Read keeps the inner byte count.",
		NotDecided:  []string{"THE BODY OF THE PROPERTY: that successive Recv calls reproduce the records byte for byte for every fragmentation and size", "the receive-buffer regrow/shrink arithmetic in the header framing", "bufio continuation semantics", "the RawJSON stream decoder (encoding/json)"},
		Assumptions: []string{"bufio.Reader.ReadSlice / io.ReadFull / io.CopyN contracts"},
		RuleText:    ruleText,
		Run: func(c *chk.Ctx, tier string) {
			c.Clause("C11-D1")
			ruleSplitGuard(c)
			c.Clause("C11-D2")
			ruleHeaderAgreement(c)
			c.Clause("C11-D3")
			ruleDirectEOF(c)
			c.Clause("C11-N1 (necessary conditions of intact delivery)")
			ruleDelimiterRecv(c)
			ruleFullReads(c)
			ruleRecordFilledByFullRead(c)
			rulePerChannelState(c)
			ruleRawDecoderReadsStream(c)
			rulePayloadSentVerbatim(c)
			ruleSendRecvDisjointState(c)
			ruleFramingSingleConsumer(c)
		},
	})
	register(&Def{
		ID:          "C12",
		Technique:   "taint from numeric parsers to allocation sizes and slice bounds with dominating bound checks, API-contract rule for bufio.ReadSlice, predicate tables for header names, content-type policy and the reader's data-with-EOF acceptance",
		Explanation: "Decides: (D1) a length parsed from the stream reaches an allocation size only under a non-negative check and a constant upper bound, and a slice bound only under a non-negative check on the value of its final integer type; (D2) the length is parsed only when the header is present and a parse failure is an error; (D3) the delimiter receiver drops the final byte only on the err == nil edge of ReadSlice, and returns no data only where nothing was accumulated; (D4) header names are compared case-folded against lower-case labels; (D5) the strict receiver builds the mismatch error exactly on got != want and returns it with the payload, the lenient wrapper clears it exactly for an absent type; (D6) bodies are read with full-read primitives whose error is returned, and the server's reader parses data accompanied by an error only for io.EOF with non-empty data. (D7) a record the reader decided to parse cannot reach the receive-failure stop. (D8) a receiver that wraps another receiver returns the inner receiver's record on every path; ReadLine's isPrefix result is never dropped. Also decided: the delimiter receiver accumulates a record in a buffer local to the receiving call; the length is parsed in base 10. Also decided: the record returned by the delimiter receiver is the accumulated line cut at most once; a framing's buffered reader/decoder is built on the stream itself or on a reader type whose Read keeps the inner byte count.",
		NotDecided:  []string{"termination", "never fabricates/reorders as a whole", "keeps failing after exhaustion", "everything about RawJSON (delegated to encoding/json)"},
		Assumptions: []string{"bufio / io / strconv contracts"},
		RuleText:    ruleText,
		Run: func(c *chk.Ctx, tier string) {
			c.Clause("C12-D1/D2")
			ruleBoundedLength(c)
			ruleLengthRequired(c)
			c.Clause("C12-D3")
			ruleDelimiterRecv(c)
			c.Clause("C12-D4")
			ruleHeaderAgreement(c)
			c.Clause("C12-D5")
			ruleContentType(c)
			c.Clause("C12-D6")
			ruleFullReads(c)
			ruleRecordFilledByFullRead(c)
			ruleDataWithReaderError(c)
			ruleHeaderLoopExits(c)
			ruleHeaderSplitAtFirstColon(c)
			ruleRawDecoderReadsStream(c)
			ruleReaderAcceptsDataEOF(c)
			ruleParsedRecordNotDiscarded(c)
			ruleWrapperRecvKeepsPayload(c)
			ruleReadLinePrefixUsed(c)
			ruleAccumulatorIsPerCall(c)
			ruleLengthIsDecimal(c)
		},
	})
}
