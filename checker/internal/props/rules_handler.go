package props

import (
	"fmt"
	"go/token"
	"go/types"
	"os"
	"sort"
	"strings"

	"golang.org/x/tools/go/ssa"

	"jrpcvet/internal/chk"
	"jrpcvet/internal/ir"
)

func handlerFunc(c *chk.Ctx, name string) *ssa.Function { return c.M.Func(c.M.HandlerPkg, name) }

func closuresOf(c *chk.Ctx, f *ssa.Function) []*ssa.Function {
	var out []*ssa.Function
	for _, g := range c.P.Funcs {
		if g.Parent() == f {
			out = append(out, g)
		}
	}
	sort.Slice(out, func(i, j int) bool { return out[i].Pos() < out[j].Pos() })
	return out
}

// handedOut lists the functions a builder function may hand out or run as
// part of what it builds: the closures nested (at any depth) in it and in its
// private helpers, the helpers themselves, and repository functions referenced
// as values there.
func handedOut(c *chk.Ctx, root *ssa.Function) []*ssa.Function {
	in := map[*ssa.Function]bool{}
	var add func(f *ssa.Function, depth int)
	add = func(f *ssa.Function, depth int) {
		if f == nil || in[f] || depth > 6 || !c.P.InRepo[f] {
			return
		}
		in[f] = true
		for _, g := range c.P.Funcs {
			if g.Parent() == f {
				add(g, depth+1)
			}
		}
		ir.Instrs(f, func(ins ssa.Instruction) {
			for _, op := range ins.Operands(nil) {
				if op == nil || *op == nil {
					continue
				}
				if g, ok := (*op).(*ssa.Function); ok && inPkg(c, g, c.M.HandlerPkg) && !ir.Exported(g) {
					add(g, depth+1)
				}
			}
			if mc, ok := ins.(*ssa.MakeClosure); ok {
				fn := mc.Fn.(*ssa.Function)
				add(fn, depth+1)
				// a method value (x.m handed out as a function): the method itself
				if u := ir.UnwrapBound(fn); u != fn {
					add(u, depth+1)
				}
			}
		})
	}
	for _, g := range c.P.Ext(root) {
		add(g, 0)
	}
	var out []*ssa.Function
	for _, g := range c.P.Funcs {
		if in[g] && g != root {
			out = append(out, g)
		}
	}
	sort.Slice(out, func(i, j int) bool { return out[i].Pos() < out[j].Pos() })
	return out
}

// allConds: conditions dominating b plus, per predecessor edge, that edge's
// conditions (for blocks entered through short-circuit || joins).
func predEdgeConds(b *ssa.BasicBlock) [][]ir.Cond {
	var out [][]ir.Cond
	if len(b.Preds) <= 1 {
		return [][]ir.Cond{ir.CondsAt(b)}
	}
	for _, p := range b.Preds {
		out = append(out, ir.EdgeConds(p, b))
	}
	return out
}

// ruleWrapCallsOnce: C15-D1.
func ruleWrapCallsOnce(c *chk.Ctx) {
	wrap := handlerFunc(c, "(*FuncInfo).Wrap")
	if wrap == nil {
		c.Undecided("PAIR.wrap", nil, "Wrap", 0, "not found")
		return
	}
	var h *ssa.Function
	for _, g := range handedOut(c, wrap) {
		if isHandlerSig(c, g.Signature) && (g.Parent() != nil || g.Signature.Recv() != nil) {
			h = g
		}
	}
	if h == nil {
		c.Undecided("PAIR.wrap", wrap, "handler closure", wrap.Pos(), "Wrap returns no closure with the Handler signature")
		return
	}
	// dynamic calls in h: the input decoder, the reflective call, the output decoder
	var decodeIn, reflCall, decodeOut *ssa.Call
	ir.Instrs(h, func(ins ssa.Instruction) {
		call, ok := ins.(*ssa.Call)
		if ok && ir.IsCallTo(&call.Call, "(reflect.Value).Call") {
			reflCall = call // the function value called directly rather than through a pre-bound fv.Call
			return
		}
		if !ok || call.Call.IsInvoke() {
			return
		}
		if _, isB := call.Call.Value.(*ssa.Builtin); isB {
			return
		}
		var sig *types.Signature
		if g := call.Call.StaticCallee(); g != nil {
			// a private method of the wrapper's own state playing one of the three parts
			if !c.P.InRepo[g] || ir.Exported(g) || g.Signature.Recv() == nil {
				return
			}
			sig = types.NewSignatureType(nil, nil, nil, g.Signature.Params(), g.Signature.Results(), false)
		} else {
			sig, _ = call.Call.Value.Type().Underlying().(*types.Signature)
		}
		if sig == nil {
			return
		}
		switch {
		case isInputDecoderSig(sig):
			decodeIn = call
		case sig.Params().Len() == 1 && sig.Results().Len() == 1 && strings.Contains(sig.Results().At(0).Type().String(), "reflect.Value"):
			reflCall = call
		case sig.Params().Len() == 1 && sig.Results().Len() == 2:
			decodeOut = call
		}
	})
	if decodeIn == nil || reflCall == nil || decodeOut == nil {
		c.Undecided("PAIR.wrap", h, "decode-call-decode shape", h.Pos(), "input decoder / reflective call / output decoder not all found (%v %v %v)", decodeIn != nil, reflCall != nil, decodeOut != nil)
		return
	}
	sameErr := func(v ssa.Value) bool { return ir.IsExtractOf(v, decodeIn, 1) }
	callArg := reflCall.Call.Args[len(reflCall.Call.Args)-1]
	givenDecoded := ir.IsExtractOf(ir.NormCell(callArg), decodeIn, 0)
	if !givenDecoded {
		// (a decoder that yields the one argument value: the list is assembled here around it)
		if vals, known := c.P.ElementValues(callArg); known {
			for _, v := range vals {
				if ir.IsExtractOf(ir.NormCell(v), decodeIn, 0) {
					givenDecoded = true
				}
			}
		}
	}
	okGuard := ir.ProvesNil(ir.CondsAt(reflCall.Block()), sameErr) && givenDecoded && !ir.InCycle(reflCall.Block())
	// (exactly: the decoder is consulted unconditionally, and nothing but its verdict stands
	// between it and the call — a guard on the context, say, would add a third outcome)
	if len(ir.CondsAt(decodeIn.Block())) != 0 {
		okGuard = false
	}
	for _, cd := range ir.CondsAt(reflCall.Block()) {
		if x, _, isNC := ir.NilCompare(cd.V); !isNC || !sameErr(x) {
			if _, isFlag := captureOnlyCond(cd.V); !isFlag {
				okGuard = false
			}
		}
	}
	c.Check(okGuard, "PAIR.wrap", h, "function called exactly on successful decoding", reflCall.Pos(), "the reflective call is reached exactly on the input decoder's err == nil edge, with the decoder's values, outside any loop", "the wrapped function can be called although decoding its argument failed (or is not given the decoded values)")
	// the error edge returns that error without calling
	okErr := false
	for _, r := range ir.Returns(h) {
		if ir.IsExtractOf(ir.ReturnResult(r, 1), decodeIn, 1) && ir.ProvesNonNil(ir.CondsAt(r.Block()), sameErr) && !ir.InstrDominates(reflCall, r) {
			okErr = true
		}
	}
	c.Check(okErr, "PAIR.wrap", h, "decode failure returned without calling", h.Pos(), "the decoder's error is returned on its err != nil edge, before any call", "a decoding failure is not returned as is")
	// results pass through the output decoder
	okOut := ir.NormCell(decodeOut.Call.Args[len(decodeOut.Call.Args)-1]) == ssa.Value(reflCall)
	for _, r := range ir.Returns(h) {
		if ir.InstrDominates(reflCall, r) {
			if !ir.IsExtractOf(ir.ReturnResult(r, 0), decodeOut, 0) || !ir.IsExtractOf(ir.ReturnResult(r, 1), decodeOut, 1) {
				okOut = false
			}
		}
	}
	c.Check(okOut, "PAIR.wrap", h, "result and error passed through", decodeOut.Pos(), "after the call, the handler returns exactly the output decoder's pair for the call's results", "the function's results are not returned through the output decoder unchanged")
	// D3: output decoders return vals[k].Interface() only
	for _, g := range handedOut(c, wrap) {
		sig := g.Signature
		if sig.Params().Len() != 1 || sig.Results().Len() != 2 || !strings.Contains(sig.Params().At(0).Type().String(), "reflect.Value") {
			continue
		}
		ok := true
		for _, r := range ir.Returns(g) {
			for i := 0; i < 2; i++ {
				v := ir.ReturnResult(r, i)
				if ir.IsNilConst(v) {
					continue
				}
				good := false
				for _, src := range c.P.SourcesStop(v, func(x ssa.Value) bool {
					call, ok := x.(*ssa.Call)
					return ok && ir.IsCallTo(&call.Call, "(reflect.Value).Interface")
				}) {
					if ir.IsNilConst(src) {
						continue // a result variable's zero value on the other outcome
					}
					if call, isCall := src.(*ssa.Call); isCall && ir.IsCallTo(&call.Call, "(reflect.Value).Interface") {
						good = true
					} else {
						good = false
						break
					}
				}
				if !good {
					ok = false
				}
			}
		}
		c.Check(ok, "PAIR.wrap", g, "output decoder returns the function's own values", g.Pos(), "every non-nil result is vals[k].Interface()", "an output decoder returns something other than the function's own result values")
		// whether there is an error is decided by comparing the value with nil and by nothing else:
		// a decoder that looks inside the value (its kind, its pointee) reclassifies some errors —
		// a nil pointer of an error type is a non-nil error
		peek := ""
		scan := []*ssa.Function{g}
		seenFn := map[*ssa.Function]bool{g: true}
		for i := 0; i < len(scan) && i < 12; i++ {
			ir.Calls(scan[i], func(ci ssa.CallInstruction) {
				if ir.IsCallTo(ci.Common(), "(reflect.Value).Elem", "(reflect.Value).Kind", "(reflect.Value).IsZero", "(reflect.Value).IsValid") && peek == "" {
					peek = c.P.Pos(ci.Pos())
				}
				// (private helpers the decoder hands a result value to are part of it)
				if h := ci.Common().StaticCallee(); h != nil && c.P.InRepo[h] && !ir.Exported(h) && !seenFn[h] && inPkg(c, h, c.M.HandlerPkg) {
					for _, a := range ci.Common().Args {
						if strings.Contains(a.Type().String(), "reflect.Value") {
							seenFn[h] = true
							scan = append(scan, h)
							break
						}
					}
				}
			})
		}
		c.Check(peek == "", "PAIR.wrap", g, "error presence decided by a nil test only", g.Pos(), "the output decoder does not look inside the function's result values", "an output decoder inspects the function's result beyond a nil test (at "+peek+"): an error value such as a nil pointer of an error type would be turned into \"no error\", so a failing call is answered as a success")
	}
	// D2: input decoders' errors are InvalidParams
	ip, _ := pkgConstInt(c.M.Pkg, "InvalidParams")
	for _, g := range handedOut(c, wrap) {
		sig := g.Signature
		if !isInputDecoderSig(sig) {
			continue
		}
		for _, r := range ir.Returns(g) {
			ev := ir.ReturnResult(r, 1)
			if ir.IsNilConst(ev) {
				continue
			}
			// every value the error can be: the InvalidParams sentinel, or an error built with the
			// constant code InvalidParams (possibly inside a private helper whose error is returned)
			isSentinel := func(gl *ssa.Global) bool {
				found := false
				if init := c.M.HandlerPkg.Func("init"); init != nil {
					ir.Instrs(init, func(ins ssa.Instruction) {
						st, isSt := ins.(*ssa.Store)
						if !isSt || st.Addr != ssa.Value(gl) {
							return
						}
						if al, isAl := st.Val.(*ssa.Alloc); isAl {
							for _, ref := range *al.Referrers() {
								if fa, isFA := ref.(*ssa.FieldAddr); isFA && ir.FieldVar(fa).Name() == "Code" {
									for _, r2 := range *fa.Referrers() {
										if s2, isS := r2.(*ssa.Store); isS {
											if k, isC := ir.ConstInt(s2.Val); isC && k == ip {
												found = true
											}
										}
									}
								}
							}
						}
					})
				}
				return found
			}
			isBuilder := func(v ssa.Value) bool {
				call, isCall := v.(*ssa.Call)
				if !isCall || call.Call.StaticCallee() == nil || !c.P.InRepo[call.Call.StaticCallee()] || len(call.Call.Args) == 0 {
					return false
				}
				_, isC := ir.ConstInt(call.Call.Args[0])
				return isC
			}
			ok := true
			nsrc := 0
			for _, src := range c.P.SourcesStop(ev, func(v ssa.Value) bool { return isBuilder(v) || globalLoad(v) != nil }) {
				if ir.IsNilConst(src) {
					continue
				}
				nsrc++
				if gl := globalLoad(src); gl != nil && isSentinel(gl) {
					continue
				}
				if isBuilder(src) {
					if k, _ := ir.ConstInt(src.(*ssa.Call).Call.Args[0]); k == ip {
						continue
					}
				}
				ok = false
			}
			ok = ok && nsrc > 0
			c.Check(ok, "PAIR.wrap", g, "refusals are InvalidParams", r.Pos(), "the decoder's error is the InvalidParams sentinel or built with code InvalidParams", "an input decoder can fail with an error that is not classified InvalidParams")
		}
	}
	c.Floor("PAIR.wrap", 6, "guard, error edge, pass-through, output decoders, refusal returns")
}

// isInputDecoderSig: the shape of Wrap's input decoders: given the request
// (possibly with the context value), they yield the argument value(s) for the
// reflective call and an error.
func isInputDecoderSig(sig *types.Signature) bool {
	if sig == nil || sig.Results().Len() != 2 || !strings.Contains(sig.Results().At(0).Type().String(), "reflect.Value") {
		return false
	}
	for i := 0; i < sig.Params().Len(); i++ {
		if strings.HasSuffix(sig.Params().At(i).Type().String(), "jrpc2.Request") {
			return true
		}
	}
	return false
}

// strictField is the FuncInfo option the exported setter SetStrict stores.
func strictField(c *chk.Ctx) *types.Var {
	f := handlerFunc(c, "(*FuncInfo).SetStrict")
	if f == nil {
		return nil
	}
	var out *types.Var
	ir.Instrs(f, func(ins ssa.Instruction) {
		if st, ok := ins.(*ssa.Store); ok {
			if fa, ok := st.Addr.(*ssa.FieldAddr); ok && st.Val == ssa.Value(f.Params[1]) {
				out = ir.FieldVar(fa)
			}
		}
	})
	return out
}

// ruleWrapSnapshot: C15-D4: the closures Wrap hands out do not read the
// FuncInfo's options at call time.
func ruleWrapSnapshot(c *chk.Ctx) {
	fiT := c.M.HandlerPkg.Pkg.Scope().Lookup("FuncInfo")
	if fiT == nil {
		c.Undecided("WHO.snapshot", nil, "FuncInfo", 0, "not found")
		return
	}
	n := 0
	seenCl := map[*ssa.Function]bool{}
	wrap := handlerFunc(c, "(*FuncInfo).Wrap")
	if wrap == nil {
		c.Undecided("WHO.snapshot", nil, "(*FuncInfo).Wrap", 0, "not found")
		return
	}
	// Wrap and the private FuncInfo methods it builds the handler with
	builders := []*ssa.Function{wrap}
	for _, g := range c.P.Ext(wrap) {
		if g != wrap && g.Parent() == nil && g.Signature.Recv() != nil && ir.RecvNamed(g) != nil && ir.RecvNamed(g).Obj() == fiT {
			builders = append(builders, g)
		}
	}
	for _, f := range builders {
		for _, cl := range handedOut(c, f) {
			if cl.Parent() == nil || seenCl[cl] {
				continue // only what runs at call time: the closures
			}
			seenCl[cl] = true
			n++
			bad := ""
			ir.Instrs(cl, func(ins ssa.Instruction) {
				if fa, ok := ins.(*ssa.FieldAddr); ok {
					if o := ir.FieldOwner(fa); o != nil && o.Obj() == fiT {
						bad = "reads FuncInfo." + ir.FieldVar(fa).Name() + " at call time (" + c.P.Pos(fa.Pos()) + ")"
					}
				}
			})
			c.Check(bad == "", "WHO.snapshot", cl, "options fixed at wrap time", cl.Pos(), "the closure does not touch the FuncInfo: strictness and array options are those in force when the handler was built", "a closure of the built handler "+bad+": changing an option on the FuncInfo later would change handlers that were already built")
		}
	}
	if n < 4 {
		c.Undecided("WHO.snapshot", nil, "handler closures", 0, "found %d closures under Wrap/argWrapper (confirmed by hand: ≥ 4)", n)
	}
	// the strict stub is chosen exactly when strictFields ∧ ¬Implements(strictType)
	var aw *ssa.Function
	c.P.ExtInstrs(wrap, func(ins ssa.Instruction) {
		if call, ok := ins.(*ssa.Call); ok && call.Call.IsInvoke() && call.Call.Method.Name() == "Implements" && aw == nil {
			aw = ir.Root(ins.Parent())
		}
	})
	strictF := strictField(c)
	if aw != nil {
		hasStrict, hasImpl := false, false
		c.P.ExtInstrs(aw, func(ins ssa.Instruction) {
			if fa, ok := ins.(*ssa.FieldAddr); ok && strictF != nil && ir.FieldVar(fa) == strictF {
				hasStrict = true
			}
			if call, ok := ins.(*ssa.Call); ok && call.Call.IsInvoke() && call.Call.Method.Name() == "Implements" {
				hasImpl = true
			}
		})
		c.Check(hasStrict && hasImpl, "WHO.snapshot", aw, "strict stub selection", aw.Pos(), "strictness is decided from strictFields and Implements(strictType) at wrap time", "the strict-field selection does not consult both the option and the parameter type's own DisallowUnknownFields method")
	}
}

// ruleCheckRefusals: C15-D5/D6.
func ruleCheckRefusals(c *chk.Ctx) {
	f := c.M.Func(c.M.HandlerPkg, "Check")
	if f == nil {
		c.Undecided("TABLE.check", nil, "Check", 0, "not found")
		return
	}
	okPairs := true
	for _, r := range ir.Returns(f) {
		a, b := ir.IsNilConst(ir.ReturnResult(r, 0)), ir.IsNilConst(ir.ReturnResult(r, 1))
		if a == b {
			okPairs = false
		}
	}
	c.Check(okPairs, "TABLE.check", f, "refusal by error", f.Pos(), "every return has either a FuncInfo and a nil error or no FuncInfo and an error", "Check can return a nil FuncInfo without an error (or both)")
	// classify the conditions of error returns
	var numIn, numOut ssa.Value
	ir.Instrs(f, func(ins ssa.Instruction) {
		if call, ok := ins.(*ssa.Call); ok && call.Call.IsInvoke() {
			switch call.Call.Method.Name() {
			case "NumIn":
				if numIn == nil {
					numIn = call
				}
			case "NumOut":
				if numOut == nil {
					numOut = call
				}
			}
		}
	})
	isNum := func(v ssa.Value, name string) bool {
		call, ok := v.(*ssa.Call)
		return ok && call.Call.IsInvoke() && call.Call.Method.Name() == name
	}
	_, _ = numIn, numOut
	flip := map[token.Token]token.Token{token.LSS: token.GTR, token.GTR: token.LSS, token.LEQ: token.GEQ, token.GEQ: token.LEQ, token.EQL: token.EQL, token.NEQ: token.NEQ}
	// kindOf renders an outcome canonically: the relation that holds (negation folded into the
	// operator), with the constant on the right
	kindOf := func(cd ir.Cond) string {
		if call, ok := cd.V.(*ssa.Call); ok && call.Call.IsInvoke() && call.Call.Method.Name() == "IsVariadic" {
			if cd.Truth {
				return "variadic"
			}
			return "¬variadic"
		}
		x, y, op, ok := ir.Rel(cd)
		if !ok {
			return "other"
		}
		if _, isC := ir.ConstInt(x); isC {
			x, y, op = y, x, flip[op]
		}
		if k, isC := ir.ConstInt(y); isC {
			switch {
			case isNum(x, "NumIn"):
				return fmt.Sprintf("np%s%d", op, k)
			case isNum(x, "NumOut"):
				return fmt.Sprintf("no%s%d", op, k)
			case isNum(x, "Kind"):
				return fmt.Sprintf("kind%s%d", op, k)
			}
		}
		// type comparisons: In(0) != ctxType, Out(1) != errType
		for _, side := range []ssa.Value{x, y} {
			if g := globalLoad(side); g != nil {
				other := x
				if side == x {
					other = y
				}
				which := "?"
				if call, ok := other.(*ssa.Call); ok && call.Call.IsInvoke() {
					which = call.Call.Method.Name()
					if k, isC := ir.ConstInt(call.Call.Args[0]); isC {
						which += fmt.Sprintf("(%d)", k)
					} else if bo, isBO := call.Call.Args[0].(*ssa.BinOp); isBO && bo.Op == token.SUB && isNum(bo.X, "NumOut") {
						// Out(no-1): the last result; the second one where no == 2 is known
						if k, isC := ir.ConstInt(bo.Y); isC {
							which += fmt.Sprintf("(no-%d)", k)
						}
					}
				}
				return fmt.Sprintf("%s%s%s", which, op, typeGlobalRole(c, g))
			}
		}
		if ir.IsNilConst(y) {
			return "nil" + op.String()
		}
		return "other"
	}
	type refusal struct {
		r     *ssa.Return
		conds [][]string
	}
	var refs []refusal
	for _, r := range ir.Returns(f) {
		if ir.IsNilConst(ir.ReturnResult(r, 1)) {
			continue
		}
		var rf refusal
		rf.r = r
		for _, cs0 := range ir.CondAltsAt(r.Block()) {
			for _, cs := range expandPredicateHelpers(c, cs0, 0) {
				var ks []string
				for _, cd := range cs {
					ks = append(ks, kindOf(cd))
				}
				for _, k := range ks {
					if k == "no==2" {
						for i := range ks {
							ks[i] = strings.Replace(ks[i], "(no-1)", "(1)", 1)
						}
					}
				}
				rf.conds = append(rf.conds, ks)
			}
		}
		refs = append(refs, rf)
	}
	find := func(pred func(ks []string) bool) *refusal {
		for i := range refs {
			for _, ks := range refs[i].conds {
				if pred(ks) {
					return &refs[i]
				}
			}
		}
		return nil
	}
	has := func(ks []string, k string) bool {
		for _, x := range ks {
			if x == k {
				return true
			}
		}
		return false
	}
	funcKind := int64(19) // reflect.Func
	want := []struct {
		name string
		pred func(ks []string) bool
	}{
		{"not a function", func(ks []string) bool { return has(ks, fmt.Sprintf("kind!=%d", funcKind)) }},
		{"no parameters", func(ks []string) bool { return has(ks, "np==0") || has(ks, "np<1") || has(ks, "np<=0") }},
		{"more than two parameters", func(ks []string) bool { return has(ks, "np>2") || has(ks, "np>=3") }},
		{"first parameter is not context.Context", func(ks []string) bool { return has(ks, "In(0)!=ctxType") }},
		{"variadic", func(ks []string) bool { return has(ks, "variadic") }},
		{"no results", func(ks []string) bool { return has(ks, "no<1") || has(ks, "no==0") || has(ks, "no<=0") }},
		{"more than two results", func(ks []string) bool { return has(ks, "no>2") || has(ks, "no>=3") }},
		{"two results and the second is not error", func(ks []string) bool { return has(ks, "no==2") && has(ks, "Out(1)!=errType") }},
	}
	for _, w := range want {
		rf := find(w.pred)
		pos := f.Pos()
		if rf != nil {
			pos = rf.r.Pos()
		}
		c.Check(rf != nil, "TABLE.check", f, "refusal: "+w.name, pos, "an error return is governed by this test", "Check has no error return governed by the test '"+w.name+"': such a value would be accepted")
	}
	// the variadic refusal must be reachable for two parameters (the only arity at which a
	// function whose first parameter is a context can be variadic)
	if rf := find(func(ks []string) bool { return has(ks, "variadic") }); rf != nil {
		reachable := false
		for _, ks := range rf.conds {
			ok := has(ks, "variadic")
			for _, k := range ks {
				if strings.Contains(k, "np") && !npHolds(k, 2) {
					ok = false
				}
			}
			if ok {
				reachable = true
			}
		}
		c.Check(reachable, "TABLE.check", f, "variadic refusal reachable", rf.r.Pos(), "the variadic test is reached for functions of two parameters", "the variadic refusal is governed by a parameter-count test that excludes two parameters: it is dead code, and variadic functions would be accepted")
	}
}

// npHolds evaluates a rendered "np<op>k" condition (possibly negated) for np = n.
func npHolds(k string, n int64) bool {
	if !strings.HasPrefix(strings.TrimPrefix(k, "¬"), "np") {
		return true
	}
	neg := strings.HasPrefix(k, "¬")
	k = strings.TrimPrefix(k, "¬")
	k = strings.TrimPrefix(k, "np")
	var op string
	for _, o := range []string{"==", "!=", "<=", ">=", "<", ">"} {
		if strings.HasPrefix(k, o) {
			op = o
			break
		}
	}
	var v int64
	fmt.Sscanf(strings.TrimPrefix(k, op), "%d", &v)
	var r bool
	switch op {
	case "==":
		r = n == v
	case "!=":
		r = n != v
	case "<":
		r = n < v
	case "<=":
		r = n <= v
	case ">":
		r = n > v
	case ">=":
		r = n >= v
	}
	if neg {
		return !r
	}
	return r
}

// ---------------------------------------------------------------------------
// C16

// ruleExactLength: success returns after an array parse are governed by the
// length equality.
func ruleExactLength(c *chk.Ctx) {
	// the functions that split a JSON array into raw elements and map them onto a fixed list
	// of positions: found by what they do (json.Unmarshal into a []json.RawMessage, directly or
	// through a private helper), not by name
	isArrayParse := func(call *ssa.Call) bool {
		if !ir.IsCallTo(&call.Call, "encoding/json.Unmarshal") || len(call.Call.Args) != 2 {
			return false
		}
		mi, ok := call.Call.Args[1].(*ssa.MakeInterface)
		if !ok {
			return false
		}
		pt, ok := mi.X.Type().(*types.Pointer)
		if !ok {
			return false
		}
		sl, ok := pt.Elem().Underlying().(*types.Slice)
		return ok && strings.HasSuffix(sl.Elem().String(), "json.RawMessage")
	}
	type parseSite struct {
		f     *ssa.Function
		parse *ssa.Call
	}
	var sites []parseSite
	helper := map[*ssa.Function]bool{}
	for _, f := range pkgFuncs(c, c.M.HandlerPkg) {
		ir.Instrs(f, func(ins ssa.Instruction) {
			if call, ok := ins.(*ssa.Call); ok && isArrayParse(call) {
				sites = append(sites, parseSite{f, call})
			}
		})
	}
	// a shared splitting helper: its callers are the mapping functions
	var expanded []parseSite
	for _, s := range sites {
		returnsSlice := false
		if s.f.Signature.Results().Len() >= 1 {
			if sl, ok := s.f.Signature.Results().At(0).Type().Underlying().(*types.Slice); ok && strings.HasSuffix(sl.Elem().String(), "json.RawMessage") {
				returnsSlice = true
			}
		}
		if returnsSlice && !ir.Exported(s.f) {
			helper[s.f] = true
			for _, cs := range c.P.Callers(s.f) {
				if call, ok := cs.Instr.(*ssa.Call); ok {
					expanded = append(expanded, parseSite{cs.Caller, call})
				}
			}
			continue
		}
		expanded = append(expanded, s)
	}
	if len(expanded) < 2 {
		c.Undecided("PAIR.length", nil, "array parse", 0, "found %d functions that split a JSON array into positions (want 2: Args, the array stub)", len(expanded))
	}
	for _, ps := range expanded {
		f, parse := ps.f, ps.parse
		n := 0
		for _, r := range ir.Returns(f) {
			last := len(r.Results) - 1
			if !ir.IsNilConst(ir.ReturnResult(r, last)) && !(last >= 1 && isTailPair(ir.ReturnResult(r, 0), ir.ReturnResult(r, last))) {
				continue // an error return
			}
			if !ir.InstrDominates(parse, r) {
				continue // "not an array" passthrough before the parse
			}
			n++
			// a length, or a helper's parameter that is given a length at every call
			isLen := func(v ssa.Value) bool {
				if _, ok := ir.LenOf(v); ok {
					return true
				}
				par, isPar := v.(*ssa.Parameter)
				if !isPar || ir.Exported(par.Parent()) {
					return false
				}
				idx := -1
				for i, q := range par.Parent().Params {
					if q == par {
						idx = i
					}
				}
				sites := c.P.Callers(par.Parent())
				if idx < 0 || len(sites) == 0 {
					return false
				}
				for _, cs := range sites {
					args := cs.Instr.Common().Args
					if idx >= len(args) {
						return false
					}
					if _, ok := ir.LenOf(args[idx]); !ok {
						return false
					}
				}
				return true
			}
			isLenEq := func(cd ir.Cond) bool {
				x, y, op, ok := ir.Rel(cd)
				if !ok || op != token.EQL {
					return false
				}
				return isLen(x) && isLen(y)
			}
			eq := false
			for _, cd := range ir.CondsAt(r.Block()) {
				if isLenEq(cd) {
					eq = true
				}
			}
			if !eq {
				// the test may be made by a private helper (`if err := checkLen(len(arr)); err != nil`):
				// every way the helper lets the caller go on passes the equality
				alts := expandPredicateHelpers(c, ir.CondsAt(r.Block()), 0)
				if os.Getenv("JRPCVET_DEBUG") != "" {
					for _, alt := range alts {
						fmt.Fprintf(os.Stderr, "PAIR.length %s alt:", ir.Name(f))
						for _, cd := range alt {
							fmt.Fprintf(os.Stderr, " [%v=%v]", cd.V, cd.Truth)
						}
						fmt.Fprintln(os.Stderr)
					}
				}
				all := len(alts) > 0
				for _, alt := range alts {
					has := false
					for _, cd := range alt {
						if isLenEq(cd) {
							has = true
						}
					}
					if !has {
						all = false
					}
				}
				eq = all
			}
			if !eq && parse.Parent() == f {
				// the length test may feed a shared error variable (`if err == nil && len… { err = … }`
				// followed by one `if err != nil` exit): every nil-feasible path from the parse to
				// this return must pass the equality
				all, some := true, false
				okWalk := ir.WalkNilPathsKnowing(parse.Block(), func(v ssa.Value) bool { return nonNilResult(c, v, 0) }, func(path []*ssa.BasicBlock, _ func(ssa.Value) ssa.Value) bool {
					if path[len(path)-1] != r.Block() {
						return true
					}
					some = true
					found := false
					for _, cd := range ir.PathConds(path) {
						if isLenEq(cd) {
							found = true
						}
					}
					if !found {
						all = false
					}
					return false
				})
				eq = okWalk && all && some
			}
			c.Check(eq, "PAIR.length", f, "success only for the exact length", r.Pos(), "a successful return after the array parse is governed by len(got) == len(want)", "a successful return after the array parse is not governed by the length equality: an array of the wrong length (e.g. empty) would be accepted")
		}
		if n == 0 {
			// one shared exit returning an error variable: each way the variable is nil there is a
			// successful return, under the outcomes of its edge
			seenPhi := map[*ssa.Phi]bool{}
			okAll := true
			var expand func(v ssa.Value, conds []ir.Cond, depth int)
			expand = func(v ssa.Value, conds []ir.Cond, depth int) {
				if phi, isPhi := v.(*ssa.Phi); isPhi && depth < 6 {
					if seenPhi[phi] {
						return
					}
					seenPhi[phi] = true
					for i, e := range phi.Edges {
						pred := phi.Block().Preds[i]
						expand(e, append(append([]ir.Cond{}, ir.CondsAt(pred)...), ir.EdgeConds(pred, phi.Block())...), depth+1)
					}
					return
				}
				knownNil := ir.IsNilConst(v)
				for _, cd := range conds {
					// (an error value tested nil on the way: `err := parse(); if err != nil {…} else {…}`)
					if x, isEq, isCmp := ir.NilCompare(cd.V); isCmp && x == v && isEq == cd.Truth {
						knownNil = true
					}
				}
				if !knownNil {
					return
				}
				n++
				has := false
				for _, cd := range conds {
					if x, y, op, ok := ir.Rel(cd); ok && op == token.EQL {
						_, l1 := ir.LenOf(x)
						_, l2 := ir.LenOf(y)
						if l1 && l2 {
							has = true
						}
					}
				}
				if !has {
					okAll = false
				}
			}
			for _, r := range ir.Returns(f) {
				if ir.InstrDominates(parse, r) && len(r.Results) > 0 {
					expand(ir.ReturnResult(r, len(r.Results)-1), ir.CondsAt(r.Block()), 0)
				}
			}
			// an error variable carried round a loop: once it is non-nil the loop is left (otherwise a
			// later element's success would overwrite an earlier element's failure)
			for phi := range seenPhi {
				if !ir.InCycle(phi.Block()) {
					continue
				}
				carriesFailure := false
				for _, e := range phi.Edges {
					if _, isPhi := e.(*ssa.Phi); !isPhi && !ir.IsNilConst(e) {
						carriesFailure = true
					}
				}
				if !carriesFailure {
					continue
				}
				visiting := map[*ssa.Phi]bool{}
				var leavesPhi func(p *ssa.Phi, depth int) bool
				leavesPhi = func(p *ssa.Phi, depth int) bool {
					if depth > 4 {
						return false
					}
					for _, b := range f.Blocks {
						if len(b.Instrs) == 0 || !ir.InCycle(b) {
							continue
						}
						iff, isIf := b.Instrs[len(b.Instrs)-1].(*ssa.If)
						if !isIf {
							continue
						}
						x, eq, isCmp := ir.NilCompare(iff.Cond)
						if !isCmp || x != ssa.Value(p) {
							continue
						}
						nonNilSucc := b.Succs[0]
						if eq {
							nonNilSucc = b.Succs[1]
						}
						if !reachesWithout(nonNilSucc, p.Block(), nil) && nonNilSucc != p.Block() {
							return true
						}
					}
					// or the value only flows on into a variable that is tested that way (the join at
					// the end of the loop body feeding the loop header)
					refs := p.Referrers()
					if refs == nil {
						return false
					}
					visiting[p] = true
					defer delete(visiting, p)
					for _, r := range *refs {
						if x, isPhi := r.(*ssa.Phi); isPhi && !visiting[x] && ir.InCycle(x.Block()) && leavesPhi(x, depth+1) {
							return true
						}
					}
					return false
				}
				if !leavesPhi(phi, 0) {
					okAll = false
				}
			}
			if n > 0 {
				c.Check(okAll, "PAIR.length", f, "success only for the exact length", f.Pos(), "every way the shared exit reports success is governed by len(got) == len(want)", "a successful return after the array parse is not governed by the length equality: an array of the wrong length (e.g. empty) would be accepted")
			}
		}
		if n == 0 {
			c.Undecided("PAIR.length", f, "success returns", f.Pos(), "no successful return after the array parse")
		}
	}
}

// isTailPair: value and error are the two results of one call (return json.Marshal(obj)):
// a success path that merely forwards what the final encoding step reports.
func isTailPair(v, e ssa.Value) bool {
	ev, ok1 := e.(*ssa.Extract)
	vv, ok2 := v.(*ssa.Extract)
	if !ok1 || !ok2 || ev.Tuple != vv.Tuple || vv.Index != 0 {
		return false
	}
	_, isCall := ev.Tuple.(*ssa.Call)
	return isCall
}

// isCallResultErr: the error result is the tail of another call (json.Marshal(obj)) — counts as a success path.
func isCallResultErr(v ssa.Value) bool {
	e, ok := v.(*ssa.Extract)
	if !ok {
		return false
	}
	_, isCall := e.Tuple.(*ssa.Call)
	return isCall
}

// rulePositional: C16-D1.
func rulePositional(c *chk.Ctx) {
	pos := c.M.Func(c.M.HandlerPkg, "Positional")
	// the parts by role: the function that builds the argument struct (calls reflect.StructOf)
	// and the function that generates the caller (calls reflect.MakeFunc), whatever they are named
	var mat, mc *ssa.Function
	var genFn ssa.Value
	for _, g := range pkgFuncs(c, c.M.HandlerPkg) {
		ir.Instrs(g, func(ins ssa.Instruction) {
			call, ok := ins.(*ssa.Call)
			if !ok {
				return
			}
			if ir.IsCallTo(&call.Call, "reflect.StructOf") {
				mat = g
			}
			if ir.IsCallTo(&call.Call, "reflect.MakeFunc") && len(call.Call.Args) == 2 {
				mc, genFn = g, call.Call.Args[1]
			}
		})
	}
	if pos == nil || mat == nil || mc == nil {
		c.Undecided("PAIR.positional", nil, "Positional", 0, "Positional, or the functions calling reflect.StructOf and reflect.MakeFunc, not found")
		return
	}
	// strict fields enabled on the success path
	okStrict := false
	c.P.ExtInstrs(pos, func(ins ssa.Instruction) {
		st, ok := ins.(*ssa.Store)
		if !ok {
			return
		}
		fa, ok := st.Addr.(*ssa.FieldAddr)
		if !ok || ir.FieldVar(fa) == nil || ir.FieldVar(fa) != strictField(c) {
			return
		}
		if k, ok := st.Val.(*ssa.Const); ok && k.Value != nil && k.Value.String() == "true" {
			for _, cd := range ir.CondsAt(st.Block()) {
				if _, eq, ok := ir.NilCompare(cd.V); ok && eq == cd.Truth {
					okStrict = true
				}
			}
		}
	})
	c.Check(okStrict, "PAIR.positional", pos, "strict fields on success", pos.Pos(), "strictFields is set to true on the err == nil edge", "Positional does not enable strict field checking: unknown names would be accepted")
	// arity check before StructOf
	var so *ssa.Call
	ir.Instrs(mat, func(ins ssa.Instruction) {
		if call, ok := ins.(*ssa.Call); ok && ir.IsCallTo(&call.Call, "reflect.StructOf") {
			so = call
		}
	})
	okArity := false
	if so != nil {
		// (the test may sit in the only caller of the struct-building helper)
		conds := ir.CondsAt(so.Block())
		for g, n := mat, 0; n < 3; n++ {
			site, sole := c.P.SoleCaller(g)
			if !sole {
				break
			}
			conds = append(conds, ir.CondsAt(site.Instr.Block())...)
			g = site.Caller
		}
		for _, cd := range conds {
			if bo, ok := cd.V.(*ssa.BinOp); ok && bo.Op == token.NEQ && !cd.Truth {
				_, l2 := ir.LenOf(bo.Y)
				_, l1 := ir.LenOf(bo.X)
				if l1 || l2 {
					okArity = true
				}
			}
		}
	}
	c.Check(okArity, "PAIR.positional", mat, "names match the arity", mat.Pos(), "the struct is built only when the number of names equals the number of non-context parameters", "the argument struct is built without checking len(names) against the arity")
	// the generated caller: args slice fresh per call, element i+1 ← field i
	var cl *ssa.Function
	if mk, ok := ir.NormCell(genFn).(*ssa.MakeClosure); ok {
		if fn, isFn := mk.Fn.(*ssa.Function); isFn {
			cl = ir.UnwrapBound(fn) // a function literal, or a method value of a private type
		}
	} else if fn, ok := ir.NormCell(genFn).(*ssa.Function); ok {
		cl = fn
	}
	if cl == nil || !c.P.InRepo[cl] {
		c.Undecided("PAIR.positional", mc, "generated caller", mc.Pos(), "the function given to reflect.MakeFunc is not a function literal or method of this package")
		return
	}
	var callArgs ssa.Value
	ir.Instrs(cl, func(ins ssa.Instruction) {
		call, ok := ins.(*ssa.Call)
		if !ok {
			return
		}
		if ir.IsCallTo(&call.Call, "(reflect.Value).Call") {
			callArgs = call.Call.Args[len(call.Call.Args)-1]
			return
		}
		if call.Call.IsInvoke() || call.Call.StaticCallee() != nil {
			return
		}
		if _, isB := call.Call.Value.(*ssa.Builtin); isB {
			return
		}
		callArgs = call.Call.Args[0]
	})
	// the argument slice is made for this very call: inside the per-call closure, or inside a
	// private helper the closure calls to build it
	fresh := false
	argFn := cl
	if callArgs != nil {
		v := ir.NormCell(callArgs)
		if mk, ok := v.(*ssa.MakeSlice); ok && mk.Parent() == cl {
			fresh = true
		}
		if hc, ok := v.(*ssa.Call); ok && hc.Parent() == cl {
			if h := hc.Call.StaticCallee(); h != nil && c.P.InRepo[h] && !ir.Exported(h) {
				all, n := true, 0
				for _, r := range ir.Returns(h) {
					n++
					if mk, ok := ir.NormCell(ir.ReturnResult(r, 0)).(*ssa.MakeSlice); !ok || mk.Parent() != h {
						all = false
					}
				}
				if all && n > 0 {
					fresh, argFn = true, h
				}
			}
		}
	}
	c.Check(fresh, "PAIR.positional", cl, "argument slice is per call", cl.Pos(), "the argument slice handed to the function is allocated inside the per-call closure", "the generated caller reuses an argument slice across calls: concurrent calls of one handler would see each other's arguments")
	okIdx := false
	ir.Instrs(argFn, func(ins ssa.Instruction) {
		st, ok := ins.(*ssa.Store)
		if !ok {
			return
		}
		ia, ok := st.Addr.(*ssa.IndexAddr)
		if !ok {
			return
		}
		// cargs[p] = st.Field(p-1): the same pairing, counted from the argument's side
		if call, isCall := st.Val.(*ssa.Call); isCall && ir.IsCallTo(&call.Call, "(reflect.Value).Field") {
			if sub, isSub := call.Call.Args[1].(*ssa.BinOp); isSub && sub.Op == token.SUB && sub.X == ia.Index {
				if k, isK := ir.ConstInt(sub.Y); isK && k == 1 {
					okIdx = true
					return
				}
			}
		}
		bo, ok := ia.Index.(*ssa.BinOp)
		if !ok || bo.Op != token.ADD {
			return
		}
		idx := bo.X
		if k, isK := ir.ConstInt(bo.Y); !isK || k != 1 {
			if k2, isK2 := ir.ConstInt(bo.X); isK2 && k2 == 1 {
				idx = bo.Y
			} else {
				return
			}
		}
		if call, ok := st.Val.(*ssa.Call); ok && ir.IsCallTo(&call.Call, "(reflect.Value).Field") && call.Call.Args[1] == idx {
			okIdx = true
		}
	})
	c.Check(okIdx, "PAIR.positional", cl, "field i becomes argument i+1", cl.Pos(), "cargs[i+1] = st.Field(i) with the same index", "the generated caller does not pass struct field i as argument i+1")
}

// ruleObjDecode: C16-D3.
func ruleObjDecode(c *chk.Ctx) {
	f := handlerFunc(c, "(Obj).UnmarshalJSON")
	if f == nil {
		c.Undecided("PAIR.obj", nil, "Obj.UnmarshalJSON", 0, "not found")
		return
	}
	n := 0
	ir.Instrs(f, func(ins ssa.Instruction) {
		call, ok := ins.(*ssa.Call)
		if !ok || !ir.IsCallTo(&call.Call, "encoding/json.Unmarshal") {
			return
		}
		// the decode into a target (second arg is a map value of the receiver)
		src := call.Call.Args[0]
		if ct, ok := src.(*ssa.ChangeType); ok {
			src = ct.X
		}
		if _, isExtract := src.(*ssa.Extract); !isExtract {
			return
		}
		n++
		present := false
		for _, cd := range ir.CondsAt(call.Block()) {
			if e, ok := cd.V.(*ssa.Extract); ok && e.Index == 1 && cd.Truth {
				if lk, ok := e.Tuple.(*ssa.Lookup); ok && lk.CommaOk && ir.IsExtractOf(src, lk, 0) {
					present = true
				}
			}
		}
		// the target is the ranged map value of the receiver
		target := false
		if e, ok := call.Call.Args[1].(*ssa.Extract); ok && e.Index == 2 {
			if nx, ok := e.Tuple.(*ssa.Next); ok {
				if rg, ok := nx.Iter.(*ssa.Range); ok && rg.X == ssa.Value(f.Params[0]) {
					target = true
				}
			}
		}
		c.Check(present && target, "PAIR.obj", f, "only present keys are decoded, into their own target", call.Pos(), "the decode runs on the key-present edge, from that key's value into the receiver's value for the same key", "Obj decodes a target whose key is absent from the input, or into something other than the receiver's own value")
	})
	if n == 0 {
		c.Undecided("PAIR.obj", f, "target decode", f.Pos(), "no per-key decode found")
	}
}

// ruleOmitTagWholeTag: a struct field is omitted from the positional names
// exactly when its whole json tag is "-" (encoding/json's rule: the tag "-,"
// names a field literally called "-").
func ruleOmitTagWholeTag(c *chk.Ctx) {
	// the function that derives positional names from json tags: the one that looks the json tag up
	var f *ssa.Function
	var lookup *ssa.Call
	for _, g := range pkgFuncs(c, c.M.HandlerPkg) {
		ir.Instrs(g, func(ins ssa.Instruction) {
			if call, ok := ins.(*ssa.Call); ok && ir.IsCallTo(&call.Call, "(reflect.StructTag).Lookup") {
				f, lookup = g, call
			}
		})
	}
	if f == nil {
		c.Undecided("TABLE.tag", nil, "structFieldNames", 0, "no function looks a json struct tag up")
		return
	}
	n := 0
	ir.Instrs(f, func(ins ssa.Instruction) {
		bo, ok := ins.(*ssa.BinOp)
		if !ok || bo.Op != token.EQL {
			return
		}
		if s, isS := constString(bo.Y); !isS || s != "-" {
			return
		}
		n++
		c.Check(lookup != nil && ir.IsExtractOf(bo.X, lookup, 0), "TABLE.tag", f, "omission compares the whole tag", bo.Pos(), "the field is skipped exactly when the whole json tag equals \"-\" (as encoding/json does)", "the omission test compares something other than the whole json tag with \"-\": a field tagged \"-,\" (JSON key \"-\") would be dropped from the positional names, so array and object forms disagree")
	})
	if n == 0 {
		c.Undecided("TABLE.tag", f, "omission test", f.Pos(), "no comparison with \"-\" found")
	}
}

// ruleDecodeTargets: the input decoders allocate a pointer to the parameter's
// element type for pointer parameters (passing the pointer) and a pointer to
// the parameter type otherwise (passing its element).
func ruleDecodeTargets(c *chk.Ctx) {
	wrap := handlerFunc(c, "(*FuncInfo).Wrap")
	if wrap == nil {
		c.Undecided("PAIR.wrap", nil, "ruleDecodeTargets: anchor", 0, "the code this rule is anchored in was not found (wrap == nil)")
		return
	}
	ptrForm, valForm := false, false
	for _, g := range handedOut(c, wrap) {
		if g == wrap || g.Synthetic != "" {
			continue
		}
		// the freshly allocated decode target in g: reflect.New(...) directly, or the first
		// result of a private helper that returns reflect.New(its parameter)
		var nw ssa.Value
		elemArg := false
		isElemCall := func(v ssa.Value) bool {
			call, ok := v.(*ssa.Call)
			return ok && call.Call.IsInvoke() && call.Call.Method.Name() == "Elem"
		}
		ir.Instrs(g, func(ins ssa.Instruction) {
			call, ok := ins.(*ssa.Call)
			if !ok {
				return
			}
			if ir.IsCallTo(&call.Call, "reflect.New") {
				nw, elemArg = call, isElemCall(ir.NormCell(call.Call.Args[0]))
				return
			}
			h := call.Call.StaticCallee()
			if h == nil || !c.P.InRepo[h] || ir.Exported(h) {
				return
			}
			var inner *ssa.Call
			ir.Instrs(h, func(i2 ssa.Instruction) {
				if c2, ok := i2.(*ssa.Call); ok && ir.IsCallTo(&c2.Call, "reflect.New") {
					inner = c2
				}
			})
			if inner == nil {
				return
			}
			prm, isParam := ir.NormCell(inner.Call.Args[0]).(*ssa.Parameter)
			if !isParam {
				return
			}
			for i, q := range h.Params {
				if q == prm && i < len(call.Call.Args) {
					elemArg = isElemCall(ir.NormCell(call.Call.Args[i]))
				}
			}
			// the helper's result that carries the New value
			for _, r := range *call.Referrers() {
				if e, ok := r.(*ssa.Extract); ok && e.Index == 0 {
					nw = e
				}
			}
			if h.Signature.Results().Len() == 1 {
				nw = call
			}
		})
		if nw == nil {
			continue
		}
		passesElem, passesPtr := false, false
		for _, r := range ir.Returns(g) {
			if ir.IsNilConst(ir.ReturnResult(r, 0)) {
				continue
			}
			vals, _ := c.P.ElementValues(ir.ReturnResult(r, 0))
			if _, isSlice := ir.ReturnResult(r, 0).Type().Underlying().(*types.Slice); !isSlice {
				vals = []ssa.Value{ir.ReturnResult(r, 0)} // the one argument value itself
			}
			for _, v := range vals {
				v = ir.NormCell(v)
				if v == nw {
					passesPtr = true
				}
				if call, ok := v.(*ssa.Call); ok && ir.IsCallTo(&call.Call, "(reflect.Value).Elem") && ir.NormCell(call.Call.Args[0]) == nw {
					passesElem = true
				}
			}
		}
		if elemArg && passesPtr && !passesElem {
			ptrForm = true
		}
		if !elemArg && passesElem && !passesPtr {
			valForm = true
		}
	}
	c.Check(ptrForm && valForm, "PAIR.wrap", wrap, "decode target matches the parameter's indirection", wrap.Pos(), "pointer parameters decode into New(arg.Elem()) and receive that pointer; value parameters decode into New(arg) and receive its element", "the input decoders do not distinguish pointer from value parameters (New(arg.Elem()) → pointer, New(arg) → element): a pointer parameter would be decoded through a **T (nil on absent params, DisallowUnknownFields method hidden)")
}

// ruleStubsKeepStrictness: a decoding stub that forwards to a wrapped target
// of interface type with the lenient json.Unmarshal hides the target's own
// DisallowUnknownFields method from Request.UnmarshalParams; it may do so only
// on the edge where the target does not have that method.
func ruleStubsKeepStrictness(c *chk.Ctx) {
	n := 0
	for _, f := range pkgFuncs(c, c.M.HandlerPkg) {
		if f.Parent() != nil || ir.BaseName(f) != "UnmarshalJSON" || f.Signature.Recv() == nil || f.Synthetic != "" {
			continue
		}
		st := recvStruct(f)
		if st == nil {
			continue
		}
		var target *types.Var
		for i := 0; i < st.NumFields(); i++ {
			if _, isIface := st.Field(i).Type().Underlying().(*types.Interface); isIface {
				target = st.Field(i)
			}
		}
		if target == nil {
			continue
		}
		// a stub decodes into the value it wraps, as it is, or into locals of its own — never into
		// something dug out of that value (its own decoder, e.g. a strict one, would be bypassed)
		ir.Instrs(f, func(ins ssa.Instruction) {
			call, ok := ins.(*ssa.Call)
			if !ok {
				return
			}
			var dst ssa.Value
			switch {
			case ir.IsCallTo(&call.Call, "encoding/json.Unmarshal"):
				dst = call.Call.Args[1]
			case ir.IsCallTo(&call.Call, "(*encoding/json.Decoder).Decode"):
				dst = call.Call.Args[1]
			default:
				return
			}
			if mi, isMI := dst.(*ssa.MakeInterface); isMI {
				dst = mi.X
			}
			if _, fv, isF := ir.FieldRead(dst); isF && fv != nil && fv != target {
				c.Fail("WHO.strictstub", f, "stub decodes into the value it wraps", call.Pos(), "the stub decodes into a field of another value (%s) instead of the value it wraps: the wrapped value's own decoding (strict field checking) is bypassed for this form of the parameters", fv.Name())
			}
		})
		ir.Instrs(f, func(ins ssa.Instruction) {
			call, ok := ins.(*ssa.Call)
			if !ok || !ir.IsCallTo(&call.Call, "encoding/json.Unmarshal") {
				return
			}
			u, ok := call.Call.Args[1].(*ssa.UnOp)
			if !ok {
				return
			}
			fa, ok := u.X.(*ssa.FieldAddr)
			if !ok || ir.FieldVar(fa) != target {
				return
			}
			n++
			guarded := false
			for _, cd := range ir.CondsAt(call.Block()) {
				// (the assertion may sit in a one-line predicate given the target)
				if pc, isCall := cd.V.(*ssa.Call); isCall && !cd.Truth && len(pc.Call.Args) == 1 {
					if h := pc.Call.StaticCallee(); h != nil && c.P.InRepo[h] && !ir.Exported(h) && len(h.Params) == 1 {
						arg := pc.Call.Args[0]
						if mi, isMI := arg.(*ssa.MakeInterface); isMI {
							arg = mi.X
						}
						if _, fv, isF := ir.FieldRead(arg); isF && fv == target {
							all := len(ir.Returns(h)) > 0
							for _, r := range ir.Returns(h) {
								good := false
								if e, isE := ir.ReturnResult(r, 0).(*ssa.Extract); isE && e.Index == 1 {
									if ta, isTA := e.Tuple.(*ssa.TypeAssert); isTA && ta.X == ssa.Value(h.Params[0]) {
										if iface, isI := ta.AssertedType.Underlying().(*types.Interface); isI {
											for i := 0; i < iface.NumMethods(); i++ {
												if iface.Method(i).Name() == "DisallowUnknownFields" {
													good = true
												}
											}
										}
									}
								}
								if !good {
									all = false
								}
							}
							if all {
								guarded = true
							}
						}
					}
				}
				e, ok := cd.V.(*ssa.Extract)
				if !ok || e.Index != 1 || cd.Truth {
					continue
				}
				ta, ok := e.Tuple.(*ssa.TypeAssert)
				if !ok {
					continue
				}
				if iface, ok := ta.AssertedType.Underlying().(*types.Interface); ok {
					for i := 0; i < iface.NumMethods(); i++ {
						if iface.Method(i).Name() == "DisallowUnknownFields" {
							if tu, ok := ta.X.(*ssa.UnOp); ok {
								if tfa, ok := tu.X.(*ssa.FieldAddr); ok && ir.FieldVar(tfa) == target {
									guarded = true
								}
							}
						}
					}
				}
			}
			// or the verdict was taken once, when the stub was built: a bool field of the stub that
			// is only ever given the ok flag of that assertion on the value stored as the target in
			// the same literal
			if !guarded {
				for _, cd := range ir.CondsAt(call.Block()) {
					if cd.Truth {
						continue
					}
					lu, ok := cd.V.(*ssa.UnOp)
					if !ok || lu.Op != token.MUL {
						continue
					}
					ffa, ok := lu.X.(*ssa.FieldAddr)
					if !ok || ir.FieldOwner(ffa) != ir.FieldOwner(fa) {
						continue
					}
					flag := ir.FieldVar(ffa)
					stores := c.P.FieldStores(flag)
					all := len(stores) > 0
					for _, fs := range stores {
						good := false
						if e, isE := fs.Val.(*ssa.Extract); isE && e.Index == 1 {
							if ta, isTA := e.Tuple.(*ssa.TypeAssert); isTA {
								if iface, isI := ta.AssertedType.Underlying().(*types.Interface); isI {
									for i := 0; i < iface.NumMethods(); i++ {
										if iface.Method(i).Name() != "DisallowUnknownFields" {
											continue
										}
										// the asserted value is what the same stub gets as its target
										sfa, _ := fs.Addr.(*ssa.FieldAddr)
										for _, ts := range c.P.FieldStores(target) {
											tfa, _ := ts.Addr.(*ssa.FieldAddr)
											if sfa != nil && tfa != nil && tfa.X == sfa.X && (ts.Val == ta.X || ir.SameValue(ts.Val, ta.X)) {
												good = true
											}
										}
									}
								}
							}
						}
						if !good {
							all = false
						}
					}
					if all {
						guarded = true
					}
				}
			}
			c.Check(guarded, "WHO.strictstub", f, "stub keeps the target's own strictness", call.Pos(), "the lenient json.Unmarshal into the wrapped target runs only where the target has no DisallowUnknownFields method", "the stub decodes its wrapped target with the lenient json.Unmarshal without checking the target for a DisallowUnknownFields method: wrapping hides that method from Request.UnmarshalParams, so a parameter type that demands strict fields accepts unknown fields (e.g. while array support is enabled)")
		})
	}
	if n == 0 {
		c.Undecided("WHO.strictstub", nil, "decoding stubs", 0, "no stub that forwards to a wrapped target found")
	}
}

// nonNilResult: v is never nil — a value nonNilValue accepts, a fresh
// allocation, or the result of a repository function all of whose returns are
// such values (a constructor like Errorf).
func nonNilResult(c *chk.Ctx, v ssa.Value, depth int) bool {
	if mi, ok := v.(*ssa.MakeInterface); ok {
		if _, isPtr := mi.X.Type().Underlying().(*types.Pointer); isPtr {
			return nonNilResult(c, mi.X, depth)
		}
		return true
	}
	if nonNilValue(v) {
		return true
	}
	if _, ok := v.(*ssa.Alloc); ok {
		return true
	}
	call, ok := v.(*ssa.Call)
	if !ok || depth > 2 {
		return false
	}
	g := call.Call.StaticCallee()
	if g == nil || !c.P.InRepo[g] || g.Signature.Results().Len() != 1 {
		return false
	}
	rets := ir.Returns(g)
	if len(rets) == 0 {
		return false
	}
	for _, r := range rets {
		if !nonNilResult(c, ir.NormCell(ir.ReturnResult(r, 0)), depth+1) {
			return false
		}
	}
	return true
}

// captureOnlyCond: v is decided when the handler was built, not per call: a
// constant, or a captured variable (or a comparison of captured variables and
// constants).
func captureOnlyCond(v ssa.Value) (ssa.Value, bool) {
	var fixed func(x ssa.Value, d int) bool
	fixed = func(x ssa.Value, d int) bool {
		if d > 4 {
			return false
		}
		switch y := x.(type) {
		case *ssa.Const:
			return true
		case *ssa.FreeVar:
			return true
		case *ssa.UnOp:
			return fixed(y.X, d+1)
		case *ssa.BinOp:
			return fixed(y.X, d+1) && fixed(y.Y, d+1)
		}
		return false
	}
	return v, fixed(v, 0)
}
