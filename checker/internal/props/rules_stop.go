package props

import (
	"fmt"
	"go/token"
	"go/types"
	"os"
	"strings"

	"jrpcvet/internal/facts"

	"golang.org/x/tools/go/ssa"

	"jrpcvet/internal/chk"
	"jrpcvet/internal/ir"
)

// rangeOverField finds `range <load of field f>` instructions in fn.
func rangesOverField(fn *ssa.Function, f *types.Var) []*ssa.Range {
	var out []*ssa.Range
	ir.Instrs(fn, func(ins ssa.Instruction) {
		if r, ok := ins.(*ssa.Range); ok && chk.LoadsField(r.X, f) {
			out = append(out, r)
		}
	})
	return out
}

// rangedValue returns the Extract(#2) values of the Next instructions of r.
func rangedValues(r *ssa.Range) []*ssa.Extract {
	var out []*ssa.Extract
	for _, ref := range *r.Referrers() {
		nx, ok := ref.(*ssa.Next)
		if !ok {
			continue
		}
		for _, r2 := range *nx.Referrers() {
			if e, ok := r2.(*ssa.Extract); ok && e.Index == 2 {
				out = append(out, e)
			}
		}
	}
	return out
}

// callsValue reports whether fn calls v directly, or (via != nil) calls the
// function stored in field `via` of v.
func callsValueOrField(v ssa.Value, via *types.Var) (ssa.Instruction, bool) {
	for _, ref := range *v.Referrers() {
		if ci, ok := ref.(ssa.CallInstruction); ok && ci.Common().Value == v && via == nil {
			return ci, true
		}
		// (the field read through a pure getter of the entry: p.getCancel()())
		if gc, ok := ref.(*ssa.Call); ok && via != nil && len(gc.Call.Args) == 1 && gc.Call.Args[0] == v {
			if ld, isLoad := ir.GetterLoad(gc).(*ssa.UnOp); isLoad && ssa.Value(ld) != ssa.Value(gc) {
				if fa, isFA := ld.X.(*ssa.FieldAddr); isFA && ir.FieldVar(fa) == via {
					for _, r3 := range *gc.Referrers() {
						if ci, ok := r3.(ssa.CallInstruction); ok && ci.Common().Value == ssa.Value(gc) {
							return ci, true
						}
					}
				}
			}
		}
		if fa, ok := ref.(*ssa.FieldAddr); ok && via != nil && ir.FieldVar(fa) == via {
			for _, r2 := range *fa.Referrers() {
				if ld, ok := r2.(*ssa.UnOp); ok {
					for _, r3 := range *ld.Referrers() {
						if ci, ok := r3.(ssa.CallInstruction); ok && ci.Common().Value == ssa.Value(ld) {
							return ci, true
						}
					}
				}
			}
		}
	}
	return nil, false
}

// ruleStopCancelsTable: after Close, the stop function ranges over the whole
// table and invokes each entry's cancel function.
func ruleStopCancelsTable(c *chk.Ctx, owner string, table *types.Var, via *types.Var, what string) {
	stop := stopFunc(c, owner)
	if stop == nil {
		c.Undecided("TOKEN.stop", nil, owner+" stop function", 0, "stop function not uniquely resolved")
		return
	}
	if table == nil {
		c.Undecided("TOKEN.stop", stop, what, stop.Pos(), "the table of %s was not resolved", what)
		return
	}
	var closeSite ssa.Instruction
	for _, s := range chanSites(c, "Close") {
		if s.owners[owner] {
			closeSite = s.instr
		}
	}
	var good ssa.Instruction
	for _, g := range c.P.Ext(stop) {
		for _, r := range rangesOverField(g, table) {
			for _, v := range rangedValues(r) {
				if _, ok := callsValueOrField(v, via); ok {
					good = r
				}
			}
		}
		// for id := range table { h(id) }: every key is handed, unconditionally, to a private
		// helper that looks the key up in the same table and invokes the entry found
		for _, r := range rangesOverField(g, table) {
			for _, ref := range *r.Referrers() {
				nx, ok := ref.(*ssa.Next)
				if !ok {
					continue
				}
				for _, r2 := range *nx.Referrers() {
					key, ok := r2.(*ssa.Extract)
					if !ok || key.Index != 1 {
						continue
					}
					for _, r3 := range *key.Referrers() {
						call, ok := r3.(*ssa.Call)
						if !ok || len(ir.CondsAt(call.Block())) != len(ir.CondsAt(key.Block())) {
							continue
						}
						h := call.Call.StaticCallee()
						if h == nil || !c.P.InRepo[h] || ir.Exported(h) {
							continue
						}
						for i, a := range call.Call.Args {
							if a != ssa.Value(key) || i >= len(h.Params) {
								continue
							}
							ir.Instrs(h, func(ins ssa.Instruction) {
								lk, ok := ins.(*ssa.Lookup)
								if !ok || !chk.LoadsField(lk.X, table) || ir.NormCell(lk.Index) != ssa.Value(h.Params[i]) {
									return
								}
								vals := []ssa.Value{lk}
								for _, lr := range *lk.Referrers() {
									if e, isE := lr.(*ssa.Extract); isE && e.Index == 0 {
										vals = append(vals, e)
									}
								}
								for _, v := range vals {
									if _, ok := callsValueOrField(v, via); ok {
										good = r
									}
								}
							})
						}
					}
				}
			}
		}
		// maps.DeleteFunc(table, func(k, v) bool { v(); return true }): every entry is visited,
		// its cancel function invoked, and the entry removed
		ir.Instrs(g, func(ins ssa.Instruction) {
			call, ok := ins.(*ssa.Call)
			if !ok || !strings.HasPrefix(ir.CalleeName(&call.Call), "maps.DeleteFunc") || len(call.Call.Args) != 2 || !chk.LoadsField(call.Call.Args[0], table) {
				return
			}
			var yf *ssa.Function
			switch y := call.Call.Args[1].(type) {
			case *ssa.MakeClosure:
				yf = y.Fn.(*ssa.Function)
			case *ssa.Function:
				yf = y
			}
			if yf == nil || len(yf.Params) != 2 {
				return
			}
			if _, ok := callsValueOrField(yf.Params[1], via); ok {
				good = call
			}
		})
		// range over maps.Values(table) / maps.All(table): go/ssa compiles the loop body into a
		// yield function that is handed to the iterator
		ir.Instrs(g, func(ins ssa.Instruction) {
			seqCall, ok := ins.(*ssa.Call)
			if !ok || len(seqCall.Call.Args) != 1 {
				return
			}
			mk, ok := seqCall.Call.Value.(*ssa.Call)
			if !ok || len(mk.Call.Args) != 1 || !chk.LoadsField(mk.Call.Args[0], table) {
				return
			}
			callee := ir.CalleeName(&mk.Call)
			valueParam := -1
			switch {
			case strings.HasPrefix(callee, "maps.Values"):
				valueParam = 0
			case strings.HasPrefix(callee, "maps.All"):
				valueParam = 1
			}
			if strings.HasPrefix(callee, "maps.Keys") || strings.HasPrefix(callee, "maps.All") {
				// the key of every entry handed to a private helper that looks it up in the
				// same table and invokes the entry found
				if yc, ok := seqCall.Call.Args[0].(*ssa.MakeClosure); ok {
					yf := yc.Fn.(*ssa.Function)
					all := len(yf.Params) > 0
					for _, r := range ir.Returns(yf) {
						if k, isK := ir.ReturnResult(r, 0).(*ssa.Const); !isK || k.Value == nil || k.Value.String() != "true" {
							all = false
						}
					}
					if all {
						key := yf.Params[0]
						var calls []*ssa.Call
						ir.Instrs(yf, func(i2 ssa.Instruction) {
							if call, ok := i2.(*ssa.Call); ok {
								calls = append(calls, call)
							}
						})
						for _, call := range calls {
							// (unconditional, apart from the loop-state check go/ssa puts at the
							// head of a synthetic yield function)
							own := 0
							for _, cd := range ir.CondsAt(call.Block()) {
								if cd.If == nil || len(yf.Blocks) == 0 || cd.If.Block() != yf.Blocks[0] || !strings.Contains(yf.Synthetic, "range-over-func") {
									own++
								}
							}
							if own != 0 {
								continue
							}
							h := call.Call.StaticCallee()
							if h == nil || !c.P.InRepo[h] || ir.Exported(h) {
								continue
							}
							for i, a := range call.Call.Args {
								if ir.NormCell(a) != ssa.Value(key) || i >= len(h.Params) {
									continue
								}
								ir.Instrs(h, func(i2 ssa.Instruction) {
									lk, ok := i2.(*ssa.Lookup)
									if !ok || !chk.LoadsField(lk.X, table) || ir.NormCell(lk.Index) != ssa.Value(h.Params[i]) {
										return
									}
									vals := []ssa.Value{lk}
									for _, lr := range *lk.Referrers() {
										if e, isE := lr.(*ssa.Extract); isE && e.Index == 0 {
											vals = append(vals, e)
										}
									}
									for _, v := range vals {
										if _, ok := callsValueOrField(v, via); ok {
											good = seqCall
										}
									}
								})
							}
						}
					}
				}
			}
			if valueParam < 0 {
				return
			}
			yc, ok := seqCall.Call.Args[0].(*ssa.MakeClosure)
			if !ok {
				return
			}
			yf := yc.Fn.(*ssa.Function)
			if valueParam >= len(yf.Params) {
				return
			}
			// the yield function must visit every entry: it never returns false
			all := true
			for _, r := range ir.Returns(yf) {
				if k, isK := ir.ReturnResult(r, 0).(*ssa.Const); !isK || k.Value == nil || k.Value.String() != "true" {
					all = false
				}
			}
			if _, ok := callsValueOrField(yf.Params[valueParam], via); ok && all {
				good = seqCall
			}
		})
	}
	if good == nil {
		c.Fail("TOKEN.stop", stop, what, stop.Pos(), "the stop function does not range over %s invoking each entry's cancel function: %s would never be released at stop", table.Name(), what)
		return
	}
	goal := c.P.LiftGoal(func(i ssa.Instruction) bool { return i == ssa.Instruction(good) }, 0)
	q := ir.PathQuery{Goal: goal}
	if ok, at := q.MustReach(closeSite); !ok {
		where := "?"
		if at != nil {
			where = c.P.Pos(at.Pos())
		}
		c.Fail("TOKEN.stop", stop, what, good.Pos(), "a path from Close reaches %s without cancelling the entries of %s", where, table.Name())
		return
	}
	c.Pass("TOKEN.stop", stop, what, good.Pos(), "every path from Close ranges over all of %s and invokes each entry's cancel", table.Name())
	// and only the stop function does that: elsewhere an entry is cancelled one at a time, by its
	// own key
	inStop := map[*ssa.Function]bool{}
	for _, g := range c.P.Ext(stop) {
		inStop[g] = true
	}
	bad := ""
	for _, g := range pkgFuncs(c, c.M.Pkg) {
		if inStop[g] {
			continue
		}
		for _, r := range rangesOverField(g, table) {
			for _, v := range rangedValues(r) {
				if _, ok := callsValueOrField(v, via); ok && bad == "" {
					bad = c.P.Pos(r.Pos())
				}
			}
		}
	}
	c.Check(bad == "", "TOKEN.stop", stop, what+": cancelled wholesale only at stop", stop.Pos(), "no function outside the stop function ranges over "+table.Name()+" invoking the entries' cancel functions", "outside the stop function the whole of "+table.Name()+" is ranged over and every entry cancelled (at "+bad+"): operations that are unrelated to the failing one, and whose own context is alive, would be completed with a cancellation error")
}

// ruleStopCancelsField: the stop function calls the cancel function stored in
// a field of the owner (client callback context).
func ruleStopCallsField(c *chk.Ctx, owner string, f *types.Var, what string) {
	stop := stopFunc(c, owner)
	if stop == nil {
		c.Undecided("TOKEN.stop", nil, "ruleStopCallsField: anchor", 0, "the code this rule is anchored in was not found (stop == nil)")
		return
	}
	var closeSite ssa.Instruction
	for _, s := range chanSites(c, "Close") {
		if s.owners[owner] {
			closeSite = s.instr
		}
	}
	// (the call may sit in a private helper — a method of the type that owns the field)
	q := ir.PathQuery{Goal: c.P.LiftGoal(func(i ssa.Instruction) bool {
		ci, ok := i.(ssa.CallInstruction)
		return ok && chk.LoadsField(ci.Common().Value, f)
	}, 0)}
	ok, _ := q.MustReach(closeSite)
	c.Check(ok, "TOKEN.stop", stop, what, closeSite.Pos(), "every path from Close invokes "+f.Name(), "the stop function can return without invoking "+f.Name()+": "+what+" would not end at stop")
}

// ruleRetainNotifications: queued notifications survive the stop.
func ruleRetainNotifications(c *chk.Ctx) {
	stop := stopFunc(c, "server")
	if stop == nil {
		c.Undecided("RUN.retain", nil, "ruleRetainNotifications: anchor", 0, "the code this rule is anchored in was not found (stop == nil)")
		return
	}
	isQ := func(ci ssa.CallInstruction, name string) bool {
		cc := ci.Common()
		g := ir.CalleeThroughBound(cc)
		if g == nil || ir.BaseName(g) != name {
			return false
		}
		if mc, ok := cc.Value.(*ssa.MakeClosure); ok {
			// a bound method value called in place (range-over-func): the receiver is the binding
			if len(mc.Bindings) == 1 {
				return chk.IsField(mc.Bindings[0], c.M.SInq)
			}
			return false
		}
		return len(cc.Args) > 0 && chk.IsField(cc.Args[0], c.M.SInq)
	}
	var each, clear, add ssa.CallInstruction
	for _, g := range c.P.Ext(stop) {
		ir.Calls(g, func(ci ssa.CallInstruction) {
			switch {
			case isQ(ci, "Each"):
				each = ci
			case isQ(ci, "Clear"):
				clear = ci
			case isQ(ci, "Add"), isQ(ci, "Push"):
				add = ci
			}
		})
	}
	if each == nil || clear == nil || add == nil {
		c.Fail("RUN.retain", stop, "retain queued notifications", stop.Pos(), "the stop function does not walk the queue (Each=%v), clear it (Clear=%v) and re-queue (Add=%v): notifications received before the stop would be dropped", each != nil, clear != nil, add != nil)
		return
	}
	okOrder := c.P.IDominates(each, clear) && c.P.IDominates(clear, add)
	c.Check(okOrder, "RUN.retain", stop, "walk, clear, re-queue order", clear.Pos(), "queue walked, then cleared, then retained members re-queued", "retained members must be collected before the queue is cleared and re-queued after it")
	// inside the Each callback: the append of the member is governed by isNotification() == true
	cbs, _ := c.P.FuncValues(each.Common().Args[len(each.Common().Args)-1])
	found := false
	// the walk may hand each entry on to a function it was given (a wrapper `each(fn)` around the
	// queue's own iteration): that function is part of the walk
	walkFns := append([]*ssa.Function{}, cbs...)
	for i := 0; i < len(walkFns) && i < 8; i++ {
		c.P.ExtCalls(walkFns[i], func(ci ssa.CallInstruction) {
			if ci.Common().StaticCallee() != nil || ci.Common().IsInvoke() {
				return
			}
			if _, isB := ci.Common().Value.(*ssa.Builtin); isB {
				return
			}
			gs, _ := c.P.Callees(ci)
			for _, g := range gs {
				dup := false
				for _, w := range walkFns {
					if w == g {
						dup = true
					}
				}
				if !dup && c.P.InRepo[g] {
					walkFns = append(walkFns, g)
				}
			}
		})
	}
	// truePred: the outcome cd says "is a notification": the predicate itself, or a function
	// value (a keep/filter callback) all of whose true returns sit on the predicate's true edge
	var truePred func(cd ir.Cond, depth int) bool
	truePred = func(cd ir.Cond, depth int) bool {
		pc, ok := cd.V.(*ssa.Call)
		if !ok || !cd.Truth || depth > 2 {
			return false
		}
		if g := pc.Call.StaticCallee(); g != nil {
			return isNotificationPred(c, g)
		}
		gs, complete := c.P.Callees(pc)
		if !complete || len(gs) != 1 || gs[0].Signature.Results().Len() != 1 {
			return false
		}
		all, some := true, false
		for _, r := range ir.Returns(gs[0]) {
			k, isK := ir.ReturnResult(r, 0).(*ssa.Const)
			if !isK || k.Value == nil {
				return false
			}
			if k.Value.String() != "true" {
				continue
			}
			some = true
			okR := false
			for _, cd2 := range ir.CondsAt(r.Block()) {
				if truePred(cd2, depth+1) {
					okR = true
				}
			}
			if !okR {
				all = false
			}
		}
		return all && some
	}
	for _, cb := range walkFns {
		c.P.ExtInstrs(cb, func(ins ssa.Instruction) {
			call, ok := ins.(*ssa.Call)
			if !ok {
				return
			}
			b, isB := call.Call.Value.(*ssa.Builtin)
			if !isB || b.Name() != "append" {
				return
			}
			for _, cd := range ir.CondsAt(call.Block()) {
				if truePred(cd, 0) {
					found = true
				}
			}
		})
	}
	c.Check(found, "RUN.retain", stop, "notifications are the retained members", each.Pos(), "members are retained exactly on the true edge of the notification predicate", "no append governed by the notification predicate in the queue walk: valid notifications received before the stop would be lost")
	// the loop over an entry's members that holds the retaining append visits every member: it is
	// never left once a member's notification test has been made, i.e. from inside one member's
	// handling (a break or return after a call would drop the notifications
	// that follow it in the same batch)
	for _, cb := range walkFns {
		c.P.ExtInstrs(cb, func(ins ssa.Instruction) {
			call, ok := ins.(*ssa.Call)
			if !ok {
				return
			}
			b, isB := call.Call.Value.(*ssa.Builtin)
			if !isB || b.Name() != "append" {
				return
			}
			var predBlocks []*ssa.BasicBlock
			for _, cd := range ir.CondsAt(call.Block()) {
				if truePred(cd, 0) {
					predBlocks = append(predBlocks, cd.V.(*ssa.Call).Block())
				}
			}
			if len(predBlocks) == 0 {
				return
			}
			fn := call.Parent()
			for _, hdr := range fn.Blocks {
				in := ir.LoopBlocks(hdr)
				if len(in) < 2 || !in[call.Block()] {
					continue
				}
				back := false // a genuine loop header has a back edge from inside its loop
				for _, p := range hdr.Preds {
					if in[p] {
						back = true
					}
				}
				if !back {
					continue
				}
				early := false
				for x := range in {
					for _, s := range x.Succs {
						if in[s] {
							continue
						}
						if len(s.Instrs) > 0 {
							if _, isPanic := s.Instrs[len(s.Instrs)-1].(*ssa.Panic); isPanic {
								continue
							}
						}
						// leaving the loop once this member's notification test has been made
						for _, pb := range predBlocks {
							if in[pb] && (pb == x || pb.Dominates(x)) {
								early = true
							}
						}
					}
				}
				c.Check(!early, "RUN.retain", stop, "the member walk visits every member", call.Pos(), "the loop that retains notifications is left only by its own per-iteration test", "the loop over a queued batch can be left from inside one member's handling (break/return): notifications that follow that member in the same batch would be dropped at stop")
			}
		})
	}
	// every re-queued entry holds members of one original entry only: it is a one-element list, or
	// a list accumulated inside a single invocation of the queue-walk callback. (Members of
	// different inbound messages put into one entry would be dispatched as one batch, i.e.
	// concurrently: a later notification could start before an earlier one has returned.)
	arg := add.Common().Args[len(add.Common().Args)-1]
	single := false
	var walk func(v ssa.Value, depth int) bool
	isCb := func(f *ssa.Function) bool {
		for _, cb := range cbs {
			if f == cb {
				return true
			}
		}
		return false
	}
	walk = func(v ssa.Value, depth int) bool {
		if depth > 6 {
			return false
		}
		v = ir.NormCell(v)
		switch x := v.(type) {
		case *ssa.Slice:
			// slice literal: a fresh array of constant length 1
			if al, ok := x.X.(*ssa.Alloc); ok {
				if at, ok := al.Type().(*types.Pointer).Elem().Underlying().(*types.Array); ok && at.Len() == 1 {
					return true
				}
			}
			return false
		case *ssa.Const:
			return x.IsNil()
		case *ssa.UnOp:
			// an element of a list of entries prepared beforehand: every entry put into that list
			if ia, ok := x.X.(*ssa.IndexAddr); ok && x.Op == token.MUL {
				elems, known := c.P.ElementValues(ia.X)
				if os.Getenv("JRPCVET_DEBUG") != "" {
					fmt.Fprintf(os.Stderr, "RUN.retain: elements of %v: %v known=%v\n", ia.X, elems, known)
				}
				if !known || len(elems) == 0 {
					return false
				}
				for _, e := range elems {
					if !walk(e, depth+1) {
						return false
					}
				}
				return true
			}
			return false
		case *ssa.Call:
			if b, ok := x.Call.Value.(*ssa.Builtin); ok && b.Name() == "append" {
				// accumulated inside one callback invocation only
				return isCb(x.Parent()) && walk(x.Call.Args[0], depth+1)
			}
			return false
		case *ssa.Phi:
			for _, e := range x.Edges {
				if !walk(e, depth+1) {
					return false
				}
			}
			return isCb(x.Parent())
		}
		return false
	}
	single = walk(arg, 0)
	c.Check(single, "RUN.retain", stop, "retained members are re-queued one original entry at a time", add.Pos(), "each re-queued entry is a one-element list (or is accumulated within one visit of the queue walk)", "a re-queued entry can hold notifications of different inbound messages: they would be dispatched as one batch (concurrently), so a later-arriving notification could start before an earlier one has completed")
}

// isNotificationPred: g is the jmessage predicate "request without id".
func isNotificationPred(c *chk.Ctx, g *ssa.Function) bool {
	if g.Signature.Recv() == nil || g.Signature.Results().Len() != 1 {
		return false
	}
	if n := ir.RecvNamed(g); n != c.M.Jmessage {
		return false
	}
	// it must test the ID field for absence: calls fixID / compares with nil and requires a method name
	usesID, usesM := false, false
	var visit func(f *ssa.Function, d int)
	visit = func(f *ssa.Function, d int) {
		ir.Instrs(f, func(ins ssa.Instruction) {
			if fa, ok := ins.(*ssa.FieldAddr); ok {
				switch ir.FieldVar(fa) {
				case c.M.JID:
					usesID = true
				case c.M.JM:
					usesM = true
				}
			}
			if call, ok := ins.(*ssa.Call); ok && d < 2 {
				if h := call.Call.StaticCallee(); h != nil && c.P.InRepo[h] {
					visit(h, d+1)
				}
			}
		})
	}
	visit(g, 0)
	return usesID && usesM
}

// ruleDispatcherExit: the dispatcher gives up only when stopped and the
// queue is empty.
func ruleDispatcherExit(c *chk.Ctx) {
	var pop ssa.CallInstruction
	for _, f := range pkgFuncs(c, c.M.Pkg) {
		ir.Calls(f, func(ci ssa.CallInstruction) {
			g := ci.Common().StaticCallee()
			if g != nil && (ir.BaseName(g) == "Pop" || ir.BaseName(g) == "PopLast") && len(ci.Common().Args) > 0 && chk.IsField(ci.Common().Args[0], c.M.SInq) {
				if pop != nil {
					c.Fail("WHO.pop", f, "second dequeue site", ci.Pos(), "the inbound queue is dequeued at more than one site")
				}
				pop = ci
			}
		})
	}
	if pop == nil {
		c.Undecided("WHO.pop", nil, "dequeue site", 0, "no dequeue site found")
		return
	}
	f := pop.Parent()
	// (a straight-line "pop" method of a queue type is the dequeue of its one caller)
	for i := 0; i < 2 && len(f.Blocks) == 1; i++ {
		site, sole := c.P.SoleCaller(f)
		if !sole {
			break
		}
		f = site.Caller
	}
	n := 0
	ir.Instrs(f, func(ins ssa.Instruction) {
		r, ok := ins.(*ssa.Return)
		if !ok || len(r.Results) == 0 {
			return
		}
		// a give-up return: no dispatcher (nil), or "nothing dequeued" reported by a trailing
		// ok flag when the dequeue lives in a helper
		giveUp := ir.IsNilConst(ir.ReturnResult(r, 0))
		if last := ir.ReturnResult(r, len(r.Results)-1); !giveUp && len(r.Results) >= 2 && last.Type().String() == "bool" {
			if k, isK := last.(*ssa.Const); isK && k.Value != nil && k.Value.String() == "false" {
				giveUp = true
			}
		}
		if !giveUp {
			return
		}
		n++
		lock := ownerLock(c, "server")
		isLock := func(i2 ssa.Instruction) bool {
			ci, ok := i2.(ssa.CallInstruction)
			if !ok {
				return false
			}
			if _, isDefer := i2.(*ssa.Defer); isDefer {
				return false
			}
			op, lp, ok := facts.IsMutexOp(ci.Common())
			return ok && op == "lock" && lp == lock
		}
		emptyAll, stoppedAll := true, true
		alts := expandPredicateHelpersKeep(c, ir.CondsAt(r.Block()), 0, func(cd ir.Cond) bool {
			call, ok := cd.V.(*ssa.Call)
			if !ok {
				return false
			}
			g := call.Call.StaticCallee()
			return g != nil && ir.BaseName(g) == "IsEmpty"
		})
		for _, alt := range alts {
			emptyKnown := false
			for _, cd := range ir.NormConds(alt) {
				if call, ok := cd.V.(*ssa.Call); ok && cd.Truth {
					if g := call.Call.StaticCallee(); g != nil && ir.BaseName(g) == "IsEmpty" && chk.IsField(call.Call.Args[0], c.M.SInq) {
						emptyKnown = true
					}
				}
			}
			// "stopped" must have been established under the lock on this path: a
			// `channel == nil` outcome whose test ran with the lock held, with no re-acquisition of
			// the lock between the test and the return (releasing it before returning is fine)
			stopped := false
			for _, cd := range alt {
				x, eq, ok := ir.NilCompare(cd.V)
				if !ok || !chk.LoadsField(x, c.M.SCh) || eq != cd.Truth || cd.If == nil {
					continue
				}
				st := c.F.At(cd.If)
				if !st.Has(facts.Held, lock) {
					continue
				}
				relock := false
				if cd.If.Parent() == f {
					// from the edge this outcome selects to the return, without coming round to the
					// test again (a later evaluation of the test establishes its outcome anew)
					if succ := succOfCond(cd); succ != nil {
						seenB := map[*ssa.BasicBlock]bool{cd.If.Block(): true}
						var walk func(bl *ssa.BasicBlock) bool
						walk = func(bl *ssa.BasicBlock) bool {
							if seenB[bl] {
								return false
							}
							seenB[bl] = true
							for _, i2 := range bl.Instrs {
								if i2 == ssa.Instruction(r) {
									return false
								}
								if isLock(i2) && blockReachesInstr(bl, r) {
									return true
								}
							}
							for _, sb := range bl.Succs {
								if walk(sb) {
									return true
								}
							}
							return false
						}
						relock = walk(succ)
					} else {
						relock = true
					}
				} else {
					// the test sits in a predicate helper: no re-acquisition from the outcome's edge
					// to the helper's exit, nor from the helper call to the return
					succ := succOfCond(cd)
					if succ == nil || len(succ.Instrs) == 0 {
						relock = true
					} else if isLock(succ.Instrs[0]) {
						relock = true
					} else if hit, _ := ir.Reaches(succ.Instrs[0], isLock, func(i2 ssa.Instruction) bool { _, isRet := i2.(*ssa.Return); return isRet }); hit {
						relock = true
					}
					for _, a := range anchorsIn(c, cd.If, f) {
						for _, i2 := range between(a, r) {
							if isLock(i2) {
								relock = true
							}
						}
					}
				}
				if !relock {
					stopped = true
				}
			}
			if !emptyKnown {
				emptyAll = false
			}
			if !stopped {
				stoppedAll = false
			}
		}
		ok2 := emptyAll && stoppedAll && len(alts) > 0
		c.Check(ok2, "RUN.drain", f, "dispatcher exit", r.Pos(), "the dispatcher returns without work only when stopped ∧ queue empty", fmt.Sprintf("the dispatcher can exit with stopped=%v, queue-empty-known=%v: queued notifications would never be dispatched and WaitStatus would find the queue non-empty", stoppedAll, emptyAll))
	})
	if n == 0 {
		c.Undecided("RUN.drain", f, "dispatcher exit", f.Pos(), "no give-up return found in the dispatcher")
	}
}

// succOfCond returns the successor of the If behind outcome cd that is taken
// when cd holds.
func succOfCond(cd ir.Cond) *ssa.BasicBlock {
	if cd.If == nil {
		return nil
	}
	b := cd.If.Block()
	for _, s := range b.Succs {
		own, ok := ir.EdgeOwnCond(b, s)
		if !ok {
			continue
		}
		for _, n := range ir.NormConds([]ir.Cond{own}) {
			if n.V == cd.V && n.Truth == cd.Truth {
				return s
			}
		}
	}
	return nil
}

// blockReachesInstr: some path from the start of block b leads to instruction r.
func blockReachesInstr(b *ssa.BasicBlock, r ssa.Instruction) bool {
	seen := map[*ssa.BasicBlock]bool{}
	var walk func(x *ssa.BasicBlock) bool
	walk = func(x *ssa.BasicBlock) bool {
		if x == r.Block() {
			return true
		}
		if seen[x] {
			return false
		}
		seen[x] = true
		for _, s := range x.Succs {
			if walk(s) {
				return true
			}
		}
		return false
	}
	return walk(b)
}
