package props

import "jrpcvet/internal/chk"

func init() {
	register(&Def{
		ID:          "C10",
		Technique:   "static lockset (must-hold, interprocedural) over Send/Close sites; typestate of the running field; single-reader call-graph rule; byte provenance of Send arguments",
		Explanation: "Decides, for every path and schedule at once: (D1) every Send and Close on a channel owned by a Server or Client executes with that owner's mutex held, so no two Sends and no Send/Close overlap; (D2) each owner has exactly one Recv site, reachable only from one go statement of its start function; (D3) Close is called in one function per owner, guarded by the running state and followed by clearing it before the lock is released, and started at most once per run; (D4) every byte slice passed to Send is the successful result of the message encoder (or guarded non-empty), and batch encodings are non-empty. (D5) the stop functions clear the channel field only after Close was called (no stop cause skips it). (D6) in the server and jhttp packages a channel handed to Start/NewClient is never closed by the wrapper on a path with the hand-off. (D7) every source of a Send argument is an encoder's result (or nil, refused by the emptiness guard): text assembled by formatting never reaches the channel.",
		NotDecided:  []string{"behaviour of user-supplied Channel implementations", "that encoder output is well-formed JSON for every value (C13; encoding/json assumed)"},
		Assumptions: []string{"sync.Mutex provides mutual exclusion", "no code outside the repository can reach the unexported locks or fields"},
		RuleText:    ruleText,
		Run: func(c *chk.Ctx, tier string) {
			c.Clause("C10-D1")
			ruleLockCommonSendClose(c)
			c.Clause("C10-D2")
			ruleOneReceiver(c)
			c.Clause("C10-D3")
			ruleStopOnce(c, "server")
			ruleStopOnce(c, "client")
			ruleStopAlwaysCloses(c, "server")
			ruleStopAlwaysCloses(c, "client")
			ruleStartOnce(c)
			ruleHandedOffChannelNotClosed(c)
			c.Clause("C10-D4")
			ruleSendWholeMessages(c)
			ruleEncoderWrites(c)
			if d := dispatchOrUndecided(c, "ROLE.dispatch"); d != nil {
				ruleInvokeResultsMarshalled(c, d)
			}
		},
	})
}
