package props

import (
	"fmt"
	"go/token"
	"go/types"
	"os"
	"sort"
	"strings"

	"golang.org/x/tools/go/ssa"

	"jrpcvet/internal/chk"
	"jrpcvet/internal/ir"
)

// Clauses added after the eighth round of seeded breakages.

// derivedFrom reports whether x is v seen through type assertions, interface
// conversions, tuple extractions or a phi of such.
func derivedFrom(x, v ssa.Value, depth int) bool {
	if x == v {
		return true
	}
	if depth > 6 {
		return false
	}
	switch y := x.(type) {
	case *ssa.TypeAssert:
		return derivedFrom(y.X, v, depth+1)
	case *ssa.Extract:
		return derivedFrom(y.Tuple, v, depth+1)
	case *ssa.ChangeInterface:
		return derivedFrom(y.X, v, depth+1)
	case *ssa.MakeInterface:
		return derivedFrom(y.X, v, depth+1)
	case *ssa.ChangeType:
		return derivedFrom(y.X, v, depth+1)
	case *ssa.Phi:
		for _, e := range y.Edges {
			if derivedFrom(e, v, depth+1) {
				return true
			}
		}
	}
	return false
}

// writesThrough lists the instructions of f (and its private helpers) that
// may modify what the pointer-like parameter v refers to: stores through v,
// and calls that are handed v.
func writesThrough(c *chk.Ctx, f *ssa.Function, v ssa.Value) []ssa.Instruction {
	var out []ssa.Instruction
	ir.Instrs(f, func(ins ssa.Instruction) {
		switch x := ins.(type) {
		case *ssa.Store:
			if derivedFrom(x.Addr, v, 0) {
				out = append(out, ins)
			}
		case ssa.CallInstruction:
			cc := x.Common()
			if _, isB := cc.Value.(*ssa.Builtin); isB {
				return
			}
			for _, a := range cc.Args {
				if derivedFrom(a, v, 0) {
					out = append(out, ins)
					return
				}
			}
			if cc.IsInvoke() && derivedFrom(cc.Value, v, 0) {
				out = append(out, ins)
			}
		}
	})
	return out
}

// ruleEmptyParamsUntouched (C15): UnmarshalParams modifies its target only
// when the request has parameters: with none, a handler's argument keeps its
// zero value (a nil raw message, a nil pointer), as encoding/json leaves a
// target alone when there is nothing to decode.
func ruleEmptyParamsUntouched(c *chk.Ctx) {
	f := c.M.Func(c.M.Pkg, "(*Request).UnmarshalParams")
	if f == nil || len(f.Params) != 2 {
		c.Undecided("PAIR.emptyparams", nil, "UnmarshalParams", 0, "Request.UnmarshalParams not found")
		return
	}
	ws := writesThrough(c, f, f.Params[1])
	if len(ws) == 0 {
		c.Undecided("PAIR.emptyparams", f, "target writes", f.Pos(), "no write through the target found")
		return
	}
	bad := ""
	hp := c.M.Func(c.M.Pkg, "(*Request).HasParams")
	for _, w := range ws {
		ok := false
		// (the test may be spelled with a predicate such as HasParams)
		alts := expandPredicateHelpers(c, c.P.CondsWithin(w, f), 0)
		okAll := len(alts) > 0
		for _, alt := range alts {
			has := false
			for _, cd := range alt {
				if s, isNE := ir.NonEmptyLen(cd); isNE && chk.LoadsField(ir.NormCell(s), c.M.QParams) {
					has = true
				}
				// HasParams is exactly len(params) != 0 (TABLE.params)
				if call, isCall := cd.V.(*ssa.Call); isCall && cd.Truth && hp != nil && call.Call.StaticCallee() == hp {
					has = true
				}
			}
			if !has {
				okAll = false
			}
		}
		ok = okAll
		if !ok && bad == "" {
			bad = c.P.Pos(w.Pos())
		}
	}
	c.Check(bad == "", "PAIR.emptyparams", f, "target untouched without parameters", f.Pos(), "every write through the target is on the len(params) != 0 edge", "the target can be written (at "+bad+") although the request has no parameters: a handler taking a raw message or a pointer would see an empty non-nil value instead of the zero value")
}

// ruleResultErrorFirst (C14): UnmarshalResult of a failed response reports
// the response's error, whatever the target's type: every other return is on
// the err == nil edge.
func ruleResultErrorFirst(c *chk.Ctx) {
	f := c.M.Func(c.M.Pkg, "(*Response).UnmarshalResult")
	if f == nil {
		c.Undecided("PROV.resulterr", nil, "UnmarshalResult", 0, "Response.UnmarshalResult not found")
		return
	}
	bad := ""
	n := 0
	for _, g := range c.P.Ext(f) {
		if g != f {
			continue
		}
		for _, r := range ir.Returns(g) {
			n++
			v := ir.ReturnResult(r, 0)
			if mi, ok := v.(*ssa.MakeInterface); ok && chk.LoadsField(ir.NormCell(mi.X), c.M.RErr) {
				continue
			}
			ok := false
			for _, cd := range ir.CondsAt(r.Block()) {
				if x, isEq, isCmp := ir.NilCompare(cd.V); isCmp && isEq == cd.Truth && chk.LoadsField(ir.NormCell(x), c.M.RErr) {
					ok = true
				}
			}
			if !ok && bad == "" {
				bad = c.P.Pos(r.Pos())
			}
		}
	}
	if n == 0 {
		c.Undecided("PROV.resulterr", f, "returns", f.Pos(), "no return found")
		return
	}
	c.Check(bad == "", "PROV.resulterr", f, "a failed response reports its error", f.Pos(), "every return other than the response's own error is on the err == nil edge", "UnmarshalResult can return (at "+bad+") without reporting the error of a failed response: the caller would take the handler's failure for a success with an empty result")
}

// ruleMixedFieldsRejected (C02, C18): the member parser records a validation
// failure exactly for a member that has a method together with a result or
// an error (M != "" ∧ (E != nil ∨ R != nil)): such a member is neither a
// request nor a reply.
func ruleMixedFieldsRejected(c *chk.Ctx) {
	if c.M.JErr == nil || c.M.JM == nil || c.M.JE == nil || c.M.JR == nil {
		c.Undecided("TABLE.mixed", nil, "message fields", 0, "jmessage fields not resolved")
		return
	}
	// functions that record a validation failure in their receiver
	failers := map[*ssa.Function]bool{}
	for _, f := range pkgFuncs(c, c.M.Pkg) {
		if f.Parent() != nil || len(f.Params) == 0 {
			continue
		}
		ir.Instrs(f, func(ins ssa.Instruction) {
			if st, ok := ins.(*ssa.Store); ok && chk.IsField(st.Addr, c.M.JErr) && !ir.IsNilConst(st.Val) {
				if fa, ok := st.Addr.(*ssa.FieldAddr); ok && fa.X == ssa.Value(f.Params[0]) && len(ir.Returns(f)) > 0 && f.Signature.Results().Len() == 0 {
					failers[f] = true
				}
			}
		})
	}
	for g := range failRecorders(c) {
		failers[g] = true
	}
	atomOf := func(cd ir.Cond) (name string, val bool, ok bool) {
		if x, y, op, isRel := ir.Rel(cd); isRel && (op == token.EQL || op == token.NEQ) {
			if k, isK := constString(y); isK && k == "" && chk.LoadsField(ir.NormCell(x), c.M.JM) {
				return "M", op == token.NEQ, true
			}
		}
		if x, eq, isCmp := ir.NilCompare(cd.V); isCmp {
			nonNil := eq != cd.Truth
			switch {
			case chk.LoadsField(ir.NormCell(x), c.M.JE):
				return "E", nonNil, true
			case chk.LoadsField(ir.NormCell(x), c.M.JR):
				return "R", nonNil, true
			}
		}
		if sv, isNE := ir.NonEmptyLen(cd); isNE && chk.LoadsField(ir.NormCell(sv), c.M.JR) {
			return "R", true, true
		}
		return "", false, false
	}
	found, wrong := 0, ""
	var where *ssa.Function
	for _, f := range pkgFuncs(c, c.M.Pkg) {
		ir.Instrs(f, func(ins ssa.Instruction) {
			site := false
			switch x := ins.(type) {
			case *ssa.Call:
				if g := x.Call.StaticCallee(); g != nil && failers[g] {
					site = true
				}
			case *ssa.Store:
				if chk.IsField(x.Addr, c.M.JErr) && !ir.IsNilConst(x.Val) && !failers[f] {
					site = true
				}
			}
			if !site {
				return
			}
			var alts [][]ir.Cond
			for _, a := range ir.CondAltsAt(ins.Block()) {
				alts = append(alts, expandPredicateHelpers(c, a, 0)...)
			}
			if len(alts) == 0 {
				return
			}
			// all outcomes must be about the method, error and result members, and the method must occur
			type lit struct {
				name string
				val  bool
			}
			var dnf [][]lit
			sawM := false
			// outcomes that still hold where the function returns after the site govern the whole
			// tail of the parse (the envelope decoded), not this test
			tail := map[ir.Cond]bool{}
			for _, r := range ir.Returns(f) {
				if r.Block() != ins.Block() && blockReachesFrom(ins.Block(), r.Block()) {
					for _, cd := range ir.CondsAt(r.Block()) {
						tail[cd] = true
					}
				}
			}
			for _, a := range alts {
				var conj []lit
				for _, cd := range a {
					n, v, ok := atomOf(cd)
					if !ok && tail[cd] {
						continue
					}
					// a range loop over the members has run to its end
					if e, isE := cd.V.(*ssa.Extract); !ok && isE && e.Index == 0 && !cd.Truth {
						if _, isNext := e.Tuple.(*ssa.Next); isNext {
							continue
						}
					}
					// the member decoded as a JSON object at all: every field test sits under it
					if x, eq, isCmp := ir.NilCompare(cd.V); !ok && isCmp && eq == cd.Truth {
						if call, isCall := ir.NormCell(x).(*ssa.Call); isCall && ir.IsCallTo(&call.Call, "encoding/json.Unmarshal") {
							if _, isParam := ir.NormCell(call.Call.Args[0]).(*ssa.Parameter); isParam {
								continue
							}
						}
					}
					if !ok {
						if os.Getenv("JRPCVET_DEBUG") != "" {
							fmt.Fprintf(os.Stderr, "TABLE.mixed: site %s: unmapped %v=%v\n", c.P.Pos(ins.Pos()), cd.V, cd.Truth)
						}
						return
					}
					if n == "M" {
						sawM = true
					}
					conj = append(conj, lit{n, v})
				}
				dnf = append(dnf, conj)
			}
			if !sawM {
				return
			}
			found++
			where = f
			for bits := 0; bits < 8; bits++ {
				as := map[string]bool{"M": bits&1 != 0, "E": bits&2 != 0, "R": bits&4 != 0}
				got := false
				for _, conj := range dnf {
					all := true
					for _, l := range conj {
						if as[l.name] != l.val {
							all = false
						}
					}
					if all {
						got = true
					}
				}
				want := as["M"] && (as["E"] || as["R"])
				if got != want && wrong == "" {
					wrong = c.P.Pos(ins.Pos())
				}
			}
		})
	}
	switch {
	case found == 0:
		c.Fail("TABLE.mixed", nil, "mixed request and reply members rejected", 0, "no validation failure is recorded under a condition on the method, error and result members: a member with a method and a result (or error) would be dispatched as a request")
	default:
		c.Check(wrong == "", "TABLE.mixed", where, "mixed request and reply members rejected", where.Pos(), "a failure is recorded exactly when M != \"\" ∧ (E != nil ∨ R != nil)", "the overlap test (at "+wrong+") does not hold exactly when a member has a method together with a result or an error (e.g. it can never hold): such a member would be dispatched as a request, or forwarded by the HTTP bridge, instead of being answered with InvalidRequest")
	}
}

// ruleStoppedReaderExits (C08, C05): once the reader finds its owner stopped
// (the owner's channel field is nil), it gives up: from that edge no path
// leads to another Recv. A reader that keeps receiving after the stop lives
// as long as the peer keeps the connection open, and with it the lifetime
// group the waiter waits for.
func ruleStoppedReaderExits(c *chk.Ctx, owner string) {
	reader, site := readerOf(c, owner)
	if reader == nil || site == nil {
		c.Undecided("RUN.readerstops", nil, owner+" reader", 0, "reader not resolved")
		return
	}
	anchors := map[ssa.Instruction]bool{}
	for _, a := range anchorsIn(c, site.instr, reader) {
		anchors[a] = true
	}
	contKnown, contVal := readerContinueValue(c, reader)
	n := 0
	bad := ""
	ir.Instrs(reader, func(ins ssa.Instruction) {
		iff, ok := ins.(*ssa.If)
		if !ok {
			return
		}
		x, eq, isCmp := ir.NilCompare(iff.Cond)
		if !isCmp || !chk.LoadsField(ir.NormCell(x), ownerCh(c, owner)) {
			return
		}
		// successor taken when the channel field is nil
		succ := iff.Block().Succs[0]
		if !eq {
			succ = iff.Block().Succs[1]
		}
		if len(succ.Instrs) == 0 {
			return
		}
		n++
		isGoal := func(i ssa.Instruction) bool {
			if anchors[i] {
				return true
			}
			if r, isRet := i.(*ssa.Return); isRet && contKnown && len(r.Results) == 1 {
				if k, isK := r.Results[0].(*ssa.Const); isK && k.Value != nil && (k.Value.String() == "true") == contVal {
					return true
				}
			}
			return false
		}
		again, at := reachesKnowingFlags(iff.Block(), succ, isGoal)
		if again && bad == "" {
			bad = c.P.Pos(at.Pos())
		}
	})
	if n == 0 {
		c.Pass("RUN.readerstops", reader, owner+" reader gives up once stopped", reader.Pos(), "the reader does not test the stopped state itself (its exits are judged by RUN.readerexit)")
		return
	}
	c.Check(bad == "", "RUN.readerstops", reader, owner+" reader gives up once stopped", reader.Pos(), "from the edge on which the "+owner+" is found stopped no path leads to another Recv", "after finding the "+owner+" stopped the reader goes on receiving (reaches "+bad+"): on a connection whose Close does not interrupt Recv it lives as long as the peer stays connected, so the waiter never returns and the reader is left behind")
}

// reachesKnowingFlags walks forward from block start (entered from block
// from) and reports whether an instruction satisfying goal can be reached. It
// is path-sensitive for boolean flags: a phi of constants takes the value of
// the edge it was entered by, and a branch on a flag whose value is known
// follows that outcome only (`exit = true ... if exit { return }`).
func reachesKnowingFlags(from, start *ssa.BasicBlock, goal func(ssa.Instruction) bool) (bool, ssa.Instruction) {
	return reachesKnowing(from, start, nil, goal, nil, nil)
}

// reachesKnowing is reachesKnowingFlags with more control: the walk starts
// after instruction after (when given) in the first block, does not continue
// past an instruction satisfying stop, and starts with the flag values init.
func reachesKnowing(from, start *ssa.BasicBlock, after ssa.Instruction, goal, stop func(ssa.Instruction) bool, init map[ssa.Value]bool) (bool, ssa.Instruction) {
	type state struct {
		b   *ssa.BasicBlock
		env string
	}
	seen := map[state]bool{}
	var hit ssa.Instruction
	var walk func(prev, b *ssa.BasicBlock, env map[ssa.Value]bool, depth int) bool
	key := func(env map[ssa.Value]bool) string {
		var ks []string
		for v, t := range env {
			ks = append(ks, v.Name()+"="+map[bool]string{true: "1", false: "0"}[t])
		}
		sort.Strings(ks)
		return strings.Join(ks, ",")
	}
	walk = func(prev, b *ssa.BasicBlock, env map[ssa.Value]bool, depth int) bool {
		if depth > 400 {
			return false
		}
		// phis of b take the value of the edge prev → b
		idx := -1
		for i, p := range b.Preds {
			if p == prev {
				idx = i
			}
		}
		env2 := map[ssa.Value]bool{}
		for k, v := range env {
			env2[k] = v
		}
		for _, ins := range b.Instrs {
			phi, ok := ins.(*ssa.Phi)
			if !ok {
				break
			}
			delete(env2, phi)
			if idx >= 0 && idx < len(phi.Edges) {
				e := phi.Edges[idx]
				if k, isK := e.(*ssa.Const); isK && k.Value != nil && (k.Value.String() == "true" || k.Value.String() == "false") {
					env2[phi] = k.Value.String() == "true"
				} else if t, known := env[e]; known {
					env2[phi] = t
				}
			}
		}
		st := state{b, key(env2)}
		if seen[st] {
			return false
		}
		seen[st] = true
		skipping := after != nil && b == start && depth == 0
		for _, ins := range b.Instrs {
			if skipping {
				if ins == after {
					skipping = false
				}
				continue
			}
			if stop != nil && stop(ins) {
				return false
			}
			if goal(ins) {
				hit = ins
				return true
			}
		}
		if len(b.Instrs) == 0 {
			return false
		}
		if iff, ok := b.Instrs[len(b.Instrs)-1].(*ssa.If); ok {
			cv := iff.Cond
			neg := false
			if u, isNot := cv.(*ssa.UnOp); isNot && u.Op == token.NOT {
				cv, neg = u.X, true
			}
			if t, known := env2[cv]; known {
				if t != neg {
					return walk(b, b.Succs[0], env2, depth+1)
				}
				return walk(b, b.Succs[1], env2, depth+1)
			}
		}
		for _, s := range b.Succs {
			if walk(b, s, env2, depth+1) {
				return true
			}
		}
		return false
	}
	env0 := map[ssa.Value]bool{}
	for k, v := range init {
		env0[k] = v
	}
	ok := walk(from, start, env0, 0)
	return ok, hit
}

// valueWay is one way a stored value comes about: the value chosen and the
// branch outcomes under which it is chosen.
type valueWay struct {
	val   ssa.Value
	conds []ir.Cond
}

// storedWays lists the ways the value of store st comes about: the value itself
// under the outcomes known at the store, or — when the value was chosen on
// earlier branches and is stored at a shared point (`x = a` on one arm, the
// zero value otherwise, `msg.f = x` afterwards) — each chosen value with the
// outcomes of its edge.
func storedWays(c *chk.Ctx, st *ssa.Store, root *ssa.Function) []valueWay {
	var out []valueWay
	var expand func(v ssa.Value, conds []ir.Cond, depth int)
	expand = func(v ssa.Value, conds []ir.Cond, depth int) {
		if phi, ok := v.(*ssa.Phi); ok && depth < 4 {
			for i, e := range phi.Edges {
				pred := phi.Block().Preds[i]
				cs := append(append([]ir.Cond{}, ir.CondsAt(pred)...), ir.EdgeConds(pred, phi.Block())...)
				expand(e, cs, depth+1)
			}
			return
		}
		out = append(out, valueWay{v, conds})
	}
	expand(st.Val, c.P.CondsWithin(st, root), 0)
	return out
}

// returnedWays lists the ways result i of return r comes about: the value under
// the outcomes known at the return, or — a result variable assigned on
// earlier branches and returned by a shared exit — each assigned value with
// the outcomes of its edge.
func returnedWays(r *ssa.Return, i int) []valueWay {
	var out []valueWay
	var expand func(v ssa.Value, conds []ir.Cond, depth int)
	expand = func(v ssa.Value, conds []ir.Cond, depth int) {
		if phi, ok := v.(*ssa.Phi); ok && depth < 4 {
			for k, e := range phi.Edges {
				expand(e, ir.EdgeConds(phi.Block().Preds[k], phi.Block()), depth+1)
			}
			return
		}
		out = append(out, valueWay{v, conds})
	}
	expand(ir.ReturnResult(r, i), ir.CondsAt(r.Block()), 0)
	return out
}

// ruleResponseMarshal (C19, C18, C13): Response.MarshalJSON — what the HTTP
// bridge writes for each reply — returns, on every path, the pair produced by
// the package's message encoder (or json.Marshal): nothing is formatted by
// hand, so the text is JSON whatever the error message or data contain.
func ruleResponseMarshal(c *chk.Ctx) {
	f := c.M.Func(c.M.Pkg, "(*Response).MarshalJSON")
	if f == nil {
		c.Undecided("PROV.encoder", nil, "Response.MarshalJSON", 0, "Response.MarshalJSON not found")
		return
	}
	encs := encoderFuncs(c)
	bad := ""
	n := 0
	for _, r := range ir.Returns(f) {
		n++
		ok := false
		if e, isE := ir.ReturnResult(r, 0).(*ssa.Extract); isE && e.Index == 0 && len(r.Results) == 2 {
			if call, isCall := e.Tuple.(*ssa.Call); isCall && ir.IsExtractOf(ir.ReturnResult(r, 1), call, 1) {
				if ir.IsCallTo(&call.Call, "encoding/json.Marshal") {
					ok = true
				}
				if g := call.Call.StaticCallee(); g != nil && (encs[g] || encs[ir.Resolve(g)]) {
					ok = true
				}
			}
		}
		if !ok && bad == "" {
			bad = c.P.Pos(r.Pos())
		}
	}
	// and what it encodes is the response as it settled: the error member of the message it
	// builds is the response's own error object (never a rebuilt one, which would have to copy
	// code, message and data), the result member the response's own result
	wrong := ""
	nMember := 0
	c.P.ExtInstrs(f, func(ins ssa.Instruction) {
		st, ok := ins.(*ssa.Store)
		if !ok {
			return
		}
		var want *types.Var
		switch {
		case chk.IsField(st.Addr, c.M.JE):
			want = c.M.RErr
		case chk.IsField(st.Addr, c.M.JR):
			want = c.M.RResult
		default:
			return
		}
		nMember++
		for _, w := range storedWays(c, st, f) {
			v := ir.NormCell(w.val)
			if ir.IsNilConst(v) {
				continue
			}
			if !chk.LoadsField(v, want) && wrong == "" {
				wrong = c.P.Pos(st.Pos())
			}
		}
	})
	if f != nil && c.M.RErr != nil && c.M.RResult != nil {
		c.Check(wrong == "" && nMember >= 2, "PROV.encoder", f, "Response encodes its own error and result", f.Pos(), "the message built for encoding takes its error and result members from the response's own fields, unchanged", fmt.Sprintf("Response.MarshalJSON puts something other than the response's own error / result into the message it encodes (at %s; %d member stores found): an error rebuilt on the way loses its data member (or code), so a reply relayed by the HTTP bridge is no longer the reply the server gave", wrong, nMember))
	}
	c.Check(bad == "" && n > 0, "PROV.encoder", f, "Response encodes through the message encoder", f.Pos(), "every return of Response.MarshalJSON is the message encoder's (or json.Marshal's) pair", "Response.MarshalJSON assembles its output by hand (return at "+bad+"): a string formatted with Go's own quoting is not JSON for every message (control characters are written as \\x.. escapes), so the HTTP bridge would answer 500 and the remote client shut down")
}

// ruleOneSemaphoreAtConstruction (C06): the number of handlers that may run at
// once is one number fixed when the server is built: exactly one semaphore is
// created, by the function that allocates the Server (or a helper of it), and
// the server keeps no pointer to the caller's options (a limit read later
// through such a pointer is whatever the caller has since written there). A
// second admission gate in front of the handlers would make the limit lower
// than the configured one for some requests.
func ruleOneSemaphoreAtConstruction(c *chk.Ctx) {
	cs := semConstructions(c)
	if len(cs) == 0 {
		c.Undecided("PAIR.sem", nil, "one semaphore, made at construction", 0, "no semaphore construction found")
		return
	}
	var ctor *ssa.Function
	for _, f := range pkgFuncs(c, c.M.Pkg) {
		if f.Parent() != nil || !ir.Exported(f) || f.Signature.Recv() != nil {
			continue
		}
		ir.Instrs(f, func(ins ssa.Instruction) {
			if al, ok := ins.(*ssa.Alloc); ok && al.Heap && types.Unalias(al.Type().(*types.Pointer).Elem()) == types.Type(c.M.Server) {
				ctor = f
			}
		})
	}
	where := ""
	for _, call := range cs {
		where += " " + c.P.Pos(call.Pos())
	}
	c.Check(len(cs) == 1, "PAIR.sem", cs[0].Parent(), "one semaphore", cs[0].Pos(), "exactly one semaphore is created in the core package", fmt.Sprintf("%d semaphores are created (%s): a second admission gate in front of the handlers lets fewer requests run than the configured limit although slots are free", len(cs), strings.TrimSpace(where)))
	if ctor == nil {
		c.Undecided("PAIR.sem", nil, "semaphore made at construction", 0, "the function that allocates the Server was not found")
	} else {
		for _, call := range cs {
			in := call.Parent() == ctor || c.P.InExt(ctor, ir.Root(call.Parent()))
			c.Check(in, "PAIR.sem", call.Parent(), "semaphore made at construction", call.Pos(), "the semaphore is created where the Server is built", "the semaphore is created in "+ir.Name(call.Parent())+", not where the Server is built: its size is then taken from whatever the options hold at that later time")
		}
	}
	// no pointer to the options is kept in the Server
	bad := ""
	for _, f := range pkgFuncs(c, c.M.Pkg) {
		ir.Instrs(f, func(ins ssa.Instruction) {
			st, ok := ins.(*ssa.Store)
			if !ok {
				return
			}
			fa, ok := st.Addr.(*ssa.FieldAddr)
			if !ok || ir.FieldOwner(fa) != c.M.Server {
				return
			}
			if pt, isPtr := st.Val.Type().(*types.Pointer); isPtr && strings.HasSuffix(pt.Elem().String(), ".ServerOptions") && bad == "" {
				bad = c.P.Pos(st.Pos())
			}
		})
	}
	c.Check(bad == "", "PAIR.sem", ctor, "options read at construction only", 0, "the Server keeps no pointer to the caller's options", "the Server keeps a pointer to the caller's options (stored at "+bad+"): a setting read through it after construction is whatever the caller has written there since")
}

// ruleNormaliserExact (C01, C02, C03, C07): the id normaliser treats exactly
// the null token as "no id": it returns nil on every path where the null
// predicate holds and on no other (an id such as the empty string "" is an id,
// and a call carrying it must be answered).
func ruleNormaliserExact(c *chk.Ctx) {
	n := 0
	for _, g := range pkgFuncs(c, c.M.Pkg) {
		if g.Parent() != nil || !isNullNormaliser(c, g) || !strings.HasSuffix(g.Signature.Results().At(0).Type().String(), "json.RawMessage") {
			continue
		}
		n++
		isNullCall := func(cd ir.Cond) (bool, bool) {
			// (the test written out in place: string(id) == "null")
			if x, y, op, isRel := ir.Rel(cd); isRel && (op == token.EQL || op == token.NEQ) {
				for _, pr := range [][2]ssa.Value{{x, y}, {y, x}} {
					if k, isK := constString(pr[1]); isK && k == "null" {
						if cv, isCv := pr[0].(*ssa.Convert); isCv {
							if _, isP := ir.NormCell(cv.X).(*ssa.Parameter); isP {
								return true, op == token.EQL // (Rel gives the relation that holds on this outcome)
							}
						}
					}
				}
			}
			call, ok := cd.V.(*ssa.Call)
			if !ok {
				return false, false
			}
			h := call.Call.StaticCallee()
			if h == nil || !c.P.InRepo[h] || h.Signature.Results().Len() != 1 || h.Signature.Results().At(0).Type().String() != "bool" || len(call.Call.Args) != 1 {
				return false, false
			}
			if _, isP := ir.NormCell(call.Call.Args[0]).(*ssa.Parameter); !isP {
				return false, false
			}
			// the null predicate: mentions the token null (its exactness is TABLE.null)
			mentions := false
			ir.Instrs(h, func(ins ssa.Instruction) {
				for _, op := range ins.Operands(nil) {
					if op != nil && *op != nil {
						if k, isK := constString(*op); isK && k == "null" {
							mentions = true
						}
						if k, isK := ir.ConstInt(*op); isK && k == 'n' {
							mentions = true
						}
					}
				}
			})
			return mentions, cd.Truth
		}
		bad := ""
		for _, r := range ir.Returns(g) {
			v := ir.ReturnResult(r, 0)
			wantNull := ir.IsNilConst(v)
			alts := ir.CondAltsAt(r.Block())
			if len(alts) == 0 {
				alts = [][]ir.Cond{ir.CondsAt(r.Block())}
			}
			for _, alt := range alts {
				okAlt := false
				for _, cd := range alt {
					if isN, truth := isNullCall(cd); isN && truth == wantNull {
						okAlt = true
					}
					// len(id) == 0 is "no id" as well (nothing was sent)
					if sv, isNE := ir.NonEmptyLen(cd); isNE && wantNull == false {
						_ = sv
					}
				}
				if !okAlt && bad == "" {
					bad = c.P.Pos(r.Pos())
				}
			}
		}
		c.Check(bad == "", "TABLE.null", g, "id normaliser drops exactly the null token", g.Pos(), "nil is returned exactly on the true edge of the null predicate, the id itself on its false edge", "the id normaliser can treat something other than the null token as \"no id\" (return at "+bad+" is reached without the null predicate deciding it): a call carrying such an id would be run as a notification and never answered")
	}
	if n == 0 {
		c.Undecided("TABLE.null", nil, "id normaliser", 0, "no id normaliser found")
	}
}

// ruleTaggedEmbeddedKeepsPosition (C15): when the positional names of a struct
// parameter are collected, an embedded field is skipped only after its json
// tag has been looked at: "anonymous fields are skipped unless they are
// tagged". A test of the Anonymous flag ahead of the tag lookup drops tagged
// embedded fields, and every later array element lands on the wrong field.
func ruleTaggedEmbeddedKeepsPosition(c *chk.Ctx) {
	n := 0
	for _, f := range pkgFuncs(c, c.M.HandlerPkg) {
		var lookups []*ssa.Call
		ir.Instrs(f, func(ins ssa.Instruction) {
			if call, ok := ins.(*ssa.Call); ok && ir.IsCallTo(&call.Call, "(reflect.StructTag).Lookup") && len(call.Call.Args) == 2 {
				if k, isK := constString(call.Call.Args[1]); isK && k == "json" {
					lookups = append(lookups, call)
				}
			}
		})
		if len(lookups) == 0 {
			continue
		}
		// a pointer parameter is looked through once: the function that lists a struct's field
		// names does not unwrap pointer types in a loop (encoding/json takes an array for a **T
		// no more than the positional mapping may)
		loopElem := ""
		ir.Instrs(f, func(ins ssa.Instruction) {
			if call, ok := ins.(*ssa.Call); ok && call.Call.IsInvoke() && call.Call.Method.Name() == "Elem" && strings.HasSuffix(call.Call.Value.Type().String(), "reflect.Type") && ir.InCycle(call.Block()) {
				// (inside the loop over the fields an embedded pointer may be looked through; the
				// parameter type itself is unwrapped before any field is read)
				beforeFields := true
				ir.Instrs(f, func(i2 ssa.Instruction) {
					if c2, ok := i2.(*ssa.Call); ok && c2.Call.IsInvoke() && c2.Call.Method.Name() == "NumField" && ir.InstrDominates(c2, call) {
						beforeFields = false
					}
				})
				if beforeFields {
					loopElem = c.P.Pos(call.Pos())
				}
			}
		})
		c.Check(loopElem == "", "TABLE.tag", f, "a pointer parameter is looked through once", f.Pos(), "the parameter type is unwrapped by at most one Elem() before its fields are listed", "the field-name function unwraps pointer types in a loop (at "+loopElem+"): a **T parameter would get positional names, so an array is mapped onto it although encoding/json rejects an array for that type")
		// the lookup of a field's tag does not depend on the field's Anonymous flag (the flag may be
		// read first, as a default that a tag overrides; it may not decide whether the tag is looked at)
		isAnon := func(v ssa.Value) bool {
			if u, isNot := v.(*ssa.UnOp); isNot && u.Op == token.NOT {
				v = u.X
			}
			var fv *types.Var
			switch x := v.(type) {
			case *ssa.UnOp:
				if fa, ok := x.X.(*ssa.FieldAddr); ok && x.Op == token.MUL {
					fv = ir.FieldVar(fa)
				}
			case *ssa.Field:
				if st, ok := x.X.Type().Underlying().(*types.Struct); ok && x.Field < st.NumFields() {
					fv = st.Field(x.Field)
				}
			}
			return fv != nil && fv.Name() == "Anonymous" && fv.Pkg() != nil && fv.Pkg().Path() == "reflect"
		}
		for _, lk := range lookups {
			n++
			bad := false
			alts := ir.CondAltsAt(lk.Block())
			if len(alts) == 0 {
				alts = [][]ir.Cond{ir.CondsAt(lk.Block())}
			}
			for _, alt := range alts {
				for _, cd := range alt {
					if isAnon(cd.V) {
						bad = true
					}
				}
			}
			c.Check(!bad, "TABLE.tag", f, "embedded field skipped only when untagged", lk.Pos(), "the json tag of a field is looked up whatever its Anonymous flag says", "whether a field's json tag is looked up depends on its Anonymous flag: a tagged embedded field would lose its position, so an array of the documented length is refused and a shorter one is decoded onto the wrong fields")
		}
	}
	if n == 0 {
		c.Undecided("TABLE.tag", nil, "embedded field skipped only when untagged", 0, "no test of reflect.StructField.Anonymous found next to a json tag lookup in the handler package")
	}
}

// ruleSettleCopiesBoth (C04, C05, C09): the waiter that takes a delivered
// message out of a Response's slot copies the message's error and result
// members into the Response unconditionally — which of the two the peer sent
// is not for the client to arbitrate ("completes with exactly the result or
// error object the peer sent").
func ruleSettleCopiesBoth(c *chk.Ctx) {
	n := 0
	for _, f := range pkgFuncs(c, c.M.Pkg) {
		if f.Parent() != nil {
			continue
		}
		var recv ssa.Value
		ir.Instrs(f, func(ins ssa.Instruction) {
			if tup, _, ok := slotRecvAt(c, ins); ok {
				recv = tup
			}
		})
		if recv == nil {
			continue
		}
		for _, fld := range []*types.Var{c.M.RErr, c.M.RResult} {
			found := false
			c.P.ExtInstrs(f, func(ins ssa.Instruction) {
				st, ok := ins.(*ssa.Store)
				if !ok || !chk.IsField(st.Addr, fld) {
					return
				}
				found = true
				n++
				extra := ""
				for _, cd := range c.P.CondsWithin(st, f) {
					if e, isE := cd.V.(*ssa.Extract); isE && e.Index == 1 && cd.Truth && (e.Tuple == recv || ir.IsExtractOfAny(e, recv)) {
						continue // the receive delivered a message
					}
					if x, _, isCmp := ir.NilCompare(cd.V); isCmp {
						if ir.IsExtractOfAny(ir.NormCell(x), recv) || ir.NormCell(x) == recv {
							continue // a message was received at all
						}
					}
					if extra == "" {
						extra = cd.V.String()
					}
				}
				c.Check(extra == "", "PROV.settle", st.Parent(), "settled "+fld.Name()+" copied unconditionally", st.Pos(), "the member is copied whenever a message was taken from the slot", "the "+fld.Name()+" member of a delivered reply is copied into the Response only under a further test ("+extra+"): for some well-formed replies (e.g. one carrying both members) the request would complete with something other than what the peer sent")
			})
			if !found {
				c.Fail("PROV.settle", f, "settled "+fld.Name()+" copied unconditionally", f.Pos(), "the function that takes a delivered reply out of the slot never stores its %s member into the Response", fld.Name())
			}
		}
	}
	if n == 0 {
		c.Undecided("PROV.settle", nil, "settled members copied unconditionally", 0, "no function receiving from a Response's slot found")
	}
}

// ruleNotifyIgnoresContext (C09): with push enabled and the connection open,
// every Notify transmits: Notify itself never consults its context.
func ruleNotifyIgnoresContext(c *chk.Ctx) {
	f := c.M.Func(c.M.Pkg, "(*Server).Notify")
	if f == nil || len(f.Params) < 2 {
		c.Undecided("WHO.push", nil, "Notify", 0, "Server.Notify not found")
		return
	}
	bad := ""
	ir.Calls(f, func(ci ssa.CallInstruction) {
		cc := ci.Common()
		if cc.IsInvoke() && (cc.Method.Name() == "Err" || cc.Method.Name() == "Done" || cc.Method.Name() == "Deadline") && strings.HasSuffix(cc.Value.Type().String(), "context.Context") && bad == "" {
			bad = c.P.Pos(ci.Pos())
		}
		if ir.IsCallTo(cc, "context.Cause") && bad == "" {
			bad = c.P.Pos(ci.Pos())
		}
	})
	c.Check(bad == "", "WHO.push", f, "Notify transmits whatever its context says", f.Pos(), "Notify does not consult its context", "Notify consults its context (at "+bad+"): a notification posted with a context that has already ended would not be transmitted, although push is enabled and the connection is open")
}

// blockReachesFrom: b can be reached from a along control-flow edges.
func blockReachesFrom(a, b *ssa.BasicBlock) bool {
	seen := map[*ssa.BasicBlock]bool{}
	var walk func(x *ssa.BasicBlock) bool
	walk = func(x *ssa.BasicBlock) bool {
		if x == b {
			return true
		}
		if seen[x] {
			return false
		}
		seen[x] = true
		for _, s := range x.Succs {
			if walk(s) {
				return true
			}
		}
		return false
	}
	return walk(a)
}

var _ = token.ADD
var _ = types.Typ
var _ = strings.Contains
