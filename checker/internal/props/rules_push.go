package props

import (
	"fmt"
	"go/token"
	"strings"

	"golang.org/x/tools/go/ssa"

	"jrpcvet/internal/chk"
	"jrpcvet/internal/ir"
)

// isMsgRequestPred: jmessage method "is a request or notification" (reads M, E, R).
func isMsgRequestPred(c *chk.Ctx, g *ssa.Function) bool {
	if g == nil || ir.RecvNamed(g) != c.M.Jmessage || g.Signature.Results().Len() != 1 || g.Signature.Results().At(0).Type().String() != "bool" {
		return false
	}
	m, e, r, id := false, false, false, false
	// the predicate itself and the message predicates it calls (which other predicates may
	// share: hasReplyFields used by the parser as well)
	seen := map[*ssa.Function]bool{}
	var visit func(h *ssa.Function, depth int)
	visit = func(h *ssa.Function, depth int) {
		if h == nil || seen[h] || depth > 2 {
			return
		}
		seen[h] = true
		ir.Instrs(h, func(ins ssa.Instruction) {
			if fa, ok := ins.(*ssa.FieldAddr); ok {
				switch ir.FieldVar(fa) {
				case c.M.JM:
					m = true
				case c.M.JE:
					e = true
				case c.M.JR:
					r = true
				case c.M.JID:
					id = true
				}
			}
			if call, ok := ins.(*ssa.Call); ok {
				if k := call.Call.StaticCallee(); k != nil && ir.RecvNamed(k) == c.M.Jmessage && k.Signature.Results().Len() == 1 && (k.Signature.Results().At(0).Type().String() == "bool" || !ir.Exported(k)) {
					visit(k, depth+1)
				}
			}
		})
	}
	visit(g, 0)
	if m && e && r && id {
		// (a shared classifier may look at the id for its other verdicts: what counts is that
		// this predicate's own verdict is decided by the three members alone)
		atomOf := msgFieldAtom(c)
		decided := true
		for bits := 0; bits < 8; bits++ {
			if _, ok := c.P.EvalBool(g, atomOf, map[string]bool{"M": bits&1 != 0, "E": bits&2 != 0, "R": bits&4 != 0}); !ok {
				decided = false
			}
		}
		return decided
	}
	return m && e && r && !id
}

func condIsMsgRequest(c *chk.Ctx, cd ir.Cond) (is bool, truth bool) {
	call, ok := cd.V.(*ssa.Call)
	if !ok {
		return false, false
	}
	return isMsgRequestPred(c, call.Call.StaticCallee()), cd.Truth
}

// condOnBoolField: cd tests the boolean field f (possibly negated).
func condOnBoolField(cd ir.Cond, f interface{ Name() string }, loads func(ssa.Value) bool) (is bool, truth bool) {
	v := cd.V
	t := cd.Truth
	if u, ok := v.(*ssa.UnOp); ok && u.Op == token.NOT {
		v = u.X
		t = !t
	}
	if loads(v) {
		return true, t
	}
	return false, false
}

// pushFunc: the function that increments the callback id counter.
func pushFunc(c *chk.Ctx) *ssa.Function {
	for _, st := range c.P.FieldStores(c.M.SCallID) {
		fa := st.Addr.(*ssa.FieldAddr)
		if !freshOwner(c, fa.X) {
			f := st.Parent()
			// the registration may live in a private helper: the push function is the outermost
			// private function that (solely) calls it
			for i := 0; i < 4; i++ {
				s, ok := c.P.SoleCaller(f)
				if !ok || ir.Exported(s.Caller) {
					break
				}
				f = s.Caller
			}
			return f
		}
	}
	return nil
}

// rulePushGate: C09-D1/D2. The push entry points are the exported Server
// methods in whose extended body a request message is built (a store into the
// method member of a message): each must test allowPush before building or
// sending anything, return a package-level error on the other edge, and have
// a not-running edge (channel == nil) that returns a package-level error.
func rulePushGate(c *chk.Ctx) {
	loadsAllow := func(v ssa.Value) bool { return chk.LoadsField(v, c.M.SAllowP) }
	type entry struct {
		f      *ssa.Function
		builds []ssa.Instruction
	}
	var entries []entry
	for _, f := range pkgFuncs(c, c.M.Pkg) {
		if f.Parent() != nil || !ir.Exported(f) || ir.RecvNamed(f) != c.M.Server {
			continue
		}
		var builds []ssa.Instruction
		c.P.ExtInstrs(f, func(ins ssa.Instruction) {
			if st, ok := ins.(*ssa.Store); ok && chk.IsField(st.Addr, c.M.JM) {
				builds = append(builds, st)
			}
		})
		if len(builds) > 0 {
			entries = append(entries, entry{f, builds})
		}
	}
	// a message-building helper shared by several entry points belongs to none of their extended
	// bodies: find it through the callers of the function that stores the method member
	if len(entries) < 2 {
		seen := map[*ssa.Function]bool{}
		for _, e := range entries {
			seen[e.f] = true
		}
		for _, f := range pkgFuncs(c, c.M.Pkg) {
			if ir.RecvNamed(ir.Root(f)) != c.M.Server {
				continue
			}
			ir.Instrs(f, func(ins ssa.Instruction) {
				st, ok := ins.(*ssa.Store)
				if !ok || !chk.IsField(st.Addr, c.M.JM) {
					return
				}
				for _, ent := range entriesAvoiding(c, f, nil) {
					for _, g := range pkgFuncs(c, c.M.Pkg) {
						if ir.Name(g) == ent && g.Parent() == nil && ir.Exported(g) && ir.RecvNamed(g) == c.M.Server && !seen[g] {
							seen[g] = true
							entries = append(entries, entry{g, []ssa.Instruction{st}})
						}
					}
				}
			})
		}
	}
	// an exported method that merely calls another entry point (a convenience wrapper around
	// Notify or Callback) is judged where that entry point is
	{
		isEntry := map[*ssa.Function]bool{}
		for _, e := range entries {
			isEntry[e.f] = true
		}
		var kept []entry
		for _, e := range entries {
			viaOther, own := false, false
			ir.Calls(e.f, func(ci ssa.CallInstruction) {
				if g := ci.Common().StaticCallee(); g != nil && g != e.f && isEntry[g] {
					viaOther = true
				}
			})
			for _, b := range e.builds {
				if b.Parent() == e.f {
					own = true
				}
			}
			if viaOther && !own {
				continue
			}
			kept = append(kept, e)
		}
		entries = kept
	}
	if len(entries) < 2 {
		c.Undecided("WHO.push", nil, "push callers", 0, "found %d push entry points (want 2: Notify, Callback)", len(entries))
	}
	for _, e := range entries {
		f := e.f
		// gate: everything that builds or transmits a request is reached only on the allowPush edge
		gated := true
		var at ssa.Instruction
		for _, b := range e.builds {
			ok := c.P.AllContexts(b, func(g *ssa.Function) bool { return g == f }, func(cs []ir.Cond) bool {
				for _, cd := range cs {
					if is, truth := condOnBoolField(cd, c.M.SAllowP, loadsAllow); is && truth {
						return true
					}
				}
				return false
			})
			if !ok {
				gated, at = false, b
			}
		}
		pos := f.Pos()
		if at != nil {
			pos = at.Pos()
		}
		c.Check(gated, "WHO.push", f, "push gated by AllowPush", pos, "a request is built and sent only on the allowPush edge", "a request can be pushed although push is not enabled")
		// the other edge returns a non-nil package-level error without transmitting
		okRet := false
		for _, r := range ir.Returns(f) {
			if len(r.Results) == 0 {
				continue
			}
			for _, w := range returnedWays(r, len(r.Results)-1) {
				for _, cd := range w.conds {
					if is, truth := condOnBoolField(cd, c.M.SAllowP, loadsAllow); is && !truth {
						if g := globalLoad(w.val); g != nil {
							okRet = true
						}
					}
				}
			}
		}
		c.Check(okRet, "WHO.push", f, "ErrPushUnsupported on the other edge", f.Pos(), "the not-enabled edge returns a package-level error", "the not-enabled edge does not return a package-level error")
		// D2: the not-running edge returns a package-level error before anything is sent
		okClosed := false
		for _, b := range e.builds {
			roots := []*ssa.Function{f, b.Parent()}
			for _, root := range roots {
				for _, g := range c.P.Ext(root) {
					for _, r := range ir.Returns(g) {
						if len(r.Results) == 0 {
							continue
						}
						for _, w := range returnedWays(r, len(r.Results)-1) {
							for _, cd := range w.conds {
								if x, eq, ok := ir.NilCompare(cd.V); ok && chk.LoadsField(x, c.M.SCh) && eq == cd.Truth {
									if gl := globalLoad(w.val); gl != nil {
										okClosed = true
									}
								}
							}
						}
					}
				}
			}
			// or in a caller chain between the entry point and the builder
			for _, a := range anchorsIn(c, b, f) {
				_ = a
			}
		}
		if !okClosed {
			// search every function on the way from the entry point to the builders
			for _, g := range pkgFuncs(c, c.M.Pkg) {
				if g.Parent() != nil || ir.RecvNamed(g) != c.M.Server || !reachesAny(c, f, g, 3) {
					continue
				}
				for _, r := range ir.Returns(g) {
					if len(r.Results) == 0 {
						continue
					}
					for _, w := range returnedWays(r, len(r.Results)-1) {
						for _, cd := range w.conds {
							if x, eq, ok := ir.NilCompare(cd.V); ok && chk.LoadsField(x, c.M.SCh) && eq == cd.Truth {
								if gl := globalLoad(w.val); gl != nil {
									okClosed = true
								}
							}
						}
					}
				}
			}
		}
		c.Check(okClosed, "WHO.push", f, "ErrConnClosed when not running", f.Pos(), "on the channel == nil edge the push path returns a package-level error", "the push path has no not-running edge returning a package-level error")
	}
}

// reachesAny: f calls g directly or through at most depth repository functions.
func reachesAny(c *chk.Ctx, f, g *ssa.Function, depth int) bool {
	if f == g {
		return true
	}
	return reachesCallee(c, f, g, depth)
}

// filterFunc: the function that intercepts replies (looks up the callback table and appends messages).
func filterFunc(c *chk.Ctx) *ssa.Function {
	// the function in whose extended body (itself plus its private helpers) the callback table is
	// consulted and a message list is built; of several nested candidates, the outermost
	var cands []*ssa.Function
	for _, f := range pkgFuncs(c, c.M.Pkg) {
		hasLookup, hasAppend := false, false
		c.P.ExtInstrs(f, func(ins ssa.Instruction) {
			if lk, ok := ins.(*ssa.Lookup); ok && chk.LoadsField(lk.X, c.M.SCall) {
				hasLookup = true
			}
			if call, ok := ins.(*ssa.Call); ok {
				if b, isB := call.Call.Value.(*ssa.Builtin); isB && b.Name() == "append" && isJmessagesType(c, call.Type()) {
					hasAppend = true
				}
				// (the look-up through a table type's method)
				if _, isW := wrapperCall(c, call, c.M.SCall, "lookup", "lookupok", "has"); isW {
					hasLookup = true
				}
				if _, isTake := takeHelper(c, call.Call.StaticCallee(), c.M.SCall, ownerLock(c, "server")); isTake {
					hasLookup = true
				}
			}
		})
		if hasLookup && hasAppend && f.Signature.Results().Len() == 1 && isJmessagesType(c, f.Signature.Results().At(0).Type()) {
			cands = append(cands, f)
		}
	}
	var out *ssa.Function
	for _, f := range cands {
		inner := false
		for _, g := range cands {
			if g != f && c.P.InExt(g, f) {
				inner = true
			}
		}
		if !inner {
			out = f
		}
	}
	return out
}

// ruleReplyFilter: C09-D5/D6, C02-D6.
func ruleReplyFilter(c *chk.Ctx) {
	ff := filterFunc(c)
	if ff == nil {
		c.Undecided("WHO.filter", nil, "reply filter", 0, "reply filter function not resolved")
		return
	}
	loadsAllow := func(v ssa.Value) bool { return chk.LoadsField(v, c.M.SAllowP) }
	n := 0
	c.P.ExtInstrs(ff, func(ins ssa.Instruction) {
		call, ok := ins.(*ssa.Call)
		if !ok {
			return
		}
		b, isB := call.Call.Value.(*ssa.Builtin)
		if !isB || b.Name() != "append" || !isJmessagesType(c, call.Type()) {
			return
		}
		n++
		var kinds []string
		allOK := true
		recognised := func(cd ir.Cond) bool {
			if is, _ := condIsMsgRequest(c, cd); is {
				return true
			}
			is, _ := condOnBoolField(cd, c.M.SAllowP, loadsAllow)
			return is
		}
		var alts [][]ir.Cond
		if call.Parent() == ff {
			for _, a := range ir.CondAltsAt(call.Block()) {
				alts = append(alts, expandPredicateHelpersKeep(c, a, 0, recognised)...)
			}
		} else {
			// the append sits in a helper: one alternative per chain of call sites up to the filter
			for _, ctx := range c.P.Contexts(call, func(f *ssa.Function) bool { return f == ff }) {
				alts = append(alts, expandPredicateHelpersKeep(c, ctx, 0, recognised)...)
			}
		}
		for _, alt := range alts {
			isReq, notPush := false, false
			for _, cd := range alt {
				if is, truth := condIsMsgRequest(c, cd); is {
					if truth {
						isReq = true
						kinds = append(kinds, "request")
					} else {
						kinds = append(kinds, "¬request")
					}
				}
				if is, truth := condOnBoolField(cd, c.M.SAllowP, loadsAllow); is {
					if !truth {
						notPush = true
						kinds = append(kinds, "¬allowPush")
					} else {
						kinds = append(kinds, "allowPush")
					}
				}
			}
			if !(isReq || notPush) {
				allOK = false
			}
			kinds = append(kinds, "|")
		}
		c.Check(allOK, "WHO.filter", ff, "member kept for dispatch", call.Pos(), "a member is kept for dispatch only if it is a request/notification, or push is disabled ["+strings.Join(kinds, "∧")+"]",
			"a reply-shaped member that matches no pending callback is kept for dispatch on a push-enabled server ["+strings.Join(kinds, "∧")+"]: it would be answered with an error bearing the callback's id, which collides with the client's own ids")
	})
	if n == 0 {
		c.Undecided("WHO.filter", ff, "member kept for dispatch", ff.Pos(), "no append found in the reply filter")
	}
	// request-shaped members never touch the callback table: every lookup of an inbound id in it
	// is reached only on the ¬isRequestOrNotification edge (client and server number their calls
	// independently, so a client call may carry the id of a pending callback)
	nlk := 0
	c.P.ExtInstrs(ff, func(lk ssa.Instruction) {
		isSite := false
		if l, ok := lk.(*ssa.Lookup); ok && chk.LoadsField(l.X, c.M.SCall) {
			isSite = true
		}
		// (or the call of a table type's look-up method)
		if call, ok := lk.(*ssa.Call); ok {
			if _, isW := wrapperCall(c, call, c.M.SCall, "lookup", "lookupok", "has"); isW {
				isSite = true
			}
			if _, isTake := takeHelper(c, call.Call.StaticCallee(), c.M.SCall, ownerLock(c, "server")); isTake {
				isSite = true
			}
		}
		if !isSite {
			return
		}
		nlk++
		routed := true
		var alts [][]ir.Cond
		for _, a := range ir.CondAltsAt(lk.Block()) {
			alts = append(alts, a)
		}
		if lk.Parent() != ff {
			// in a helper: the outcomes at the call sites inside the filter count as well
			alts = nil
			for _, ctx := range c.P.Contexts(lk, func(f *ssa.Function) bool { return f == ff }) {
				alts = append(alts, ctx)
			}
		}
		for _, alt := range alts {
			away := false
			for _, cd := range alt {
				if is, truth := condIsMsgRequest(c, cd); is && !truth {
					away = true
				}
			}
			if !away {
				routed = false
			}
		}
		c.Check(routed && len(alts) > 0, "WHO.filter", lk.Parent(), "requests routed away before callback matching", lk.Pos(), "the callback table is consulted only on the ¬isRequestOrNotification edge", "a client request could be matched against the callback table by its id: a call that happens to carry the id of a pending callback would be swallowed as that callback's reply and never answered")
	})
	if nlk == 0 {
		c.Undecided("WHO.filter", ff, "callback lookup", ff.Pos(), "no lookup of an inbound id in the callback table found")
	}
	// the filter returns only what it built, never its input
	for _, r := range ir.Returns(ff) {
		bad := false
		for _, src := range c.P.SourcesStop(ir.ReturnResult(r, 0), func(v ssa.Value) bool { _, isP := v.(*ssa.Parameter); return isP }) {
			if p, ok := src.(*ssa.Parameter); ok && p.Parent() == ff {
				bad = true
			}
		}
		c.Check(!bad, "WHO.filter", ff, "filter returns only kept members", r.Pos(), "the result is built from the appends only", "the filter can return its input unfiltered: replies in it would be queued and answered instead of intercepted")
	}
	// what the reader queues is exactly the filter's result, and the filter runs before the insert in the same critical section
	for _, f := range pkgFuncs(c, c.M.Pkg) {
		ir.Calls(f, func(ci ssa.CallInstruction) {
			cc := ci.Common()
			if cc.StaticCallee() == nil || ir.BaseName(cc.StaticCallee()) != "Add" || len(cc.Args) < 2 || !chk.IsField(cc.Args[0], c.M.SInq) {
				return
			}
			if st := stopFunc(c, "server"); st != nil && c.P.InExt(st, f) {
				return
			}
			okProv := true
			var srcs []string
			for _, src := range c.P.SourcesStop(cc.Args[1], func(v ssa.Value) bool {
				call, ok := v.(*ssa.Call)
				return ok && call.Call.StaticCallee() == ff
			}) {
				if call, ok := src.(*ssa.Call); ok && call.Call.StaticCallee() == ff {
					srcs = append(srcs, "filter result")
					continue
				}
				okProv = false
				srcs = append(srcs, fmt.Sprintf("%T", src))
			}
			c.Check(okProv && len(srcs) > 0, "WHO.filter", f, "only filtered batches are queued", ci.Pos(), "the queued batch is the reply filter's result", "the reader can queue a batch that did not pass the reply filter ("+strings.Join(srcs, ", ")+"): replies would be dispatched as requests, and a callback awaited by a notification handler would deadlock behind the barrier")
		})
	}
	c.Floor("WHO.filter", 3, "append(s), return, queue insert")
}

// ruleClientRouting: C04-D4: request-shaped members never touch the pending table.
func ruleClientRouting(c *chk.Ctx) {
	n := 0
	for _, lk := range tableLookups(c, c.M.CPending) {
		f := lk.fn
		// only lookups keyed by an inbound message's id (the watcher looks its own id up)
		inbound := keyMessage(c, c.P.Canon(lk.key)) != nil
		if !inbound {
			continue
		}
		n++
		routed := c.P.AllContexts(lk.at, nil, func(cs []ir.Cond) bool {
			for _, cd := range cs {
				if is, truth := condIsMsgRequest(c, cd); is && !truth {
					return true
				}
			}
			return false
		})
		c.Check(routed, "WHO.route", f, "requests routed away before matching", lk.at.Pos(), "the pending table is consulted only on the ¬isRequestOrNotification edge", "a server-initiated request could be matched against the pending table by its id")
	}
	if n == 0 {
		c.Undecided("WHO.route", nil, "pending lookup", 0, "no lookup of an inbound id in the pending table found")
	}
}
