package props

import (
	"fmt"
	"go/constant"
	"go/token"
	"go/types"
	"sort"
	"strings"

	"golang.org/x/tools/go/ssa"

	"jrpcvet/internal/chk"
	"jrpcvet/internal/ir"
)

func jhttpFunc(c *chk.Ctx, name string) *ssa.Function { return c.M.Func(c.M.JhttpPkg, name) }

// statusWrites lists calls that set an HTTP status with a constant: w.WriteHeader(k),
// http.Error(w, _, k), writeJSON(w, k, _).
type statusWrite struct {
	ci   ssa.CallInstruction
	code int64
	isC  bool
	arg  ssa.Value
}

func statusWrites(c *chk.Ctx, f *ssa.Function) []statusWrite {
	var out []statusWrite
	ir.Calls(f, func(ci ssa.CallInstruction) {
		cc := ci.Common()
		var v ssa.Value
		switch {
		case cc.IsInvoke() && cc.Method.Name() == "WriteHeader":
			v = cc.Args[0]
		case ir.IsCallTo(cc, "net/http.Error"):
			v = cc.Args[2]
		case cc.StaticCallee() != nil && isStatusWriterHelper(c, cc.StaticCallee()) && len(cc.Args) == 3:
			v = cc.Args[1]
		default:
			return
		}
		k, isC := ir.ConstInt(v)
		out = append(out, statusWrite{ci, k, isC, v})
	})
	return out
}

// describeHTTPCond renders a branch outcome canonically: the relation that
// holds (a false outcome is folded into the operator), constants on the right,
// the bridge's parse hook named by its role rather than by its field name.
func describeHTTPCond(cd ir.Cond) string {
	fieldName := func(v ssa.Value) string {
		_, fv, ok := ir.FieldRead(v)
		if !ok || fv == nil {
			// (the hook handed to a private helper that tests it: `func (p postParser) isDefault() bool`)
			if prm, isParam := ir.NormCell(v).(*ssa.Parameter); isParam && !ir.Exported(prm.Parent()) {
				if sig, isSig := prm.Type().Underlying().(*types.Signature); isSig && sig.Results().Len() >= 1 && strings.Contains(sig.Results().At(0).Type().String(), "ParsedRequest") {
					return "parseReq"
				}
			}
			return ""
		}
		if sig, isSig := fv.Type().Underlying().(*types.Signature); isSig && sig.Results().Len() >= 1 && strings.Contains(sig.Results().At(0).Type().String(), "ParsedRequest") {
			return "parseReq" // the POST parse hook, whatever the field is called
		}
		return fv.Name()
	}
	if x, y, op, ok := ir.Rel(cd); ok {
		if _, isS := constString(x); isS {
			flip := map[token.Token]token.Token{token.LSS: token.GTR, token.GTR: token.LSS, token.LEQ: token.GEQ, token.GEQ: token.LEQ, token.EQL: token.EQL, token.NEQ: token.NEQ}
			x, y, op = y, x, flip[op]
		}
		if s, isS := constString(y); isS {
			lhs := "?"
			if n := fieldName(x); n != "" {
				lhs = n
			}
			// (a field of a record a private helper fills from a library call's result:
			// `ct := requestContentType(req); ct.media == …` is ParseMediaType's first result)
			if hc, ri, fk, isRes := fieldOriginThroughParam(ir.NormCell(x)); isRes {
				if h := hc.Call.StaticCallee(); h != nil && len(h.Blocks) > 0 && !ir.Exported(h) {
					if fvs, known := ir.ResultFieldVals(h, ri, fk); known {
						name := ""
						for _, fv := range fvs {
							if fv.Zero {
								continue
							}
							e, isE := fv.Val.(*ssa.Extract)
							if !isE {
								name = "?"
								break
							}
							call, isCall := e.Tuple.(*ssa.Call)
							if !isCall || call.Call.StaticCallee() == nil {
								name = "?"
								break
							}
							n := ir.BaseName(call.Call.StaticCallee()) + fmt.Sprintf("#%d", e.Index)
							if name != "" && name != n {
								name = "?"
								break
							}
							name = n
						}
						if name != "" && name != "?" {
							lhs = name
						}
					}
				}
			}
			if e, ok := x.(*ssa.Extract); ok {
				if call, ok := e.Tuple.(*ssa.Call); ok {
					lhs = ir.BaseName(call.Call.StaticCallee()) + fmt.Sprintf("#%d", e.Index)
				}
				if lk, ok := e.Tuple.(*ssa.Lookup); ok {
					if ks, isK := constString(lk.Index); isK {
						lhs = "[" + ks + "]"
					}
				}
			}
			if lk, ok := x.(*ssa.Lookup); ok {
				if ks, isK := constString(lk.Index); isK {
					lhs = "[" + ks + "]"
				}
			}
			return lhs + op.String() + fmt.Sprintf("%q", s)
		}
		if _, isLen := ir.LenOf(x); isLen {
			if k, isC := ir.ConstInt(y); isC {
				return "len" + op.String() + fmt.Sprint(k)
			}
		}
		if ir.IsNilConst(y) || ir.IsNilConst(x) {
			v := x
			if ir.IsNilConst(x) {
				v = y
			}
			name := "?"
			if n := fieldName(v); n != "" {
				name = n
			}
			if _, ok := v.(*ssa.Extract); ok {
				name = "err"
			}
			if _, ok := v.(*ssa.Call); ok && v.Type().String() == "error" {
				name = "err"
			}
			if _, ok := v.(*ssa.Phi); ok && v.Type().String() == "error" {
				name = "err" // an error variable assigned on several branches
			}
			return name + op.String() + "nil"
		}
	}
	neg := ""
	if !cd.Truth {
		neg = "¬"
	}
	if e, ok := cd.V.(*ssa.Extract); ok {
		if lk, ok := e.Tuple.(*ssa.Lookup); ok {
			if ks, isK := constString(lk.Index); isK {
				return neg + "has[" + ks + "]"
			}
		}
	}
	// membership of a looked-up value in a package-level list of string constants:
	// slices.Contains(list, m[k]) — rendered with the list's elements
	if call, ok := cd.V.(*ssa.Call); ok && ir.IsCallTo(&call.Call, "slices.Contains") && len(call.Call.Args) == 2 {
		if g := globalLoad(call.Call.Args[0]); g != nil {
			if elems, okE := globalStringList(g); okE {
				lhs := "?"
				x := call.Call.Args[1]
				if e, isE := x.(*ssa.Extract); isE {
					if lk, isLk := e.Tuple.(*ssa.Lookup); isLk {
						if ks, isK := constString(lk.Index); isK {
							lhs = "[" + ks + "]"
						}
					}
				}
				if lk, isLk := x.(*ssa.Lookup); isLk {
					if ks, isK := constString(lk.Index); isK {
						lhs = "[" + ks + "]"
					}
				}
				sort.Strings(elems)
				return neg + lhs + "∈{" + strings.Join(elems, ",") + "}"
			}
		}
	}
	return neg + "other"
}

// globalStringList returns the elements of a package-level []string variable
// that is initialised with a literal of string constants and never assigned
// elsewhere in its package.
func globalStringList(g *ssa.Global) ([]string, bool) {
	if g.Pkg == nil {
		return nil, false
	}
	var elems []string
	stores := 0
	ok := true
	for _, m := range g.Pkg.Members {
		f, isF := m.(*ssa.Function)
		if !isF {
			continue
		}
		fs := append([]*ssa.Function{f}, f.AnonFuncs...)
		for _, fn := range fs {
			ir.Instrs(fn, func(ins ssa.Instruction) {
				st, isSt := ins.(*ssa.Store)
				if !isSt || st.Addr != ssa.Value(g) {
					return
				}
				stores++
				sl, isSl := st.Val.(*ssa.Slice)
				if !isSl {
					ok = false
					return
				}
				al, isAl := sl.X.(*ssa.Alloc)
				if !isAl {
					ok = false
					return
				}
				for _, r := range *al.Referrers() {
					ia, isIA := r.(*ssa.IndexAddr)
					if !isIA {
						continue
					}
					for _, r2 := range *ia.Referrers() {
						if st2, isSt2 := r2.(*ssa.Store); isSt2 {
							if s, isS := constString(st2.Val); isS {
								elems = append(elems, s)
							} else {
								ok = false
							}
						}
					}
				}
			})
		}
	}
	return elems, ok && stores == 1 && len(elems) > 0
}

func condStrings(conds []ir.Cond) []string {
	var ks []string
	for _, cd := range conds {
		ks = append(ks, describeHTTPCond(cd))
	}
	sort.Strings(ks)
	return ks
}

// expandPredicateHelpers rewrites a conjunction of outcomes into alternatives in
// which every outcome of a call to a private boolean helper is replaced by the
// conditions under which the helper returns that value.
func expandPredicateHelpers(c *chk.Ctx, conds []ir.Cond, depth int) [][]ir.Cond {
	return expandPredicateHelpersKeep(c, conds, depth, nil)
}

// expandPredicateHelpersKeep is expandPredicateHelpers with a set of outcomes
// (keep) that are recognised as they stand and must not be looked into.
func expandPredicateHelpersKeep(c *chk.Ctx, conds []ir.Cond, depth int, keep func(ir.Cond) bool) [][]ir.Cond {
	alts := [][]ir.Cond{{}}
	for _, cd := range conds {
		var repl [][]ir.Cond
		if keep != nil && keep(cd) {
			repl = [][]ir.Cond{{cd}}
		}
		if _, isPhi := cd.V.(*ssa.Phi); isPhi && depth < 3 && repl == nil {
			// a short-circuit && / || whose outcome leaves several paths open
			if pa := ir.CondAlternatives(cd, 0); len(pa) > 1 || (len(pa) == 1 && !(len(pa[0]) == 1 && pa[0][0].V == cd.V)) {
				for _, a := range pa {
					repl = append(repl, expandPredicateHelpersKeep(c, a, depth+1, keep)...)
				}
			}
		}
		// a comparison of a variable that holds one of several string constants (a message or
		// mode chosen on earlier branches) with a constant: the outcome is that of the branches
		// which chose a constant satisfying the comparison
		if x, y, op, isRel := ir.Rel(cd); isRel && repl == nil && depth < 3 && (op == token.EQL || op == token.NEQ) {
			phi, isPhi := x.(*ssa.Phi)
			want, isK := constString(y)
			if !isPhi {
				phi, isPhi = y.(*ssa.Phi)
				want, isK = constString(x)
			}
			if isPhi && isK {
				allConst := true
				var picked [][]ir.Cond
				for i, e := range phi.Edges {
					s, isS := constString(e)
					if !isS {
						allConst = false
						break
					}
					if (s == want) == (op == token.EQL) {
						pred := phi.Block().Preds[i]
						// (every way into the choosing block: it may be the body of an `a || b` test)
						own, hasOwn := ir.EdgeOwnCond(pred, phi.Block())
						for _, alt := range ir.CondAltsAt(pred) {
							cs := append([]ir.Cond{}, alt...)
							if hasOwn {
								cs = append(cs, ir.NormConds([]ir.Cond{own})...)
							}
							picked = append(picked, expandPredicateHelpersKeep(c, cs, depth+1, keep)...)
						}
					}
				}
				if allConst && len(picked) > 0 {
					repl = picked
				}
			}
		}
		// a string result of a private helper compared with a constant (`info, problem :=
		// check(fn); problem != ""`): the helper's returns whose constant satisfies the test
		if x, y, op, isRel := ir.Rel(cd); isRel && repl == nil && depth < 3 && (op == token.EQL || op == token.NEQ) {
			e, isE := x.(*ssa.Extract)
			want, isK := constString(y)
			if !isE {
				e, isE = y.(*ssa.Extract)
				want, isK = constString(x)
			}
			if isE && isK {
				if call, isCall := e.Tuple.(*ssa.Call); isCall {
					if h := call.Call.StaticCallee(); h != nil && c.P.InRepo[h] && !ir.Exported(h) && e.Index < h.Signature.Results().Len() {
						allConst := true
						var picked [][]ir.Cond
						for _, r := range ir.Returns(h) {
							s, isS := constString(ir.ReturnResult(r, e.Index))
							if !isS {
								allConst = false
								break
							}
							if (s == want) == (op == token.EQL) {
								for _, alt := range ir.CondAltsAt(r.Block()) {
									picked = append(picked, expandPredicateHelpersKeep(c, alt, depth+1, keep)...)
								}
							}
						}
						if allConst && len(picked) > 0 {
							repl = picked
						}
					}
				}
			}
		}
		// the verdict of a private classifier compared with a constant (`j.kind() != replyMessage`):
		// the classifier's returns whose constant satisfies the test
		if x, y, op, isRel := ir.Rel(cd); isRel && repl == nil && depth < 3 && (op == token.EQL || op == token.NEQ) {
			call, isCall := x.(*ssa.Call)
			want, isK := constKey(y)
			if !isCall {
				call, isCall = y.(*ssa.Call)
				want, isK = constKey(x)
			}
			if isCall && isK {
				if h := call.Call.StaticCallee(); h != nil && c.P.InRepo[h] && !ir.Exported(h) && h.Signature.Results().Len() == 1 {
					allConst := true
					var picked [][]ir.Cond
					for _, r := range ir.Returns(h) {
						s, isS := constKey(ir.ReturnResult(r, 0))
						if !isS {
							allConst = false
							break
						}
						if (s == want) == (op == token.EQL) {
							for _, alt := range ir.CondAltsAt(r.Block()) {
								picked = append(picked, expandPredicateHelpersKeep(c, alt, depth+1, keep)...)
							}
						}
					}
					if allConst && len(picked) > 0 {
						repl = picked
					}
				}
			}
		}
		// the ok flag of a private helper with several results: v, ok := h(...)
		if e, isE := cd.V.(*ssa.Extract); isE && depth < 3 && repl == nil {
			if call, isCall := e.Tuple.(*ssa.Call); isCall {
				if h := call.Call.StaticCallee(); h != nil && c.P.InRepo[h] && !ir.Exported(h) && e.Index < h.Signature.Results().Len() && h.Signature.Results().At(e.Index).Type().String() == "bool" {
					constRet := true
					var alts [][]ir.Cond
					for _, r := range ir.Returns(h) {
						rv := ir.ReturnResult(r, e.Index)
						k, isK := rv.(*ssa.Const)
						if !isK || k.Value == nil {
							// a computed flag: its outcome is that of the returned expression, on
							// top of the outcomes known at the return
							if _, isParam := rv.(*ssa.Parameter); isParam {
								constRet = false
								break
							}
							for _, alt := range ir.CondAlternatives(ir.Cond{V: rv, Truth: cd.Truth}, 0) {
								base := ir.CondsAt(r.Block())
								for _, ex := range expandPredicateHelpersKeep(c, append(append([]ir.Cond{}, base...), alt...), depth+1, keep) {
									alts = append(alts, dedupConds(ex))
								}
							}
							continue
						}
						if (k.Value.String() == "true") == cd.Truth {
							alts = append(alts, expandPredicateHelpersKeep(c, ir.CondsAt(r.Block()), depth+1, keep)...)
						}
					}
					if constRet && len(alts) > 0 {
						repl = alts
					}
				}
			}
		}
		if call, ok := cd.V.(*ssa.Call); ok && depth < 3 && repl == nil {
			if h := call.Call.StaticCallee(); h != nil && c.P.InRepo[h] && !ir.Exported(h) && h.Signature.Results().Len() == 1 && h.Signature.Results().At(0).Type().String() == "bool" {
				constRet := true
				for _, r := range ir.Returns(h) {
					v := ir.ReturnResult(r, 0)
					k, isK := v.(*ssa.Const)
					if !isK || k.Value == nil {
						// a computed result: the outcome is that of the returned expression, on
						// top of the outcomes known at the return
						if _, isParam := v.(*ssa.Parameter); isParam {
							constRet = false
							break
						}
						for _, alt := range ir.CondAlternatives(ir.Cond{V: v, Truth: cd.Truth}, 0) {
							base := ir.CondsAt(r.Block())
							for _, e := range expandPredicateHelpersKeep(c, append(append([]ir.Cond{}, base...), alt...), depth+1, keep) {
								repl = append(repl, dedupConds(e))
							}
						}
						continue
					}
					if (k.Value.String() == "true") == cd.Truth {
						if len(r.Block().Preds) > 1 {
							for _, p := range r.Block().Preds {
								repl = append(repl, expandPredicateHelpersKeep(c, ir.EdgeConds(p, r.Block()), depth+1, keep)...)
							}
						} else {
							repl = append(repl, expandPredicateHelpersKeep(c, ir.CondsAt(r.Block()), depth+1, keep)...)
						}
					}
				}
				if !constRet {
					repl = nil
				}
			}
		}
		// h(...) == nil / != nil for a private helper with a pointer (or interface) result: the
		// paths of h that return the nil constant, resp. a freshly allocated value
		if x, eq, ok := ir.NilCompare(cd.V); ok && repl == nil && depth < 3 {
			resIdx := 0
			call, isCall := x.(*ssa.Call)
			if e, isE := x.(*ssa.Extract); isE {
				// one result of a helper with several (value, err := h(...))
				call, isCall = e.Tuple.(*ssa.Call)
				resIdx = e.Index
			}
			if isCall && ir.GetterLoad(call) != ssa.Value(call) {
				isCall = false // a pure getter: the test is the nil test of the field it returns
			}
			if isCall {
				if h := call.Call.StaticCallee(); h != nil && c.P.InRepo[h] && !ir.Exported(h) && resIdx < h.Signature.Results().Len() && (h.Signature.Results().Len() == 1 || x != ssa.Value(call)) {
					wantNil := eq == cd.Truth
					known := true
					for _, r := range ir.Returns(h) {
						v := ir.ReturnResult(r, resIdx)
						var vals []ssa.Value
						var conds [][]ir.Cond
						if phi, isPhi := v.(*ssa.Phi); isPhi && phi.Block() == r.Block() {
							for i, e := range phi.Edges {
								vals = append(vals, e)
								conds = append(conds, ir.EdgeConds(phi.Block().Preds[i], phi.Block()))
							}
						} else if as := ir.CondAltsAt(r.Block()); len(as) > 1 {
							// a return shared by several tests (`if a || b { return … }`)
							for _, a := range as {
								vals = append(vals, v)
								conds = append(conds, a)
							}
						} else {
							vals = append(vals, v)
							conds = append(conds, ir.CondsAt(r.Block()))
						}
						for i, e := range vals {
							_, isAlloc := e.(*ssa.Alloc)
							if !isAlloc {
								isAlloc = nonNilValue(e)
							}
							// a return of the nil constant can only explain a nil result, a fresh
							// allocation only a non-nil one; any other returned value may be either,
							// so its path is a possible explanation both ways (sound as a disjunction)
							switch {
							case ir.IsNilConst(e):
								if wantNil {
									repl = append(repl, expandPredicateHelpersKeep(c, conds[i], depth+1, keep)...)
								}
							case isAlloc:
								if !wantNil {
									repl = append(repl, expandPredicateHelpersKeep(c, conds[i], depth+1, keep)...)
								}
							default:
								// (a value tested on the way to the return is known: `if err != nil { return nil, err }`)
								decided := false
								for _, kc := range conds[i] {
									if kx, keq, isNC := ir.NilCompare(kc.V); isNC && kx == e {
										decided = true
										if (keq == kc.Truth) == wantNil {
											repl = append(repl, expandPredicateHelpersKeep(c, conds[i], depth+1, keep)...)
										}
										break
									}
								}
								if decided {
									break
								}
								if _, isParam := e.(*ssa.Parameter); isParam {
									known = false
								} else {
									repl = append(repl, expandPredicateHelpersKeep(c, conds[i], depth+1, keep)...)
								}
							}
						}
					}
					if !known {
						repl = nil
					}
				}
			}
		}
		if repl == nil {
			repl = [][]ir.Cond{{cd}}
		}
		var next [][]ir.Cond
		for _, a := range alts {
			for _, r := range repl {
				next = append(next, append(append([]ir.Cond{}, a...), r...))
			}
		}
		alts = next
	}
	return alts
}

// nonNilValue: values that are never nil by construction or contract: an
// interface made from a concrete value, errors.New / fmt.Errorf results, and
// loads of package-level sentinel variables.
func nonNilValue(v ssa.Value) bool {
	switch x := v.(type) {
	case *ssa.MakeInterface:
		return true
	case *ssa.Call:
		return ir.IsCallTo(&x.Call, "errors.New", "fmt.Errorf")
	case *ssa.UnOp:
		if x.Op == token.MUL {
			_, isGlobal := x.X.(*ssa.Global)
			return isGlobal
		}
	}
	return false
}

func dedupConds(cs []ir.Cond) []ir.Cond {
	var out []ir.Cond
	for _, c := range cs {
		dup := false
		for _, o := range out {
			if o.V == c.V && o.Truth == c.Truth {
				dup = true
			}
		}
		if !dup {
			out = append(out, c)
		}
	}
	return out
}

// bridgeServeFunc is the Bridge's internal serve function: the function
// ServeHTTP calls that issues the requests with Client.Batch.
func bridgeServeFunc(c *chk.Ctx) *ssa.Function {
	entry := jhttpFunc(c, "(Bridge).ServeHTTP")
	if entry == nil {
		return nil
	}
	if f := jhttpFunc(c, "(Bridge).serveInternal"); f != nil {
		return f
	}
	// by role: the function ServeHTTP calls, under which the requests are issued with Client.Batch
	var out *ssa.Function
	n := 0
	ir.Calls(entry, func(ci ssa.CallInstruction) {
		g := ci.Common().StaticCallee()
		if g == nil || !c.P.InRepo[g] || g == out {
			return
		}
		has := false
		c.P.ExtCalls(g, func(ci2 ssa.CallInstruction) {
			if callee := ci2.Common().StaticCallee(); callee != nil && ir.BaseName(callee) == "Batch" && ir.RecvNamed(callee) == c.M.Client {
				has = true
			}
		})
		if has {
			out = g
			n++
		}
	})
	if n == 1 {
		return out
	}
	return nil
}

// ruleBridgeGate: C18-D1.
func ruleBridgeGate(c *chk.Ctx) {
	f := jhttpFunc(c, "(Bridge).ServeHTTP")
	si := bridgeServeFunc(c)
	if f == nil || si == nil {
		c.Undecided("TABLE.gate", nil, "bridge entry", 0, "Bridge.ServeHTTP / serveInternal not found")
		return
	}
	var call ssa.CallInstruction
	ir.Calls(f, func(ci ssa.CallInstruction) {
		if ci.Common().StaticCallee() == si {
			call = ci
		}
	})
	if call == nil {
		c.Fail("TABLE.gate", f, "serve call", f.Pos(), "ServeHTTP does not call the internal serve function")
		return
	}
	var edges []string
	preds := call.Block().Preds
	if len(preds) == 0 {
		preds = []*ssa.BasicBlock{nil}
	}
	for _, p := range preds {
		var base []ir.Cond
		if p == nil {
			base = ir.CondsAt(call.Block())
		} else {
			base = ir.EdgeConds(p, call.Block())
		}
		for _, alt := range expandPredicateHelpers(c, base, 0) {
			edges = append(edges, strings.Join(condStrings(alt), "∧"))
		}
	}
	sort.Strings(edges)
	got := strings.Join(edges, " | ")
	// accepted: hook present; or no hook ∧ POST ∧ application/json ∧ (no charset | charset ∈ {utf-8, utf8})
	okHook, okCharsetAbsent, okUTF := false, false, 0
	allOK := true
	for _, e := range edges {
		parts := strings.Split(e, "∧")
		set := map[string]bool{}
		for _, p := range parts {
			set[p] = true
		}
		switch {
		case set["parseReq!=nil"] && !set["parseReq==nil"]:
			okHook = true
		case set["parseReq==nil"] && set[`Method=="POST"`] && set[`ParseMediaType#0=="application/json"`] && set["¬has[charset]"]:
			okCharsetAbsent = true
		case set["parseReq==nil"] && set[`Method=="POST"`] && set[`ParseMediaType#0=="application/json"`] && set["has[charset]"]:
			if set[`[charset]=="utf-8"`] || set[`[charset]=="utf8"`] {
				okUTF++
			} else if set["[charset]∈{utf-8,utf8}"] {
				okUTF += 2
			} else {
				allOK = false
			}
		default:
			allOK = false
		}
	}
	c.Check(allOK && okHook && okCharsetAbsent && okUTF >= 2, "TABLE.gate", f, "requests reach the bridge only through the gate", call.Pos(),
		"the internal serve function is reached exactly when a parse hook is set, or method == POST ∧ media type == application/json ∧ charset ∈ {absent, utf-8, utf8}",
		"the internal serve function is reached on edges ["+got+"]: a non-POST or non-JSON request could run handlers, or a legal one be refused")
	// the failing edges write 405 / 415
	codes := map[int64][]string{}
	for _, g := range c.P.Ext(f) {
		for _, sw := range statusWrites(c, g) {
			if !sw.isC {
				continue
			}
			for _, ctx := range c.P.Contexts(sw.ci, func(h *ssa.Function) bool { return h == f }) {
				// (one write may serve several failures whose message was chosen earlier)
				keepNil := func(cd ir.Cond) bool { _, _, isNil := ir.NilCompare(cd.V); return isNil }
				for _, alt := range expandPredicateHelpersKeep(c, ctx, 0, keepNil) {
					codes[sw.code] = append(codes[sw.code], strings.Join(condStrings(alt), "∧"))
				}
			}
		}
	}
	has := func(code int64, needle string) bool {
		for _, k := range codes[code] {
			if strings.Contains(k, needle) {
				return true
			}
		}
		return false
	}
	c.Check(has(405, `Method!="POST"`), "TABLE.gate", f, "405 for non-POST", f.Pos(), "405 is written on the method != POST edge", "no 405 on the method != POST edge")
	c.Check(has(415, `ParseMediaType#0!="application/json"`) && has(415, "has[charset]"), "TABLE.gate", f, "415 for non-JSON / non-UTF-8", f.Pos(), "415 is written on the media-type and charset failure edges", "415 is not written on both the media-type and the charset failure edge")
	c.Check(len(codes[500]) >= 1 && strings.Contains(codes[500][0], "err!=nil"), "TABLE.gate", f, "error status for a failed serve", f.Pos(), "500 exactly when the internal serve function reports an error (e.g. invalid JSON body)", "the error of the internal serve function is not turned into an error status")
}

// ruleBridgeIDs: C18-D2/D3/D4.
func ruleBridgeIDs(c *chk.Ctx) {
	f := bridgeServeFunc(c)
	if f == nil {
		c.Undecided("PAIR.ids", nil, "serveInternal", 0, "not found")
		return
	}
	// appends by element type
	var specApp, idApp, errApp, rspApp *ssa.Call
	c.P.ExtInstrs(f, func(ins ssa.Instruction) {
		call, ok := ins.(*ssa.Call)
		if !ok {
			return
		}
		b, isB := call.Call.Value.(*ssa.Builtin)
		if !isB || b.Name() != "append" {
			return
		}
		switch t := call.Type().Underlying().(*types.Slice).Elem(); {
		case strings.HasSuffix(t.String(), "jrpc2.Spec"):
			specApp = call
		case t.String() == "string":
			idApp = call
		case strings.HasSuffix(t.String(), "json.RawMessage"):
			// responses are appended after the Batch call, error objects before it
			after := false
			c.P.ExtCalls(f, func(ci ssa.CallInstruction) {
				if g := ci.Common().StaticCallee(); g != nil && ir.BaseName(g) == "Batch" && (ir.InstrDominates(ci, call) || (ci.Parent() != call.Parent() && c.P.IDominates(ci, call))) {
					after = true
				}
			})
			if after {
				rspApp = call
			} else {
				errApp = call
			}
		}
	})
	if specApp == nil || idApp == nil || errApp == nil || rspApp == nil {
		c.Undecided("PAIR.ids", f, "appends", f.Pos(), "spec/id/error/response appends not all found (%v %v %v %v)", specApp != nil, idApp != nil, errApp != nil, rspApp != nil)
		return
	}
	// the member of this iteration
	member := func(v ssa.Value) ssa.Value {
		if u, ok := v.(*ssa.UnOp); ok {
			if fa, ok := u.X.(*ssa.FieldAddr); ok {
				return ir.NormCell(fa.X)
			}
		}
		return nil
	}
	// D3: spec append governed by Error == nil of the member; error append by Error != nil
	specConds := condStrings(c.P.CondsWithin(specApp, f))
	errConds := condStrings(c.P.CondsWithin(errApp, f))
	has := func(ks []string, k string) bool {
		for _, x := range ks {
			if x == k {
				return true
			}
		}
		return false
	}
	c.Check(has(specConds, "Error==nil"), "PAIR.ids", f, "only valid members are sent on", specApp.Pos(), "a spec is appended only on the member.Error == nil edge", "a statically invalid member can be forwarded to the server ("+strings.Join(specConds, "∧")+")")
	c.Check(has(errConds, "Error!=nil"), "PAIR.ids", f, "invalid members answered with their own error", errApp.Pos(), "the member's own error object is appended on the member.Error != nil edge", "error objects are appended on an edge other than member.Error != nil")
	// D2: the id append predicate is the negation of the Notify predicate, on the same member, same iteration
	var notify *ssa.BinOp
	notifyNegated := false
	c.P.ExtInstrs(f, func(ins ssa.Instruction) {
		st, ok := ins.(*ssa.Store)
		if !ok {
			return
		}
		if fa, ok := st.Addr.(*ssa.FieldAddr); ok && ir.FieldVar(fa).Name() == "Notify" {
			notify, _ = st.Val.(*ssa.BinOp)
			// Notify: !isCall with isCall := id != ""
			if u, isU := st.Val.(*ssa.UnOp); isU && u.Op == token.NOT {
				if bo, isBO := ir.NormCell(u.X).(*ssa.BinOp); isBO && (bo.Op == token.EQL || bo.Op == token.NEQ) {
					notify, notifyNegated = bo, true
				}
			}
		}
	})
	notifyOp := token.ILLEGAL
	if notify != nil {
		notifyOp = notify.Op
		if notifyNegated {
			notifyOp = map[token.Token]token.Token{token.EQL: token.NEQ, token.NEQ: token.EQL}[notify.Op]
		}
	}
	okLock := false
	why := "Notify is not computed by a comparison"
	if notify != nil {
		why = "no matching id-append predicate"
		nm := member(notify.X)
		ns, _ := constString(notify.Y)
		for _, cd := range c.P.CondsWithin(idApp, f) {
			bo, ok := cd.V.(*ssa.BinOp)
			if !ok {
				continue
			}
			s, isS := constString(bo.Y)
			if !isS || s != ns || member(bo.X) != nm || nm == nil {
				continue
			}
			// notify: ID == ""   ;  id append: ID != "" true (or ID == "" false)
			negated := (notifyOp == token.EQL && ((bo.Op == token.NEQ && cd.Truth) || (bo.Op == token.EQL && !cd.Truth))) ||
				(notifyOp == token.NEQ && ((bo.Op == token.EQL && cd.Truth) || (bo.Op == token.NEQ && !cd.Truth)))
			sameField := false
			if u1, ok := notify.X.(*ssa.UnOp); ok {
				if u2, ok := bo.X.(*ssa.UnOp); ok {
					sameField = ir.FieldVar(u1.X.(*ssa.FieldAddr)) == ir.FieldVar(u2.X.(*ssa.FieldAddr))
				}
			}
			if negated && sameField && ir.InstrDominates(specApp, idApp) {
				okLock = true
			}
		}
		// no other conditions between the spec append and the id append
		extra := len(c.P.CondsWithin(idApp, f)) - len(c.P.CondsWithin(specApp, f))
		if extra != 1 {
			okLock = false
			why = fmt.Sprintf("the id append is governed by %d conditions beyond those of the spec append (want exactly the ¬Notify test)", extra)
		}
	}
	c.Check(okLock, "PAIR.ids", f, "caller ids kept in lock step with calls", idApp.Pos(), "the caller's id is recorded exactly when the spec appended in the same iteration is not a notification (¬Notify on the same member field)",
		"the caller's ids are not recorded in lock step with the non-notification specs ("+why+"): responses would be relabelled with another member's id, or indexing would run out of range")
	// SetID(inboundID[i]) with i the index of the response
	okSet := false
	c.P.ExtCalls(f, func(ci ssa.CallInstruction) {
		g := ci.Common().StaticCallee()
		if g == nil || ir.BaseName(g) != "SetID" {
			return
		}
		arg := c.P.Canon(ci.Common().Args[1])
		rsp := c.P.Canon(ci.Common().Args[0])
		u1, ok1 := arg.(*ssa.UnOp)
		u2, ok2 := rsp.(*ssa.UnOp)
		if !ok1 || !ok2 {
			return
		}
		ia1, ok1 := u1.X.(*ssa.IndexAddr)
		ia2, ok2 := u2.X.(*ssa.IndexAddr)
		if ok1 && ok2 && c.P.Canon(ia1.Index) == c.P.Canon(ia2.Index) {
			// ia1.X is the id list (phi of idApp), ia2.X the Batch result
			idList := false
			for _, src := range c.P.SourcesStop(ia1.X, func(v ssa.Value) bool { return v == ssa.Value(idApp) }) {
				if src == ssa.Value(idApp) {
					idList = true
				}
			}
			if idList {
				okSet = true
			}
		}
	})
	c.Check(okSet, "PAIR.ids", f, "response i gets caller id i", f.Pos(), "SetID(inboundID[i]) is applied to response i of the batch", "responses are not relabelled index-for-index with the recorded caller ids")
	// D4: status/shape
	// (the 204 may be written by the serve function itself or — when it hands the results
	// back — by the exported handler that calls it)
	root204 := f
	has204 := false
	for _, sw := range statusWritesExt(c, f) {
		if sw.isC && sw.code == 204 {
			has204 = true
		}
	}
	if !has204 {
		if sh := jhttpFunc(c, "(Bridge).ServeHTTP"); sh != nil {
			root204 = sh
		}
	}
	for _, sw := range statusWritesExt(c, root204) {
		if !sw.isC || sw.code != 204 {
			continue
		}
		ks := condStrings(c.P.CondsWithin(sw.ci, root204))
		// governed by len(results)==0 where results is the final list
		okLen := true
		alts204 := expandPredicateHelpers(c, c.P.CondsWithin(sw.ci, root204), 0)
		if len(alts204) == 0 {
			okLen = false
		}
		for _, gate := range alts204 {
			okAlt := false
			for _, cd := range gate {
				if x0, y0, op0, isRel := ir.Rel(cd); isRel && op0 == token.EQL {
					bo := struct{ X, Y ssa.Value }{x0, y0}
					if x, isLen := ir.LenOf(bo.X); isLen {
						if k, isK := ir.ConstInt(bo.Y); isK && k == 0 {
							// x must include both the error objects and the responses
							hasErr, hasRsp := false, false
							seenV := map[ssa.Value]bool{}
							var reach func(v ssa.Value, depth int)
							reach = func(v ssa.Value, depth int) {
								if depth > 8 || seenV[v] {
									return
								}
								seenV[v] = true
								for _, src := range c.P.SourcesStop(v, func(y ssa.Value) bool {
									if y == ssa.Value(errApp) || y == ssa.Value(rspApp) {
										return true
									}
									call, ok := y.(*ssa.Call)
									if !ok {
										return false
									}
									b, isB := call.Call.Value.(*ssa.Builtin)
									return isB && b.Name() == "append"
								}) {
									if src == ssa.Value(errApp) {
										hasErr = true
									}
									if src == ssa.Value(rspApp) {
										hasRsp = true
									}
									if call, ok := src.(*ssa.Call); ok {
										if b, isB := call.Call.Value.(*ssa.Builtin); isB && b.Name() == "append" {
											for _, a := range call.Call.Args {
												reach(a, depth+1)
											}
										}
									}
								}
							}
							reach(x, 0)
							if hasErr && hasRsp {
								okAlt = true
							}
						}
					}
				}
			}
			if !okAlt {
				okLen = false
			}
		}
		c.Check(okLen, "PAIR.ids", f, "204 exactly when nothing to report", sw.ci.Pos(), "204 is written exactly under len(results) == 0, results holding both error objects and responses", "204 is written under ["+strings.Join(ks, "∧")+"], which is not 'no result of either kind': error objects of invalid members could be dropped")
	}
	// shape: a bare object exactly for one response. The 200 write sits in whatever function of the
	// bridge encodes the results; either the write itself is on the len == 1 edge, or the body it
	// writes is chosen on that edge
	okShape := false
	var shapeFn *ssa.Function
	serve := jhttpFunc(c, "(Bridge).ServeHTTP")
	var scope []*ssa.Function
	scope = append(scope, c.P.Ext(f)...)
	if serve != nil {
		scope = append(scope, c.P.Ext(serve)...)
	}
	for _, g := range scope {
		for _, sw := range statusWrites(c, g) {
			if !sw.isC || sw.code != 200 {
				continue
			}
			shapeFn = g
			for _, cd := range ir.CondsAt(sw.ci.Block()) {
				if describeHTTPCond(cd) == "len==1" {
					okShape = true
				}
			}
			// or the body argument is selected on the len == 1 edge
			for _, a := range sw.ci.Common().Args {
				// (or by a private helper that returns the body: one of its returns is on that edge)
				bv := ir.NormCell(a)
				if mi, isMI := bv.(*ssa.MakeInterface); isMI {
					bv = mi.X
				}
				if hc, isCall := bv.(*ssa.Call); isCall {
					if h := hc.Call.StaticCallee(); h != nil && c.P.InRepo[h] && !ir.Exported(h) && len(ir.Returns(h)) >= 2 {
						for _, r := range ir.Returns(h) {
							for _, cd := range ir.CondsAt(r.Block()) {
								if describeHTTPCond(cd) == "len==1" {
									okShape = true
								}
							}
						}
					}
				}
				phi, ok := ir.NormCell(a).(*ssa.Phi)
				if !ok {
					continue
				}
				for i := range phi.Edges {
					for _, cd := range ir.EdgeConds(phi.Block().Preds[i], phi.Block()) {
						if describeHTTPCond(cd) == "len==1" {
							okShape = true
						}
					}
				}
			}
		}
	}
	if shapeFn == nil {
		shapeFn = f
	}
	c.Check(okShape, "PAIR.ids", shapeFn, "bare object exactly for one response", shapeFn.Pos(), "a single response is written as a bare object on the len == 1 edge, an array otherwise, both with 200", "the single-object form is not chosen exactly on len == 1")
	c.Floor("PAIR.ids", 6, "valid-only, own error, lock step, SetID, 204, shape")
}

// ---------------------------------------------------------------------------
// C19

func ruleGetterStatus(c *chk.Ctx) {
	f := jhttpFunc(c, "(Getter).ServeHTTP")
	if f == nil {
		c.Undecided("TABLE.getter", nil, "Getter.ServeHTTP", 0, "not found")
		return
	}
	mnf, _ := pkgConstInt(c.M.Pkg, "MethodNotFound")
	// name a condition: parse error / call error / code == MethodNotFound
	origin := func(x ssa.Value) string {
		for _, src := range c.P.SourcesStop(ir.NormCell(x), func(v ssa.Value) bool {
			switch v.(type) {
			case *ssa.Call, *ssa.Extract:
				return true
			}
			return false
		}) {
			switch y := src.(type) {
			case *ssa.Call:
				if g := y.Call.StaticCallee(); g != nil && (ir.BaseName(g) == "CallResult" || ir.BaseName(g) == "Call") {
					return "call"
				}
				return "parse"
			case *ssa.Extract:
				return "parse"
			}
		}
		return "?"
	}
	describe := func(cd ir.Cond) string {
		neg := ""
		if !cd.Truth {
			neg = "¬"
		}
		if x, eq, ok := ir.NilCompare(cd.V); ok && x.Type().String() == "error" {
			o := origin(x)
			if eq {
				if neg == "" {
					return "¬" + o + "Err"
				}
				return o + "Err"
			}
			return neg + o + "Err"
		}
		if bo, ok := cd.V.(*ssa.BinOp); ok && (bo.Op == token.EQL || bo.Op == token.NEQ) {
			if k, isK := ir.ConstInt(bo.Y); isK && k == mnf {
				// (the code may reach a private status helper as a parameter)
				if call, ok := c.P.Canon(bo.X).(*ssa.Call); ok && call.Call.StaticCallee() != nil && ir.BaseName(call.Call.StaticCallee()) == "ErrorCode" {
					if (bo.Op == token.EQL) == cd.Truth {
						return "mnf"
					}
					return "¬mnf"
				}
			}
		}
		return neg + "other"
	}
	got := map[int64]map[string]bool{}
	add := func(code int64, conds []ir.Cond) {
		if got[code] == nil {
			got[code] = map[string]bool{}
		}
		for _, cd := range conds {
			got[code][describe(cd)] = true
		}
	}
	for _, g := range c.P.Ext(f) {
		for _, sw := range statusWrites(c, g) {
			if phi, ok := sw.arg.(*ssa.Phi); ok {
				// a status chosen on earlier branches and written at one shared point: one way
				// per choice, with everything known on its edge
				var expand func(p *ssa.Phi, depth int)
				expand = func(p *ssa.Phi, depth int) {
					for i, e := range p.Edges {
						pred := p.Block().Preds[i]
						if inner, isPhi := e.(*ssa.Phi); isPhi && depth < 4 {
							expand(inner, depth+1)
							continue
						}
						if k, isC := ir.ConstInt(e); isC {
							conds := append(append([]ir.Cond{}, ir.CondsAt(pred)...), ir.EdgeConds(pred, p.Block())...)
							add(k, conds)
						}
					}
				}
				expand(phi, 0)
				continue
			}
			if sw.isC {
				for _, ctx := range c.P.Contexts(sw.ci, func(h *ssa.Function) bool { return h == f }) {
					add(sw.code, ctx)
				}
			}
			// the status computed by a private helper: each constant it returns, under the
			// helper's own outcomes plus those at the write
			if hc, ok := ir.NormCell(sw.arg).(*ssa.Call); ok {
				if h := hc.Call.StaticCallee(); h != nil && c.P.InRepo[h] && !ir.Exported(h) {
					for _, r := range ir.Returns(h) {
						v := ir.ReturnResult(r, 0)
						if phi, isPhi := v.(*ssa.Phi); isPhi {
							for i, e := range phi.Edges {
								if k, isC := ir.ConstInt(e); isC {
									for _, ctx := range c.P.Contexts(sw.ci, func(g2 *ssa.Function) bool { return g2 == f }) {
										add(k, append(append([]ir.Cond{}, ctx...), ir.EdgeConds(phi.Block().Preds[i], phi.Block())...))
									}
								}
							}
							continue
						}
						if k, isC := ir.ConstInt(v); isC {
							for _, ctx := range c.P.Contexts(sw.ci, func(g2 *ssa.Function) bool { return g2 == f }) {
								add(k, append(append([]ir.Cond{}, ctx...), ir.CondsAt(r.Block())...))
							}
						}
					}
				}
			}
		}
	}
	want := map[int64]func(m map[string]bool) bool{
		400: func(m map[string]bool) bool { return m["parseErr"] && !m["mnf"] && !m["¬mnf"] },
		404: func(m map[string]bool) bool { return m["mnf"] && !m["¬mnf"] && !m["parseErr"] },
		500: func(m map[string]bool) bool { return m["¬mnf"] && !m["mnf"] && !m["parseErr"] },
		200: func(m map[string]bool) bool { return m["¬callErr"] && !m["callErr"] && !m["parseErr"] },
	}
	for _, code := range []int64{200, 400, 404, 500} {
		m, ok := got[code]
		var ks []string
		for k := range m {
			ks = append(ks, k)
		}
		sort.Strings(ks)
		desc := strings.Join(ks, "∧")
		c.Check(ok && want[code](m), "TABLE.getter", f, fmt.Sprintf("status %d", code), f.Pos(), fmt.Sprintf("%d is written under [%s]", code, desc), fmt.Sprintf("status %d is written under [%s] (found=%v), not as documented (400 parse error, 404 method-not-found, 500 other failure, 200 success)", code, desc, ok))
	}
	c.Check(len(got) == 4, "TABLE.getter", f, "no other status", f.Pos(), "exactly four statuses", fmt.Sprintf("%d distinct statuses written", len(got)))
	// writeJSON's body is a json.Marshal result on its success edge
	var wj *ssa.Function
	for _, g := range pkgFuncs(c, c.M.JhttpPkg) {
		if isStatusWriterHelper(c, g) {
			wj = g
		}
	}
	if wj != nil {
		okBody := false
		ir.Calls(wj, func(ci ssa.CallInstruction) {
			cc := ci.Common()
			if cc.IsInvoke() && cc.Method.Name() == "Write" {
				if e, ok := cc.Args[0].(*ssa.Extract); ok && e.Index == 0 {
					if call, ok := e.Tuple.(*ssa.Call); ok && ir.IsCallTo(&call.Call, "encoding/json.Marshal") {
						sameErr := func(v ssa.Value) bool { return ir.IsExtractOf(v, call, 1) }
						if ir.ProvesNil(ir.CondsAt(ci.Block()), sameErr) {
							okBody = true
						}
					}
				}
			}
		})
		// or the marshalled bytes and the marshal error travel together in a small reply
		// record: the body field is written where the record's error field is known nil, and
		// the two fields are only ever filled from the two results of one json.Marshal
		if !okBody {
			fieldOf := func(v ssa.Value) (*types.Var, ssa.Value) {
				if u, ok := v.(*ssa.UnOp); ok && u.Op == token.MUL {
					if fa, ok := u.X.(*ssa.FieldAddr); ok {
						return ir.FieldVar(fa), fa.X
					}
				}
				return nil, nil
			}
			c.P.ExtCalls(wj, func(ci ssa.CallInstruction) {
				cc := ci.Common()
				if !cc.IsInvoke() || cc.Method.Name() != "Write" || len(cc.Args) != 1 {
					return
				}
				bodyF, base := fieldOf(cc.Args[0])
				if bodyF == nil {
					return
				}
				var errF *types.Var
				for _, cd := range ir.CondsAt(ci.Block()) {
					if x, eq, isCmp := ir.NilCompare(cd.V); isCmp && eq == cd.Truth {
						if fv, b2 := fieldOf(x); fv != nil && b2 == base {
							errF = fv
						}
					}
				}
				if errF == nil {
					return
				}
				stores := c.P.FieldStores(bodyF)
				all := len(stores) > 0
				for _, bs := range stores {
					good := false
					if e, ok := bs.Val.(*ssa.Extract); ok && e.Index == 0 {
						if call, ok := e.Tuple.(*ssa.Call); ok && ir.IsCallTo(&call.Call, "encoding/json.Marshal") {
							bfa, _ := bs.Addr.(*ssa.FieldAddr)
							for _, es := range c.P.FieldStores(errF) {
								efa, _ := es.Addr.(*ssa.FieldAddr)
								if bfa != nil && efa != nil && efa.X == bfa.X && ir.IsExtractOf(es.Val, call, 1) {
									good = true
								}
							}
						}
					}
					if !good {
						all = false
					}
				}
				if all {
					okBody = true
				}
			})
		}
		c.Check(okBody, "TABLE.getter", wj, "JSON bodies", wj.Pos(), "the body written is json.Marshal's result on its err == nil edge", "the body written by writeJSON is not a checked json.Marshal result")
		// and nothing else is written as a body, except where json.Marshal itself failed
		isMarshalErr := func(x ssa.Value) bool {
			x = ir.NormCell(x)
			if e, ok := x.(*ssa.Extract); ok && e.Index == 1 {
				if call, ok := e.Tuple.(*ssa.Call); ok && ir.IsCallTo(&call.Call, "encoding/json.Marshal") {
					return true
				}
			}
			if u, ok := x.(*ssa.UnOp); ok && u.Op == token.MUL {
				if fa, ok := u.X.(*ssa.FieldAddr); ok && ir.FieldVar(fa) != nil {
					stores := c.P.FieldStores(ir.FieldVar(fa))
					all := len(stores) > 0
					for _, es := range stores {
						e, ok := es.Val.(*ssa.Extract)
						if !ok || e.Index != 1 {
							all = false
							continue
						}
						if call, ok := e.Tuple.(*ssa.Call); !ok || !ir.IsCallTo(&call.Call, "encoding/json.Marshal") {
							all = false
						}
					}
					return all
				}
			}
			return false
		}
		isWriter := func(v ssa.Value) bool {
			if v == nil {
				return false
			}
			return strings.HasSuffix(v.Type().String(), "net/http.ResponseWriter")
		}
		bad := ""
		c.P.ExtCalls(wj, func(ci ssa.CallInstruction) {
			cc := ci.Common()
			body := false
			if cc.IsInvoke() && isWriter(cc.Value) {
				switch cc.Method.Name() {
				case "Write":
					body = true
					if e, ok := cc.Args[0].(*ssa.Extract); ok && e.Index == 0 {
						if call, ok := e.Tuple.(*ssa.Call); ok && ir.IsCallTo(&call.Call, "encoding/json.Marshal") {
							body = false
						}
					}
					if u, ok := cc.Args[0].(*ssa.UnOp); ok && u.Op == token.MUL {
						if _, isF := u.X.(*ssa.FieldAddr); isF {
							body = false // the reply-record form, judged above
						}
					}
				}
			} else if g := cc.StaticCallee(); g != nil && !c.P.InRepo[g] {
				for _, a := range cc.Args {
					x := a
					if mi, ok := x.(*ssa.MakeInterface); ok {
						x = mi.X
					}
					if ci2, ok := x.(*ssa.ChangeInterface); ok {
						x = ci2.X
					}
					if isWriter(x) {
						body = true
					}
				}
			}
			if !body {
				return
			}
			failed := false
			for _, cd := range c.P.CondsWithin(ci, wj) {
				if x, eq, isCmp := ir.NilCompare(cd.V); isCmp && eq != cd.Truth && isMarshalErr(x) {
					failed = true
				}
			}
			if !failed && bad == "" {
				bad = c.P.Pos(ci.Pos())
			}
		})
		c.Check(bad == "", "TABLE.getter", wj, "no body but JSON", wj.Pos(), "the only body written besides the marshalled value is the fallback where json.Marshal itself failed", "the reply writer writes a body that is not marshalled JSON (at "+bad+", outside the json.Marshal failure fallback): a caller would get a reply whose body is not valid JSON")
	}
}

// ruleQueryParams: C19-D2/D3.
func ruleQueryParams(c *chk.Ctx) {
	allowed := map[string]bool{"string": true, "int64": true, "float64": true, "bool": true, "[]byte": true, "untyped nil": true}
	n := 0
	for _, name := range []string{"ParseQuery", "ParseBasic"} {
		f := c.M.Func(c.M.JhttpPkg, name)
		if f == nil {
			c.Undecided("PROV.params", nil, name, 0, "not found")
			continue
		}
		c.P.ExtInstrs(f, func(ins ssa.Instruction) {
			mu, ok := ins.(*ssa.MapUpdate)
			if !ok {
				return
			}
			n++
			var bad []string
			var floats []*ssa.MakeInterface
			for _, src := range c.P.SourcesStop(mu.Value, func(v ssa.Value) bool { _, ok := v.(*ssa.MakeInterface); return ok }) {
				switch x := src.(type) {
				case *ssa.MakeInterface:
					t := x.X.Type().String()
					if !allowed[t] {
						bad = append(bad, "dynamic type "+t)
					}
					if t == "float64" {
						floats = append(floats, x)
					}
				case *ssa.Const:
					if !x.IsNil() {
						if x.Type().String() != "string" {
							bad = append(bad, "constant "+x.String())
						}
					}
				case *ssa.Call, *ssa.Extract, *ssa.UnOp, *ssa.Lookup:
					// strings from url.Values.Get / decoded strings
					if src.Type().String() != "string" && src.Type().String() != "[]byte" {
						// an entry of a package-level constant table: every value written to it
						if okTable, why := constTableValuesAllowed(c, src, allowed); okTable {
							continue
						} else if why != "" {
							bad = append(bad, why)
							continue
						}
						bad = append(bad, fmt.Sprintf("%s of type %s", src.Name(), src.Type()))
					}
				default:
					bad = append(bad, fmt.Sprintf("%T", src))
				}
			}
			for _, mi := range floats {
				// a float64 made from ParseFloat must be dominated by a finiteness guard
				fromParse := false
				if e, ok := mi.X.(*ssa.Extract); ok {
					if call, ok := e.Tuple.(*ssa.Call); ok && ir.IsCallTo(&call.Call, "strconv.ParseFloat") {
						fromParse = true
					}
				}
				if !fromParse {
					continue
				}
				nan, inf := false, false
				for _, cd := range ir.CondsAt(mi.Block()) {
					if call, ok := cd.V.(*ssa.Call); ok && !cd.Truth && call.Call.Args[0] == mi.X {
						if ir.IsCallTo(&call.Call, "math.IsNaN") {
							nan = true
						}
						if ir.IsCallTo(&call.Call, "math.IsInf") {
							if k, _ := ir.ConstInt(call.Call.Args[1]); k == 0 {
								inf = true
							}
						}
					}
				}
				if !nan || !inf {
					bad = append(bad, fmt.Sprintf("float64 from strconv.ParseFloat at %s without a finiteness guard (IsNaN=%v, IsInf(v,0)=%v)", c.P.Pos(mi.Pos()), nan, inf))
				}
			}
			c.Check(len(bad) == 0, "PROV.params", f, "query parameters are marshalable", mu.Pos(), "every value stored is a string, int64, finite float64, bool, []byte or nil", "a query parameter may not be JSON-marshalable: "+strings.Join(bad, "; "))
		})
		// non-empty method
		okMethod := false
		for _, r := range ir.Returns(f) {
			if !ir.IsNilConst(ir.ReturnResult(r, 2)) {
				continue
			}
			m := ir.ReturnResult(r, 0)
			checkAt := func(m ssa.Value, blk *ssa.BasicBlock) (bool, bool) {
				call, isCall := m.(*ssa.Call)
				trimmed := isCall && ir.IsCallTo(&call.Call, "strings.Trim")
				nonEmpty := false
				for _, cd := range ir.CondsAt(blk) {
					if x, y, op, ok := ir.Rel(cd); ok {
						sy, isY := constString(y)
						sx, isX := constString(x)
						if ((x == m && isY && sy == "") || (y == m && isX && sx == "")) && op == token.NEQ {
							nonEmpty = true
						}
					}
				}
				return trimmed, nonEmpty
			}
			trimmed, nonEmpty := checkAt(m, r.Block())
			// the method may come out of a private helper shared by the parsers: every success
			// return of the helper must yield the trimmed, non-empty path
			if e, isE := ir.NormCell(m).(*ssa.Extract); isE && !trimmed {
				if hc, isCall := e.Tuple.(*ssa.Call); isCall {
					if h := hc.Call.StaticCallee(); h != nil && c.P.InRepo[h] && !ir.Exported(h) {
						all, nOK := true, 0
						for _, r2 := range ir.Returns(h) {
							last := len(r2.Results) - 1
							if !ir.IsNilConst(ir.ReturnResult(r2, last)) {
								continue
							}
							nOK++
							t2, n2 := checkAt(ir.ReturnResult(r2, e.Index), r2.Block())
							if !t2 || !n2 {
								all = false
							}
						}
						// and the caller uses the value only on the helper's success edge
						used := false
						for _, cd := range ir.CondsAt(r.Block()) {
							if x, eq, ok := ir.NilCompare(cd.V); ok && eq == cd.Truth {
								if ee, isEE := x.(*ssa.Extract); isEE && ee.Tuple == e.Tuple {
									used = true
								}
							}
						}
						if all && nOK > 0 && used {
							trimmed, nonEmpty = true, true
						}
					}
				}
			}
			if trimmed && nonEmpty {
				okMethod = true
			} else {
				okMethod = false
				break
			}
		}
		c.Check(okMethod, "PROV.params", f, "method is the trimmed path and non-empty", f.Pos(), "every successful return yields strings.Trim(path, \"/\") on its != \"\" edge", "a successful parse can return an empty method, or a method that is not the trimmed path")
	}
	if n < 2 {
		c.Undecided("PROV.params", nil, "parameter stores", 0, "found %d stores into parameter maps (want ≥ 2: one per parser)", n)
	}
}

// ruleBodiesClosed: C19-D4.
func ruleBodiesClosed(c *chk.Ctx) {
	// functions that receive a response struct from the channel's result channel
	n := 0
	recvFuncs := map[*ssa.Function]bool{}
	for _, rr := range responseReceives(c) {
		recvFuncs[rr.f] = true
	}
	for _, f := range pkgFuncs(c, c.M.JhttpPkg) {
		ir.Instrs(f, func(ins ssa.Instruction) {
			if x, ok := ins.(*ssa.Next); ok {
				if rg, ok := x.Iter.(*ssa.Range); ok && isRespChan(rg.X.Type()) {
					recvFuncs[f] = true
				}
			}
		})
	}
	for _, f := range pkgFuncs(c, c.M.JhttpPkg) {
		if !recvFuncs[f] {
			continue
		}
		n++
		closes := false
		isBodyClose := func(ci ssa.CallInstruction) bool {
			cc := ci.Common()
			return cc.IsInvoke() && cc.Method.Name() == "Close" && strings.HasSuffix(cc.Value.Type().String(), "io.ReadCloser")
		}
		ir.Calls(f, func(ci ssa.CallInstruction) {
			if isBodyClose(ci) {
				closes = true
			}
			// or hands the response to a method of the response type that closes it
			if g := ci.Common().StaticCallee(); g != nil && c.P.InRepo[g] && !ir.Exported(g) {
				ir.Calls(g, func(c2 ssa.CallInstruction) {
					if isBodyClose(c2) {
						closes = true
					}
				})
			}
		})
		c.Check(closes, "PAIR.body", f, "received HTTP responses are closed", f.Pos(), "the function that takes responses off the result channel closes their bodies", "a function takes HTTP responses off the result channel and never closes their bodies: connections leak")
	}
	// the sender: a response that is not forwarded (204) is closed
	send := jhttpFunc(c, "(*Channel).Send")
	if send != nil {
		for _, g := range pkgFuncs(c, c.M.JhttpPkg) {
			var do *ssa.Call
			ir.Instrs(g, func(ins ssa.Instruction) {
				if call, ok := ins.(*ssa.Call); ok && call.Call.IsInvoke() && call.Call.Method.Name() == "Do" {
					do = call
				}
			})
			if do == nil {
				continue
			}
			n++
			// every return of g is preceded by Body.Close or a send of the response on the channel
			okAll := true
			for _, r := range ir.Returns(g) {
				_ = r
			}
			q := ir.PathQuery{Goal: func(i ssa.Instruction) bool {
				if _, ok := i.(*ssa.Send); ok {
					return true
				}
				if ci, ok := i.(ssa.CallInstruction); ok && ci.Common().IsInvoke() && ci.Common().Method.Name() == "Close" {
					return true
				}
				return false
			}}
			okAll, _ = q.MustReach(do)
			// and only the empty acknowledgement (204) is kept from the receiver: a response the
			// sender disposes of itself is one whose status equals that constant — any other
			// status is how a failed exchange reaches the client through Recv
			onlyAck := true
			where := ""
			ir.Calls(g, func(ci ssa.CallInstruction) {
				cc := ci.Common()
				if !cc.IsInvoke() || cc.Method.Name() != "Close" || !strings.HasSuffix(cc.Value.Type().String(), "io.ReadCloser") {
					return
				}
				is204 := false
				for _, cd := range ir.NormConds(ir.CondsAt(ci.Block())) {
					if x, y, op, isRel := ir.Rel(cd); isRel && op == token.EQL {
						for _, pr := range [][2]ssa.Value{{x, y}, {y, x}} {
							if k, isK := ir.ConstInt(pr[1]); isK && k == 204 {
								if _, fv, isF := ir.FieldRead(pr[0]); isF && fv != nil && fv.Name() == "StatusCode" {
									is204 = true
								}
							}
						}
					}
				}
				if !is204 {
					onlyAck = false
					where = c.P.Pos(ci.Pos())
				}
			})
			c.Check(onlyAck, "PAIR.body", g, "only the empty acknowledgement is kept from the receiver", do.Pos(), "the sender closes a response itself only on the StatusCode == 204 edge", "the sender disposes of a response itself (at "+where+") on an edge other than StatusCode == 204: a reply that reports a failed exchange (500, 503, …) would never reach Recv, and the call it answers would hang until its context ends")
			c.Check(okAll, "PAIR.body", g, "every obtained response is closed or handed on", do.Pos(), "from the Do call every path closes the body or sends the response to the receiver", "a path from Do drops the response without closing its body")
		}
	}
	if n < 3 {
		c.Undecided("PAIR.body", nil, "response handling sites", 0, "found %d (want 3: Recv, Close, Send goroutine)", n)
	}
}

// ---------------------------------------------------------------------------
// C20

func ruleLoop(c *chk.Ctx) {
	loop := c.M.Func(c.M.ServerPkg, "Loop")
	if loop == nil {
		c.Undecided("PAIR.loop", nil, "Loop", 0, "not found")
		return
	}
	// the per-connection code: the function that obtains a service's assigner, run (possibly
	// through a private helper) by a goroutine Loop starts
	var conn *ssa.Function
	var connGo *ssa.Go
	var goBodyFn *ssa.Function
	c.P.ExtInstrs(loop, func(ins ssa.Instruction) {
		if g, ok := ins.(*ssa.Go); ok {
			if b := goBody(c, g); b != nil {
				for _, h := range c.P.Ext(b) {
					ir.Calls(h, func(ci ssa.CallInstruction) {
						if ci.Common().IsInvoke() && ci.Common().Method.Name() == "Assigner" {
							conn, connGo, goBodyFn = h, g, b
						}
					})
				}
			}
		}
	})
	if conn == nil {
		c.Fail("PAIR.loop", loop, "per-connection goroutine", loop.Pos(), "Loop starts no goroutine that obtains a service's assigner")
		return
	}
	// D1: newService() is called inside the per-connection goroutine, not hoisted
	newSvcParam := loop.Params[2]
	var svcCall *ssa.Call
	inLoopBody := false
	scan := []*ssa.Function{loop}
	scan = append(scan, c.P.Ext(goBodyFn)...)
	for _, f := range scan {
		ir.Instrs(f, func(ins ssa.Instruction) {
			call, ok := ins.(*ssa.Call)
			if !ok {
				return
			}
			isNewSvc := ir.NormCell(call.Call.Value) == ssa.Value(newSvcParam) || c.P.Canon(call.Call.Value) == ssa.Value(newSvcParam)
			if !isNewSvc && !call.Call.IsInvoke() && call.Call.StaticCallee() == nil && types.Identical(call.Call.Value.Type(), newSvcParam.Type()) {
				// the constructor kept in a field of a helper value: every value that reaches the
				// field must be Loop's parameter
				srcs := c.P.Sources(call.Call.Value)
				isNewSvc = len(srcs) > 0
				for _, src := range srcs {
					if src != ssa.Value(newSvcParam) {
						isNewSvc = false
					}
				}
			}
			if isNewSvc {
				if f == loop {
					inLoopBody = true
				} else {
					svcCall = call
				}
			}
		})
	}
	c.Check(svcCall != nil && !inLoopBody, "PAIR.loop", conn, "fresh service per connection", connGo.Pos(), "newService() is called inside the per-connection goroutine", "newService() is not called once inside each connection's goroutine (hoisted or missing): connections would share a service")
	// the accepted channel
	var accept *ssa.Call
	ir.Instrs(loop, func(ins ssa.Instruction) {
		if call, ok := ins.(*ssa.Call); ok && call.Call.IsInvoke() && call.Call.Method.Name() == "Accept" {
			accept = call
		}
	})
	// D2: Assigner → Start → WaitStatus → Finish
	var assigner, start, wait, finish, closeCh *ssa.Call
	nFinish := 0
	ir.Instrs(conn, func(ins ssa.Instruction) {
		call, ok := ins.(*ssa.Call)
		if !ok {
			return
		}
		cc := &call.Call
		switch {
		case cc.IsInvoke() && cc.Method.Name() == "Assigner":
			assigner = call
		case cc.IsInvoke() && cc.Method.Name() == "Finish":
			finish = call
			nFinish++
		case cc.IsInvoke() && cc.Method.Name() == "Close":
			closeCh = call
		case cc.StaticCallee() != nil && ir.BaseName(cc.StaticCallee()) == "Start" && ir.RecvNamed(cc.StaticCallee()) == c.M.Server:
			start = call
		case cc.StaticCallee() != nil && ir.RecvNamed(cc.StaticCallee()) == c.M.Server && strings.HasSuffix(cc.StaticCallee().Signature.Results().String(), "ServerStatus)"):
			wait = call
		}
	})
	if assigner == nil || start == nil || wait == nil || finish == nil {
		c.Fail("PAIR.loop", conn, "service life cycle", conn.Pos(), "the per-connection goroutine does not obtain an assigner, start a server, wait for its status and finish the service (%v %v %v %v)", assigner != nil, start != nil, wait != nil, finish != nil)
		return
	}
	sameErr := func(v ssa.Value) bool { return ir.IsExtractOf(v, assigner, 1) }
	okOrder := nFinish == 1 && ir.InstrDominates(wait, finish) && ir.InstrDominates(start, wait) && ir.ProvesNil(ir.CondsAt(start.Block()), sameErr) && !ir.InCycle(finish.Block())
	c.Check(okOrder, "PAIR.loop", conn, "one Finish, after the server exited", finish.Pos(), "exactly one Finish call, dominated by WaitStatus, which is dominated by Start on the Assigner-succeeded edge", "Finish is not called exactly once after the server's WaitStatus on the path where Assigner succeeded")
	// arguments
	okArgs := ir.NormCell(finish.Call.Value) == ir.NormCell(assigner.Call.Value) && ir.IsExtractOf(ir.NormCell(finish.Call.Args[0]), assigner, 0) && ir.NormCell(finish.Call.Args[1]) == ssa.Value(wait)
	// the server waited on is the one started with that assigner on the accepted channel
	okSrv := false
	// (Start returns its receiver: the server is the constructor's result or Start's)
	var srvNew *ssa.Call
	if nsCall, ok := ir.NormCell(start.Call.Args[0]).(*ssa.Call); ok && nsCall.Call.StaticCallee() != nil && ir.BaseName(nsCall.Call.StaticCallee()) == "NewServer" {
		srvNew = nsCall
		if w := ir.NormCell(wait.Call.Args[0]); ir.IsExtractOf(ir.NormCell(nsCall.Call.Args[0]), assigner, 0) && (w == ssa.Value(start) || w == ssa.Value(nsCall)) {
			okSrv = true
		}
	}
	okCh := false
	if accept != nil {
		for _, src := range c.P.SourcesStop(start.Call.Args[1], func(v ssa.Value) bool { return ir.IsExtractOf(v, accept, 0) }) {
			if ir.IsExtractOf(src, accept, 0) {
				okCh = true
			}
		}
	}
	c.Check(okArgs && okSrv && okCh, "PAIR.loop", conn, "Finish gets this service's assigner and this server's status", finish.Pos(), "Finish(assigner from this service's Assigner(), WaitStatus() of the server started with that assigner on the accepted channel), on the same service value",
		fmt.Sprintf("Finish's receiver/arguments are not this service, its own assigner and its own server's status (args=%v server=%v channel=%v)", okArgs, okSrv, okCh))
	// D3: on the Assigner error edge: no Start/Finish, channel closed
	var errEdge *ssa.BasicBlock
	for _, r := range *assigner.Referrers() {
		if e, ok := r.(*ssa.Extract); ok && e.Index == 1 {
			for _, r2 := range *e.Referrers() {
				if bo, ok := r2.(*ssa.BinOp); ok {
					for _, r3 := range *bo.Referrers() {
						if iff, ok := r3.(*ssa.If); ok {
							_, eq, _ := ir.NilCompare(bo)
							if eq {
								errEdge = iff.Block().Succs[1]
							} else {
								errEdge = iff.Block().Succs[0]
							}
						}
					}
				}
			}
		}
	}
	if errEdge == nil || len(errEdge.Instrs) == 0 {
		c.Undecided("PAIR.loop", conn, "failed service", assigner.Pos(), "cannot find the Assigner error edge")
	} else {
		first := errEdge.Instrs[0]
		isClose := func(i ssa.Instruction) bool {
			call, ok := i.(*ssa.Call)
			if !ok || !call.Call.IsInvoke() || call.Call.Method.Name() != "Close" {
				return false
			}
			if accept == nil {
				return false
			}
			for _, src := range c.P.SourcesStop(call.Call.Value, func(v ssa.Value) bool { return ir.IsExtractOf(v, accept, 0) }) {
				if ir.IsExtractOf(src, accept, 0) {
					return true
				}
			}
			return false
		}
		ok := isClose(first)
		if !ok {
			ok, _ = ir.PathQuery{Goal: isClose}.MustReach(first)
		}
		_ = closeCh
		c.Check(ok, "PAIR.loop", conn, "failed service: connection closed", assigner.Pos(), "on the Assigner error edge every path closes the accepted channel before returning", "when Assigner fails the accepted channel is never closed: the peer is left with a dangling connection")
		reach, _ := ir.Reaches(first, func(i ssa.Instruction) bool { return i == ssa.Instruction(start) || i == ssa.Instruction(finish) }, nil)
		c.Check(!reach || first == ssa.Instruction(start), "PAIR.loop", conn, "failed service: no server, no Finish", assigner.Pos(), "neither Start nor Finish is reachable from the Assigner error edge", "Start or Finish is reachable although Assigner failed")
	}
	// D4: Loop returns last
	// the group is the one the per-connection goroutine is registered with; a return that is the
	// tail call of a private helper is judged inside the helper
	connWG := classifyOne(c, connGo).wg
	var waits []*ssa.Call
	c.P.ExtInstrs(loop, func(ins ssa.Instruction) {
		if call, ok := ins.(*ssa.Call); ok {
			if id, ok := wgCall(call, "Wait"); ok && (id == connWG || (connWG == "" && strings.HasPrefix(id, "local:"))) {
				waits = append(waits, call)
			}
		}
	})
	allDominated := func(rs []*ssa.Return) bool {
		for _, r := range rs {
			dominated := false
			for _, w := range waits {
				if w.Parent() == r.Parent() && ir.InstrDominates(w, r) {
					dominated = true
				}
			}
			if !dominated {
				return false
			}
		}
		return len(rs) > 0
	}
	okLast := len(waits) > 0 && (allDominated(ir.Returns(loop)) || allDominated(effectiveReturns(c, loop, 0)))
	c.Check(okLast, "PAIR.loop", loop, "Loop returns last", loop.Pos(), "every return of Loop is dominated by wg.Wait()", "Loop can return before waiting for the per-connection goroutines")
	// D5: a watcher stops the server when the child context ends
	okStop := false
	ir.Instrs(conn, func(ins ssa.Instruction) {
		g, ok := ins.(*ssa.Go)
		if !ok {
			return
		}
		b := goBody(c, g)
		if b == nil {
			return
		}
		gc := classifyOne(c, g)
		stops := false
		ir.Calls(b, func(ci ssa.CallInstruction) {
			if ci.Common().StaticCallee() != nil && ir.BaseName(ci.Common().StaticCallee()) == "Stop" {
				if r := ir.NormCell(ci.Common().Args[0]); r == ssa.Value(start) || (srvNew != nil && r == ssa.Value(srvNew)) {
					stops = true
				}
				// (the server handed to the watcher as a parameter)
				if r := c.P.Canon(ci.Common().Args[0]); r == ssa.Value(start) || (srvNew != nil && r == ssa.Value(srvNew)) {
					stops = true
				}
			}
		})
		if gc.kind == "watcher" && stops {
			// every path from the watcher's entry to its return passes the Stop call
			okStop = true
			if len(b.Blocks) > 0 && len(b.Blocks[0].Instrs) > 0 {
				q := ir.PathQuery{Goal: func(i ssa.Instruction) bool {
					ci, ok := i.(ssa.CallInstruction)
					return ok && ci.Common().StaticCallee() != nil && ir.BaseName(ci.Common().StaticCallee()) == "Stop"
				}}
				if ok, _ := q.MustReach(b.Blocks[0].Instrs[0]); !ok {
					okStop = false
				}
			}
		}
	})
	if !okStop {
		// or: the stop is registered to run when the context ends (context.AfterFunc runs it in
		// its own goroutine once the context is done): the server's Stop itself, or a function
		// that calls it on every path
		isSrv := func(v ssa.Value) bool {
			r := ir.NormCell(v)
			return r == ssa.Value(start) || (srvNew != nil && r == ssa.Value(srvNew))
		}
		ir.Instrs(conn, func(ins ssa.Instruction) {
			call, ok := ins.(*ssa.Call)
			if !ok || !ir.IsCallTo(&call.Call, "context.AfterFunc") || len(call.Call.Args) != 2 {
				return
			}
			mc, ok := ir.NormCell(call.Call.Args[1]).(*ssa.MakeClosure)
			if !ok {
				return
			}
			fn, _ := mc.Fn.(*ssa.Function)
			if fn == nil {
				return
			}
			if u := ir.UnwrapBound(fn); u != fn {
				if ir.BaseName(u) == "Stop" && len(mc.Bindings) == 1 && isSrv(mc.Bindings[0]) {
					okStop = true
				}
				return
			}
			if len(fn.Blocks) == 0 || len(fn.Blocks[0].Instrs) == 0 {
				return
			}
			q := ir.PathQuery{Goal: func(i ssa.Instruction) bool {
				ci, ok := i.(ssa.CallInstruction)
				return ok && ci.Common().StaticCallee() != nil && ir.BaseName(ci.Common().StaticCallee()) == "Stop" && len(ci.Common().Args) > 0 && isSrv(ci.Common().Args[0])
			}}
			if ok, _ := q.MustReach(fn.Blocks[0].Instrs[0]); ok {
				okStop = true
			}
		})
	}
	c.Check(okStop, "PAIR.loop", conn, "context end stops the server", conn.Pos(), "a watcher on a child of ctx (cancel deferred) calls Stop on this connection's server on every wake-up path", "no watcher goroutine stops this connection's server on every path after its context ends (a select that can take a branch without Stop leaves the server running when the parent context ended)")
	// D6: error mapping: every way Loop returns a value (looking through phis and through a private
	// helper that computes the result) is nil under IsErrClosing, or the accepter's own error
	// under ¬IsErrClosing
	okMap := false
	{
		type row struct {
			v     ssa.Value
			conds []ir.Cond
		}
		var rows []row
		var expand func(v ssa.Value, conds []ir.Cond, depth int)
		expand = func(v ssa.Value, conds []ir.Cond, depth int) {
			if phi, ok := v.(*ssa.Phi); ok && depth < 4 {
				for i, e := range phi.Edges {
					expand(e, append(append([]ir.Cond{}, conds...), ir.EdgeConds(phi.Block().Preds[i], phi.Block())...), depth+1)
				}
				return
			}
			rows = append(rows, row{v, conds})
		}
		for _, r := range effectiveReturns(c, loop, 0) {
			expand(ir.ReturnResult(r, 0), c.P.CondsWithin(r, loop), 0)
		}
		nilOnClosing, errOtherwise, other := false, false, false
		for _, rw := range rows {
			closing, notClosing := false, false
			for _, cd := range rw.conds {
				if call, ok := cd.V.(*ssa.Call); ok && call.Call.StaticCallee() != nil && ir.BaseName(call.Call.StaticCallee()) == "IsErrClosing" {
					if cd.Truth {
						closing = true
					} else {
						notClosing = true
					}
				}
			}
			switch {
			case ir.IsNilConst(rw.v) && closing:
				nilOnClosing = true
			case accept != nil && ir.IsExtractOf(c.P.Canon(rw.v), accept, 1) && notClosing:
				errOtherwise = true
			default:
				other = true
			}
		}
		okMap = nilOnClosing && errOtherwise && !other
	}
	c.Check(okMap, "PAIR.loop", loop, "accept error mapping", loop.Pos(), "Loop returns nil exactly when the accept error IsErrClosing, and the accepter's error otherwise", "Loop does not return nil exactly for closed-listener errors and the accepter's own error otherwise")
	// netAccepter: every error it returns is the listener's Accept error
	na := c.M.Func(c.M.ServerPkg, "(netAccepter).Accept")
	if na != nil {
		var lacc *ssa.Call
		ir.Instrs(na, func(ins ssa.Instruction) {
			if call, ok := ins.(*ssa.Call); ok && call.Call.IsInvoke() && call.Call.Method.Name() == "Accept" {
				lacc = call
			}
		})
		okErr := lacc != nil
		for _, r := range ir.Returns(na) {
			ev := ir.ReturnResult(r, 1)
			if ir.IsNilConst(ev) {
				continue
			}
			if lacc == nil || !ir.IsExtractOf(ev, lacc, 1) {
				okErr = false
			}
		}
		c.Check(okErr, "PAIR.loop", na, "NetAccepter errors are the listener's", na.Pos(), "every error NetAccepter returns is Listener.Accept's own error (a closed-listener error when the context ended)", "NetAccepter can return an error that is not the listener's (e.g. the context's): Loop would report it instead of returning nil at context end")
		// the watcher closes the listener on context end
		okWatch := false
		ir.Instrs(na, func(ins ssa.Instruction) {
			if g, ok := ins.(*ssa.Go); ok {
				gc := classifyOne(c, g)
				if gc.kind == "watcher" && gc.body != nil {
					ir.Calls(gc.body, func(ci ssa.CallInstruction) {
						if ci.Common().IsInvoke() && ci.Common().Method.Name() == "Close" {
							okWatch = true
						}
					})
				}
			}
		})
		// the watcher must be started on every path before the blocking Accept
		if okWatch && lacc != nil {
			dom := false
			ir.Instrs(na, func(ins ssa.Instruction) {
				if g, ok := ins.(*ssa.Go); ok && ir.InstrDominates(g, lacc) {
					dom = true
				}
			})
			okWatch = dom
		}
		c.Check(okWatch, "PAIR.loop", na, "context end closes the listener", na.Pos(), "a watcher released by a deferred close closes the listener when the context ends, started before the blocking Accept on every path", "no watcher closes the listener at context end on every path before Accept")
	}
	c.Floor("PAIR.loop", 9, "fresh service, one Finish, arguments, failed service ×2, returns last, stop watcher, error mapping, NetAccepter ×2")
}

// ruleRecvClosesBody: in the function that takes a response off the result
// channel by a plain receive, every path from the receive to a return closes
// the body, except the closed-channel edge and the edge where the response
// carries a transport error (no response object).
func ruleRecvClosesBody(c *chk.Ctx) {
	for _, rr := range responseReceives(c) {
		f, recv := rr.f, rr.v
		isClose := func(i ssa.Instruction) bool {
			ci, ok := i.(ssa.CallInstruction)
			return ok && ci.Common().IsInvoke() && ci.Common().Method.Name() == "Close" && strings.HasSuffix(ci.Common().Value.Type().String(), "io.ReadCloser")
		}
		// acceptable without a close: the !ok edge, or the err != nil edge of the received struct
		exemptCond := func(cd ir.Cond) bool {
			if e, ok := cd.V.(*ssa.Extract); ok && e.Tuple == recv && e.Index == 1 && !cd.Truth {
				return true
			}
			if x, eq, ok := ir.NilCompare(cd.V); ok && eq != cd.Truth {
				if fld, ok := x.(*ssa.Field); ok && fld.Type().String() == "error" {
					return true
				}
				if u, ok := x.(*ssa.UnOp); ok {
					if fa, ok := u.X.(*ssa.FieldAddr); ok && ir.FieldVar(fa).Type().String() == "error" {
						return true
					}
				}
			}
			return false
		}
		bad := ""
		rets := effectiveReturns(c, f, 0)
		own := true
		for _, r := range rets {
			if r.Parent() != f {
				own = false
			}
		}
		if ri, isInstr := recv.(ssa.Instruction); isInstr && own && ri.Parent() == f {
			// every path from the receive to a return (possibly one shared exit) passes a close
			// or leaves by an exempt edge
			closesIn := func(b *ssa.BasicBlock, from int) bool {
				for i := from; i < len(b.Instrs); i++ {
					if isClose(b.Instrs[i]) {
						return true
					}
				}
				return false
			}
			seen := map[*ssa.BasicBlock]bool{}
			var walk func(b *ssa.BasicBlock, from int)
			walk = func(b *ssa.BasicBlock, from int) {
				if from == 0 {
					if seen[b] {
						return
					}
					seen[b] = true
				}
				if closesIn(b, from) {
					return
				}
				if ret, isRet := b.Instrs[len(b.Instrs)-1].(*ssa.Return); isRet && bad == "" {
					bad = c.P.Pos(ret.Pos())
				}
				for _, s := range b.Succs {
					if cd, has := ir.EdgeOwnCond(b, s); has {
						ex := false
						for _, n := range ir.NormConds([]ir.Cond{cd}) {
							if exemptCond(n) {
								ex = true
							}
						}
						if ex {
							continue
						}
					}
					walk(s, 0)
				}
			}
			idx := 0
			for i, ins := range ri.Block().Instrs {
				if ins == ri {
					idx = i + 1
				}
			}
			walk(ri.Block(), idx)
			rets = nil
		}
		for _, r := range rets {
			exempt := false
			conds := ir.CondsAt(r.Block())
			if r.Parent() != f {
				conds = c.P.CondsWithin(r, f)
			}
			for _, cd := range conds {
				if exemptCond(cd) {
					exempt = true
				}
			}
			if exempt {
				continue
			}
			closed := false
			ir.Instrs(r.Parent(), func(i ssa.Instruction) {
				if isClose(i) && ir.InstrDominates(i, r) {
					closed = true
				}
			})
			if !closed {
				bad = c.P.Pos(r.Pos())
			}
		}
		// the response object is looked into only where there is one: a failed round trip arrives
		// as a nil response with an error, so every access through the response pointer sits
		// under `err == nil` of the received record or under a nil test of the pointer itself
		// (an access made when a defer statement is evaluated counts where the statement is)
		unguarded := ""
		ir.Instrs(f, func(ins ssa.Instruction) {
			fa, ok := ins.(*ssa.FieldAddr)
			if !ok || !strings.HasSuffix(fa.X.Type().String(), "net/http.Response") {
				return
			}
			guarded := false
			for _, cd := range ir.NormConds(ir.CondsAt(fa.Block())) {
				x, eq, isNC := ir.NilCompare(cd.V)
				if !isNC {
					continue
				}
				if eq != cd.Truth && (ir.SameValue(x, fa.X) || sameFieldRead(x, fa.X)) {
					guarded = true
				}
				if eq == cd.Truth && x.Type().String() == "error" {
					switch y := x.(type) {
					case *ssa.Field:
						guarded = true
					case *ssa.UnOp:
						if _, isFA := y.X.(*ssa.FieldAddr); isFA {
							guarded = true
						}
					}
				}
			}
			if !guarded && unguarded == "" {
				unguarded = c.P.Pos(fa.Pos())
			}
		})
		c.Check(unguarded == "", "PAIR.body", f, "response looked into only when there is one", recv.Pos(), "every access through the received response pointer is under err == nil of the record or a nil test of the pointer", "the received HTTP response is dereferenced at "+unguarded+" without knowing that the round trip succeeded: a transport failure arrives as a nil response with an error, so the receiver would panic instead of reporting the error")
		c.Check(bad == "", "PAIR.body", f, "body closed on every path after a response was received", recv.Pos(), "every return that follows the receipt of an HTTP response is dominated by Body.Close()", "a return at "+bad+" follows the receipt of an HTTP response without closing its body (e.g. the non-200 status path): the response has left the channel, so Close cannot close it either")
	}
}

// ruleQuerySliceBounds: in the query-value parsers, s[a:len(s)-b] is
// dominated by len(s) >= a+b, and s[0] / s[len(s)-1] by s being non-empty.
func ruleQuerySliceBounds(c *chk.Ctx) {
	n := 0
	for _, f := range pkgFuncs(c, c.M.JhttpPkg) {
		// (every function of the HTTP package, whatever it is called: the value parsers are
		// the only ones that slice strings by computed bounds)
		ir.Instrs(f, func(ins ssa.Instruction) {
			sl, ok := ins.(*ssa.Slice)
			if !ok || sl.X.Type().String() != "string" || sl.Low == nil || sl.High == nil {
				return
			}
			a, isA := ir.ConstInt(sl.Low)
			bo, isB := sl.High.(*ssa.BinOp)
			if !isA || !isB || bo.Op != token.SUB {
				return
			}
			x, isLen := ir.LenOf(bo.X)
			b, isC := ir.ConstInt(bo.Y)
			if !isLen || !isC || x != sl.X {
				return
			}
			n++
			need := a + b
			ok2 := false
			// lenAtLeast: outcome cd says len(subject) >= need
			lenAtLeast := func(cd ir.Cond, subject ssa.Value) bool {
				x, y, op, ok := ir.Rel(cd)
				if !ok {
					return false
				}
				lx, isL := ir.LenOf(x)
				k, isK := ir.ConstInt(y)
				if !isL || !isK || lx != subject {
					return false
				}
				return (op == token.GEQ && k >= need) || (op == token.GTR && k >= need-1)
			}
			for _, cd := range ir.CondsAt(sl.Block()) {
				if lenAtLeast(cd, sl.X) {
					ok2 = true
				}
				// a private predicate helper applied to the same string: every way it can yield
				// this outcome establishes the bound on its own parameter
				call, isCall := cd.V.(*ssa.Call)
				if e, isE := cd.V.(*ssa.Extract); isE {
					// one of several results of the helper (whole, stray := quoting(s, q))
					call, isCall = e.Tuple.(*ssa.Call)
				}
				if !isCall {
					continue
				}
				h := call.Call.StaticCallee()
				if h == nil || !c.P.InRepo[h] || ir.Exported(h) {
					continue
				}
				var prm *ssa.Parameter
				for i, a := range call.Call.Args {
					if a == sl.X && i < len(h.Params) {
						prm = h.Params[i]
					}
				}
				if prm == nil {
					continue
				}
				alts := expandPredicateHelpers(c, []ir.Cond{cd}, 0)
				all := len(alts) > 0
				for _, alt := range alts {
					found := false
					for _, c2 := range alt {
						if lenAtLeast(c2, prm) {
							found = true
						}
					}
					if !found {
						all = false
					}
				}
				if all {
					ok2 = true
				}
			}
			c.Check(ok2, "PROV.bounds", f, "slice of a query value stays in range", sl.Pos(), fmt.Sprintf("s[%d:len(s)-%d] is dominated by len(s) >= %d", a, b, need), fmt.Sprintf("s[%d:len(s)-%d] is not dominated by len(s) >= %d: a value shorter than that (e.g. a lone quote) makes the parser panic with slice bounds out of range", a, b, need))
		})
	}
	if n == 0 {
		// nothing is cut out of a query value by computed bounds (the quotes may be removed
		// with strings.CutPrefix / CutSuffix, which cannot go out of range)
		c.Pass("PROV.bounds", nil, "query value slices", 0, "no s[a:len(s)-b] slice in the HTTP package: nothing to bound")
	}
}

// statusWritesExt: status writes in f and its private helpers.
func statusWritesExt(c *chk.Ctx, f *ssa.Function) []statusWrite {
	var out []statusWrite
	for _, g := range c.P.Ext(f) {
		out = append(out, statusWrites(c, g)...)
	}
	return out
}

// constTableValuesAllowed: v is an entry looked up in a package-level map that is
// only written by the package initialiser; reports whether every value stored
// there has an allowed dynamic type. why is non-empty when v is such a lookup
// but a value is not allowed.
func constTableValuesAllowed(c *chk.Ctx, v ssa.Value, allowed map[string]bool) (bool, string) {
	var lk *ssa.Lookup
	switch x := v.(type) {
	case *ssa.Lookup:
		lk = x
	case *ssa.Extract:
		lk, _ = x.Tuple.(*ssa.Lookup)
	}
	if lk == nil {
		return false, ""
	}
	u, ok := lk.X.(*ssa.UnOp)
	if !ok {
		return false, ""
	}
	g, ok := u.X.(*ssa.Global)
	if !ok || g.Pkg == nil {
		return false, ""
	}
	all := append([]*ssa.Function{}, c.P.Funcs...)
	if ini := g.Pkg.Func("init"); ini != nil {
		all = append(all, ini)
	}
	n := 0
	why := ""
	for _, f := range all {
		ir.Instrs(f, func(ins ssa.Instruction) {
			mu, ok := ins.(*ssa.MapUpdate)
			if !ok {
				return
			}
			isTable := false
			if lu, ok := mu.Map.(*ssa.UnOp); ok && lu.X == ssa.Value(g) {
				isTable = true
			}
			if mk, ok := mu.Map.(*ssa.MakeMap); ok {
				for _, r := range *mk.Referrers() {
					if st, ok := r.(*ssa.Store); ok && st.Addr == ssa.Value(g) {
						isTable = true
					}
				}
			}
			if !isTable {
				return
			}
			n++
			if f.Name() != "init" {
				why = "the constant table " + g.Name() + " is written outside the package initialiser"
				return
			}
			switch val := mu.Value.(type) {
			case *ssa.MakeInterface:
				if !allowed[val.X.Type().String()] {
					why = "table entry of dynamic type " + val.X.Type().String()
				}
			case *ssa.Const:
				if !val.IsNil() {
					why = "table entry " + val.String()
				}
			default:
				why = fmt.Sprintf("table entry %T", mu.Value)
			}
		})
	}
	if n == 0 {
		return false, ""
	}
	return why == "", why
}

// isStatusWriterHelper: the HTTP package's private "write this status with
// this JSON body" function, recognised by what it does: a plain function of a
// ResponseWriter, a status code and a value that passes the code to WriteHeader.
func isStatusWriterHelper(c *chk.Ctx, g *ssa.Function) bool {
	if g == nil || g.Pkg != c.M.JhttpPkg || g.Signature.Recv() != nil || g.Parent() != nil || len(g.Params) != 3 || len(g.Blocks) == 0 {
		return false
	}
	if !strings.HasSuffix(g.Params[0].Type().String(), "http.ResponseWriter") || g.Params[1].Type().String() != "int" {
		return false
	}
	found := false
	ir.Calls(g, func(ci ssa.CallInstruction) {
		cc := ci.Common()
		if cc.IsInvoke() && cc.Method.Name() == "WriteHeader" && len(cc.Args) == 1 && cc.Args[0] == ssa.Value(g.Params[1]) {
			found = true
		}
	})
	if found {
		return true
	}
	// or through private helpers of its own (a reply record with a writeTo method): some
	// WriteHeader in them is given a value that comes from the code parameter
	for _, h := range c.P.Ext(g) {
		if h == g {
			continue
		}
		ir.Calls(h, func(ci ssa.CallInstruction) {
			cc := ci.Common()
			if !cc.IsInvoke() || cc.Method.Name() != "WriteHeader" || len(cc.Args) != 1 {
				return
			}
			for _, src := range c.P.SourcesStop(cc.Args[0], func(v ssa.Value) bool { return v == ssa.Value(g.Params[1]) }) {
				if src == ssa.Value(g.Params[1]) {
					found = true
				}
			}
		})
	}
	return found
}

// A respRecv is a place where an HTTP response struct is taken off the jhttp
// channel's result channel: the receive itself, or — when the receiving
// function is a mere accessor that returns what it received (value, or value
// and ok flag, in that order) without touching it — each call of that accessor.
// v is the receive / the call; with a comma-ok receive, extract #1 of v is the
// ok flag either way.
type respRecv struct {
	f *ssa.Function
	v ssa.Value
}

// isRespStruct: the record the HTTP client channel passes from its sending goroutine
// to Recv — a struct (whatever it is called) holding the *http.Response.
func isRespStruct(t types.Type) bool {
	st, ok := t.Underlying().(*types.Struct)
	if !ok {
		return false
	}
	for i := 0; i < st.NumFields(); i++ {
		if st.Field(i).Type().String() == "*net/http.Response" {
			return true
		}
	}
	return false
}

// isRespChan: a channel of such records.
func isRespChan(t types.Type) bool {
	ch, ok := t.Underlying().(*types.Chan)
	return ok && isRespStruct(ch.Elem())
}

func responseReceives(c *chk.Ctx) []respRecv {
	var out []respRecv
	for _, f := range pkgFuncs(c, c.M.JhttpPkg) {
		var recv *ssa.UnOp
		ir.Instrs(f, func(ins ssa.Instruction) {
			if u, ok := ins.(*ssa.UnOp); ok && u.Op == token.ARROW && isRespChan(u.X.Type()) {
				recv = u
			}
		})
		if recv == nil {
			continue
		}
		// accessor: every return hands back exactly the received pieces, nothing else happens
		accessor := f.Signature.Results().Len() >= 1 && isRespStruct(f.Signature.Results().At(0).Type()) && !ir.Exported(f)
		calls := 0
		ir.Calls(f, func(ssa.CallInstruction) { calls++ })
		if calls > 0 {
			accessor = false
		}
		if accessor {
			for _, r := range ir.Returns(f) {
				for i := range r.Results {
					v := ir.NormCell(ir.ReturnResult(r, i))
					e, isE := v.(*ssa.Extract)
					if recv.CommaOk {
						if !isE || e.Tuple != ssa.Value(recv) || e.Index != i {
							accessor = false
						}
					} else if v != ssa.Value(recv) {
						accessor = false
					}
				}
			}
		}
		sites := c.P.Callers(f)
		if accessor && len(sites) > 0 && !c.P.UsedAsValue(f) {
			for _, s := range sites {
				if call, ok := s.Instr.(*ssa.Call); ok {
					out = append(out, respRecv{s.Caller, call})
				}
			}
			continue
		}
		out = append(out, respRecv{f, recv})
	}
	return out
}

// constKey renders a string or integer constant for comparison with another.
func constKey(v ssa.Value) (string, bool) {
	k, ok := v.(*ssa.Const)
	if !ok || k.Value == nil || (k.Value.Kind() != constant.String && k.Value.Kind() != constant.Int) {
		return "", false
	}
	return k.Value.ExactString(), true
}

// sameFieldRead: a and b read the same field of the same base, each directly
// or through a pure getter.
func sameFieldRead(a, b ssa.Value) bool {
	ba, fa, oka := ir.FieldRead(a)
	bb, fb, okb := ir.FieldRead(b)
	return oka && okb && fa != nil && fa == fb && (ba == bb || ir.SameValue(ba, bb))
}

// fieldOriginThroughParam is ir.StructFieldOrigin that also follows a record
// handed to a private one-caller helper (a method of the record type) back to
// the call that produced it.
func fieldOriginThroughParam(v ssa.Value) (*ssa.Call, int, int, bool) {
	if call, ri, fk, ok := ir.StructFieldOrigin(v); ok {
		return call, ri, fk, true
	}
	var base ssa.Value
	field := 0
	switch x := v.(type) {
	case *ssa.Field:
		base, field = x.X, x.Field
	case *ssa.UnOp:
		fa, ok := x.X.(*ssa.FieldAddr)
		if !ok {
			return nil, 0, 0, false
		}
		base, field = fa.X, fa.Field
		if al, isAl := base.(*ssa.Alloc); isAl {
			if sts := ir.CellStores(al); len(sts) == 1 {
				base = sts[0].Val
			}
		}
	default:
		return nil, 0, 0, false
	}
	prm, ok := ir.NormCell(base).(*ssa.Parameter)
	if !ok {
		return nil, 0, 0, false
	}
	p := ir.ProgOf(prm.Parent())
	if p == nil {
		return nil, 0, 0, false
	}
	switch src := p.Canon(prm).(type) {
	case *ssa.Call:
		if src.Call.StaticCallee() != nil && src.Call.Signature().Results().Len() == 1 {
			return src, 0, field, true
		}
	case *ssa.Extract:
		if call, isCall := src.Tuple.(*ssa.Call); isCall {
			return call, src.Index, field, true
		}
	}
	return nil, 0, 0, false
}
