package props

import "jrpcvet/internal/chk"

func init() {
	register(&Def{
		ID:          "C15",
		Technique:   "dominance rules in the handler closure built by Wrap (decode → call → decode), error-constant provenance of the input decoders, closure-capture (snapshot) rule for options, condition table of Check's refusals with a reachability evaluation",
		Explanation: "NARROW. Decides only: (D1) in the handler Wrap builds, the reflective call is reached exactly on the input decoder's err == nil edge with the decoder's values, once, and the decoder's error is returned without calling; (D2) every error an input decoder returns is the InvalidParams sentinel or built with code InvalidParams; (D3) results flow through an output decoder that returns only the function's own result values; (D4) no closure of a built handler reads the FuncInfo's options at call time (they are fixed at wrap time), and strictness is derived from the option and the parameter type's DisallowUnknownFields method; (D5) Check returns either a FuncInfo or an error, never neither/both; (D6) each documented refusal has an error return governed by its test, and the variadic refusal is reachable for two-parameter functions. (D7) Request.HasParams is exactly 'the raw parameters are non-empty'. (D8) ReportsError is stored from / under the identity test Out(i) == error type. (D9) package-level tables of the handler package are not keyed by a type's name or a function's code pointer; what Check computed in a FuncInfo is written only while it is built (option setters change their own flag only). Also decided: the FuncInfo option setters store the flag into their receiver on every path and return the receiver. Also decided: UnmarshalParams writes through its target only on the len(params) != 0 edge.",
		NotDecided:  []string{"that the decoded argument equals encoding/json's for every signature and params", "that Check accepts exactly the documented schemes (only the refusals' presence is decided)", "freedom from reflection panics"},
		Assumptions: []string{"reflect and encoding/json semantics"},
		RuleText:    ruleText,
		Run: func(c *chk.Ctx, tier string) {
			c.Clause("C15-D1/D2/D3")
			ruleWrapCallsOnce(c)
			ruleHasParamsIsPresence(c)
			ruleReportsErrorExact(c)
			ruleCacheKeysAreIdentities(c)
			ruleFuncInfoFixedAfterCheck(c)
			ruleSettersMutateReceiver(c)
			ruleDecodeTargets(c)
			ruleOmitTagWholeTag(c)
			ruleUnmarshalParamsErrors(c)
			ruleEmptyParamsUntouched(c)
			ruleTaggedEmbeddedKeepsPosition(c)
			ruleArrayTranslateTotal(c)
			c.Clause("C15-D4")
			ruleWrapSnapshot(c)
			ruleStubsKeepStrictness(c)
			ruleStubDecodesTranslated(c)
			ruleArgumentTypeNilGuarded(c)
			c.Clause("C15-D5/D6")
			ruleCheckRefusals(c)
		},
	})
	register(&Def{
		ID:          "C16",
		Technique:   "dominance of success returns by the length equality, per-call allocation and index-provenance rules in the generated caller, presence-governed decode in Obj",
		Explanation: "NARROW. Decides only: (D1) Positional enables strict fields on its success path, the argument struct is built only when the number of names equals the arity, and the generated caller allocates its argument slice per call and passes field i as argument i+1; (D2) in Args.UnmarshalJSON and the array-to-object translation every successful return after the array parse is governed by len(got) == len(want); (D3) Obj decodes, on the key-present edge only, that key's value into the receiver's own target for the same key. (D4) Positional records exactly the names it was given, and Args.MarshalJSON returns json.Marshal's pair. (D5) a helper that maps a decoding error returns nil only where its argument is nil; the handler package configures json.Decoder with DisallowUnknownFields only. (D6) package-level tables of the handler package are not keyed by a type's name or a function's code pointer.",
		NotDecided:  []string{"element-wise decoding equivalence, null handling, unknown-name rejection (delegated to encoding/json with DisallowUnknownFields)"},
		Assumptions: []string{"reflect.MakeFunc / StructOf semantics"},
		RuleText:    ruleText,
		Run: func(c *chk.Ctx, tier string) {
			c.Clause("C16-D1")
			rulePositional(c)
			rulePositionalNames(c)
			ruleErrorMappersKeepFailure(c, c.M.HandlerPkg, "ERR.propagate")
			ruleDecoderConfiguration(c)
			ruleCacheKeysAreIdentities(c)
			ruleArgsMarshal(c)
			ruleWrapSnapshot(c)
			ruleStubsKeepStrictness(c)
			c.Clause("C16-D2")
			ruleExactLength(c)
			c.Clause("C16-D3")
			ruleObjDecode(c)
			ruleObjDecodeOnlyPresence(c)
			ruleOmitTagConds(c)
		},
	})
}
