package props

import (
	"fmt"
	"golang.org/x/tools/go/ssa"
	"jrpcvet/internal/chk"
	"jrpcvet/internal/ir"
)

func DebugReader(c *chk.Ctx) {
	for _, s := range chanSites(c, "Recv") {
		fmt.Println("RECV", ir.Name(s.fn), s.owners, s.other)
		for _, src := range c.P.SourcesStop(s.recv, func(x ssa.Value) bool {
			if p, ok := x.(*ssa.Parameter); ok {
				fmt.Println("   visit param", p, startParamOwner(c, p))
			}
			return false
		}) {
			fmt.Printf("   src %T %v in %v\n", src, src, src.Parent())
		}
	}
}
