package props

import (
	"fmt"
	"go/token"
	"go/types"
	"os"
	"sort"
	"strings"

	"golang.org/x/tools/go/ssa"

	"jrpcvet/internal/chk"
	"jrpcvet/internal/facts"
	"jrpcvet/internal/ir"
)

// dispatchModel resolves the server's dispatch functions by role.
type dispatchModel struct {
	invoke      *ssa.Function         // calls a Handler-typed value under the semaphore
	handlerCall ssa.CallInstruction   // that call
	invokeSites []ssa.CallInstruction // static calls of invoke (of its task wrapper, when there is one)
	invokeOuter *ssa.Function         // invoke, or the private wrapper that is handed the task, calls invoke and records the outcome in that task
	closure     *ssa.Function         // the dispatch closure: calls invoke and deliver
	prepare     *ssa.Function         // its parent: builds the closure (dispatchLocked)
	deliver     *ssa.Function
	deliverCall ssa.CallInstruction
	responses   *ssa.Function // tasks → jmessages
	numToDo     *ssa.Function // tasks → (int, int)
	checkAssign *ssa.Function // allocates tasks
	setContext  *ssa.Function // stores into used
	barrier     *ssa.Function // waits on the notification barrier
	allocFn     *ssa.Function // the function that allocates tasks (inside checkAssign's region)
	problems    []string
}

func isHandlerSig(c *chk.Ctx, t types.Type) bool {
	h := c.M.Pkg.Pkg.Scope().Lookup("Handler")
	if h == nil {
		return false
	}
	return types.Identical(t.Underlying(), h.Type().Underlying())
}

func isTasksType(c *chk.Ctx, t types.Type) bool {
	sl, ok := t.Underlying().(*types.Slice)
	if !ok {
		return false
	}
	p, ok := sl.Elem().(*types.Pointer)
	return ok && types.Unalias(p.Elem()) == types.Type(c.M.Task)
}

func isJmessagesType(c *chk.Ctx, t types.Type) bool {
	sl, ok := t.Underlying().(*types.Slice)
	if !ok {
		return false
	}
	p, ok := sl.Elem().(*types.Pointer)
	return ok && types.Unalias(p.Elem()) == types.Type(c.M.Jmessage)
}

func resolveDispatch(c *chk.Ctx) *dispatchModel {
	d := &dispatchModel{}
	bad := func(f string, a ...any) { d.problems = append(d.problems, fmt.Sprintf(f, a...)) }
	for _, f := range pkgFuncs(c, c.M.Pkg) {
		if ir.RecvNamed(f) != c.M.Server {
			continue
		}
		ir.Calls(f, func(ci ssa.CallInstruction) {
			cc := ci.Common()
			if cc.IsInvoke() || cc.StaticCallee() != nil {
				return
			}
			if _, isB := cc.Value.(*ssa.Builtin); isB {
				return
			}
			if isHandlerSig(c, cc.Value.Type()) {
				if d.invoke != nil {
					bad("handlers are called at more than one site: %s and %s", c.P.Pos(d.handlerCall.Pos()), c.P.Pos(ci.Pos()))
				}
				d.invoke, d.handlerCall = f, ci
			}
		})
	}
	if d.invoke == nil {
		bad("no server-side call of a Handler value found")
		return d
	}
	d.invokeOuter = d.invoke
	for _, s := range c.P.Callers(d.invoke) {
		d.invokeSites = append(d.invokeSites, s.Instr)
	}
	// a wrapper `func (s *Server) run(t *task) { t.val, t.err = s.invoke(ctx(t), t.m, t.hreq) }`:
	// its calls are the invocation sites
	if len(d.invokeSites) == 1 {
		site := d.invokeSites[0]
		w := site.Parent()
		call, isCall := site.(*ssa.Call)
		var tp *ssa.Parameter
		for _, p := range w.Params {
			if pt, ok := p.Type().(*types.Pointer); ok && types.Unalias(pt.Elem()) == types.Type(c.M.Task) {
				tp = p
			}
		}
		// (a straight-line wrapper only: one that also decides something after the call — releases
		// the barrier, logs on error — is a site of its own)
		if isCall && tp != nil && len(w.Blocks) == 1 && w.Parent() == nil && !ir.Exported(w) && !c.P.UsedAsValue(w) && w.Signature.Results().Len() == 0 && len(c.P.Callers(w)) > 0 {
			stored := map[*types.Var]bool{}
			for _, r := range *call.Referrers() {
				if e, isE := r.(*ssa.Extract); isE {
					for _, r2 := range *e.Referrers() {
						if st, isSt := r2.(*ssa.Store); isSt {
							if fa, isFA := st.Addr.(*ssa.FieldAddr); isFA && fa.X == ssa.Value(tp) && ir.FieldOwner(fa) == c.M.Task {
								stored[ir.FieldVar(fa)] = true
							}
						}
					}
				}
			}
			if stored[c.M.TVal] && stored[c.M.TErr] {
				d.invokeOuter = w
				d.invokeSites = nil
				for _, s := range c.P.Callers(w) {
					d.invokeSites = append(d.invokeSites, s.Instr)
				}
			}
		}
	}
	// signature roles: the response builder (tasks → message list) and the counter (tasks → int, int)
	tasksFirst := func(sig *types.Signature) bool {
		if sig.Recv() != nil {
			return isTasksType(c, sig.Recv().Type())
		}
		return sig.Params().Len() >= 1 && isTasksType(c, sig.Params().At(0).Type())
	}
	for _, f := range pkgFuncs(c, c.M.Pkg) {
		if f.Parent() != nil || !tasksFirst(f.Signature) {
			continue
		}
		sig := f.Signature
		if sig.Results().Len() == 1 && isJmessagesType(c, sig.Results().At(0).Type()) {
			d.responses = f
		}
		// or the message list together with bookkeeping for the delivery, as one small struct
		if sig.Results().Len() == 1 {
			if st, ok := sig.Results().At(0).Type().Underlying().(*types.Struct); ok {
				nMsgs := 0
				for i := 0; i < st.NumFields(); i++ {
					if isJmessagesType(c, st.Field(i).Type()) {
						nMsgs++
					}
				}
				if nMsgs == 1 {
					d.responses = f
				}
			}
		}
		if sig.Results().Len() == 2 && sig.Results().At(0).Type().String() == "int" && sig.Results().At(1).Type().String() == "int" {
			d.numToDo = f
		}
		// or the two counts as one small struct
		if sig.Results().Len() == 1 {
			if st, ok := sig.Results().At(0).Type().Underlying().(*types.Struct); ok && st.NumFields() == 2 && st.Field(0).Type().String() == "int" && st.Field(1).Type().String() == "int" {
				d.numToDo = f
			}
		}
	}
	// the delivery call: the call that is handed the response builder's result
	if d.responses != nil {
		for _, f := range pkgFuncs(c, c.M.Pkg) {
			ir.Calls(f, func(ci ssa.CallInstruction) {
				g := ci.Common().StaticCallee()
				if g == nil || !c.P.InRepo[g] || g == d.responses {
					return
				}
				rt := d.responses.Signature.Results().At(0).Type()
				for _, a := range ci.Common().Args {
					if !isJmessagesType(c, a.Type()) && !types.Identical(a.Type(), rt) {
						continue
					}
					for _, src := range c.P.SourcesStop(a, func(v ssa.Value) bool {
						_, isCall := v.(*ssa.Call)
						_, isParam := v.(*ssa.Parameter)
						return isCall || isParam
					}) {
						if call, ok := src.(*ssa.Call); ok && call.Call.StaticCallee() == d.responses {
							if d.deliverCall != nil && d.deliverCall != ci {
								bad("the response builder's result is delivered at more than one site: %s and %s", c.P.Pos(d.deliverCall.Pos()), c.P.Pos(ci.Pos()))
							}
							d.deliver, d.deliverCall = g, ci
						}
					}
				}
			})
		}
	}
	// the batch runner (historically a closure): the smallest region from which every handler
	// invocation is reached and in which the reply is delivered
	if d.deliverCall != nil && len(d.invokeSites) > 0 {
		fs := []*ssa.Function{d.deliverCall.Parent()}
		for _, s := range d.invokeSites {
			fs = append(fs, s.Parent())
		}
		d.closure = c.P.RegionRoot(fs...)
	}
	for _, f := range pkgFuncs(c, c.M.Pkg) {
		ir.Instrs(f, func(ins ssa.Instruction) {
			switch x := ins.(type) {
			case *ssa.Alloc:
				if x.Heap && types.Unalias(x.Type().(*types.Pointer).Elem()) == types.Type(c.M.Task) {
					d.allocFn = f
				}
			case *ssa.MapUpdate:
				if chk.LoadsField(x.Map, c.M.SUsed) {
					d.setContext = f
				}
			case *ssa.Call:
				if id, ok := wgCall(x, "Wait"); ok && id == chk.PathOfVar(c.M.Server, c.M.SNbar).String() {
					d.barrier = f
				}
			}
		})
	}
	// the check/assign function: the smallest region that both creates the tasks and reserves their ids
	if d.allocFn != nil && d.setContext != nil {
		d.checkAssign = c.P.RegionRoot(d.allocFn, d.setContext)
	}
	// the prepare function: the smallest region that checks/assigns, counts and takes the barrier
	// (the barrier wait may be inlined into it)
	if d.checkAssign != nil && d.barrier != nil && d.numToDo != nil {
		var fs []*ssa.Function
		inlineBarrier := false
		for _, g := range []*ssa.Function{d.checkAssign, d.numToDo} {
			for _, s := range c.P.Callers(g) {
				if !c.P.InExt(g, s.Caller) {
					fs = append(fs, s.Caller)
					if s.Caller == d.barrier {
						inlineBarrier = true
					}
				}
			}
		}
		if inlineBarrier {
			fs = append(fs, d.barrier)
		} else {
			for _, s := range c.P.Callers(d.barrier) {
				if !c.P.InExt(d.barrier, s.Caller) {
					fs = append(fs, s.Caller)
				}
			}
		}
		if len(fs) > 0 {
			d.prepare = c.P.RegionRoot(fs...)
		}
	}
	for name, f := range map[string]*ssa.Function{"dispatch closure": d.closure, "prepare": d.prepare, "deliver": d.deliver, "responses": d.responses,
		"numToDo": d.numToDo, "checkAssign": d.checkAssign, "setContext": d.setContext, "barrier": d.barrier} {
		if f == nil {
			bad("role %q not resolved", name)
		}
	}
	return d
}

func dispatchOrUndecided(c *chk.Ctx, rule string) *dispatchModel {
	d := resolveDispatch(c)
	for _, p := range d.problems {
		c.Undecided(rule, nil, "dispatch roles: "+p, 0, "%s", p)
	}
	if len(d.problems) != 0 {
		return nil
	}
	return d
}

// taskOf: v is a load of a field of a task; returns the (normalised) task value and the field.
func taskFieldLoad(c *chk.Ctx, v ssa.Value) (task ssa.Value, f *types.Var, ok bool) {
	if v == nil {
		return nil, nil, false
	}
	v = c.P.Canon(v)
	// (a pure getter of the task: t.getErr() reads t's field)
	if call, isCall := v.(*ssa.Call); isCall {
		if ld, isLoad := ir.GetterLoad(v).(*ssa.UnOp); isLoad && ssa.Value(ld) != v {
			if fa, isFA := ld.X.(*ssa.FieldAddr); isFA && ir.FieldOwner(fa) == c.M.Task && len(call.Call.Args) == 1 {
				return c.P.Canon(call.Call.Args[0]), ir.FieldVar(fa), true
			}
		}
	}
	u, isU := v.(*ssa.UnOp)
	if !isU || u.Op != token.MUL {
		return nil, nil, false
	}
	fa, isFA := u.X.(*ssa.FieldAddr)
	if !isFA || ir.FieldOwner(fa) != c.M.Task {
		return nil, nil, false
	}
	return c.P.Canon(fa.X), ir.FieldVar(fa), true
}

// condsForSite: branch outcomes known at instruction ins; when ins is inside
// a goroutine closure started by exactly one go statement, the outcomes at
// that go statement are added (the closure runs only if the go was reached).
func condsForSite(c *chk.Ctx, ins ssa.Instruction) []ir.Cond {
	out := ir.CondsAt(ins.Block())
	f := ins.Parent()
	for f.Parent() != nil {
		gos := c.P.GoSites(f)
		sites := c.P.Callers(f)
		if len(gos) == 1 && len(sites) == 1 {
			out = append(out, ir.CondsAt(gos[0].Block())...)
			f = gos[0].Parent()
			continue
		}
		break
	}
	return out
}

func isErrNilOfTask(c *chk.Ctx, cd ir.Cond, task ssa.Value) (known bool, isNil bool) {
	x, eq, ok := ir.NilCompare(cd.V)
	if !ok {
		return false, false
	}
	t, f, ok := taskFieldLoad(c, x)
	if !ok || f != c.M.TErr || (task != nil && t != task) {
		return false, false
	}
	return true, eq == cd.Truth
}

// ---------------------------------------------------------------------------
// C01-D1/D2: one invocation per runnable task, into its own slot

func ruleInvokeSites(c *chk.Ctx, d *dispatchModel) {
	var siteBlocks []*ssa.BasicBlock
	var taskDef ssa.Value
	for _, s := range d.invokeSites {
		f := s.Parent()
		args := s.Common().Args
		// operands: receiver, ctx, handler, request
		var task ssa.Value
		ok := true
		want := []*types.Var{c.M.TCtx, c.M.TM, c.M.THreq}
		taskArg := invokeTaskArg(c, s)
		switch {
		case taskArg != nil:
			// the task itself is handed over: inside the invoke function handler and request
			// must be read from that very parameter
			task = c.P.Canon(taskArg)
			hc := d.handlerCall.Common()
			t1, f1, ok1 := taskFieldLoad(c, hc.Value)
			var t2 ssa.Value
			var f2 *types.Var
			ok2 := false
			if len(hc.Args) >= 2 {
				t2, f2, ok2 = taskFieldLoad(c, hc.Args[1])
			}
			_, isParam := t1.(*ssa.Parameter)
			ok = ok1 && ok2 && f1 == c.M.TM && f2 == c.M.THreq && t1 == t2 && (t1 == task || (isParam && (t1.Parent() == d.invoke || t1.Parent() == d.invokeOuter)))
		case len(args) == 4:
			for i, a := range args[1:] {
				t, fv, isTask := taskFieldLoad(c, a)
				if !isTask || fv != want[i] {
					ok = false
					break
				}
				if task == nil {
					task = t
				} else if t != task {
					ok = false
				}
			}
		default:
			c.Undecided("PAIR.invoke", f, "invoke operands", s.Pos(), "unexpected invoke arity %d", len(args))
			continue
		}
		// results stored into val/err of the same task
		call, _ := s.(*ssa.Call)
		stored := map[*types.Var]bool{}
		if call != nil && ok {
			for _, r := range *call.Referrers() {
				e, isE := r.(*ssa.Extract)
				if !isE {
					continue
				}
				for _, r2 := range *e.Referrers() {
					st, isSt := r2.(*ssa.Store)
					if !isSt {
						continue
					}
					fa, isFA := st.Addr.(*ssa.FieldAddr)
					if !isFA || ir.FieldOwner(fa) != c.M.Task || c.P.Canon(fa.X) != task {
						ok = false
						continue
					}
					fv := ir.FieldVar(fa)
					if (e.Index == 0 && fv == c.M.TVal) || (e.Index == 1 && fv == c.M.TErr) {
						stored[fv] = true
					} else {
						ok = false
					}
				}
			}
		}
		if kv, ke, isRec := outcomeRecord(d.invoke); call != nil && ok && isRec {
			// the outcome comes back as one record: its two fields go to val/err of the same task
			for k, want := range map[int]*types.Var{kv: c.M.TVal, ke: c.M.TErr} {
				for _, rd := range recordFieldReads(call, k) {
					for _, r2 := range *rd.Referrers() {
						st, isSt := r2.(*ssa.Store)
						if !isSt {
							continue
						}
						fa, isFA := st.Addr.(*ssa.FieldAddr)
						if !isFA || ir.FieldOwner(fa) != c.M.Task || c.P.Canon(fa.X) != task || ir.FieldVar(fa) != want {
							ok = false
							continue
						}
						stored[want] = true
					}
				}
			}
		}
		if call != nil && ok && taskArg != nil && d.invokeOuter.Signature.Results().Len() == 0 {
			// the invoke function is given the task and records the outcome itself: every
			// store into a task's val/err there goes to that very parameter
			c.P.ExtInstrs(d.invokeOuter, func(ins ssa.Instruction) {
				st, isSt := ins.(*ssa.Store)
				if !isSt {
					return
				}
				fa, isFA := st.Addr.(*ssa.FieldAddr)
				if !isFA || ir.FieldOwner(fa) != c.M.Task {
					return
				}
				fv := ir.FieldVar(fa)
				if fv != c.M.TVal && fv != c.M.TErr {
					return
				}
				base := c.P.Canon(fa.X)
				prm, isParam := base.(*ssa.Parameter)
				if base == task || (isParam && (prm.Parent() == d.invoke || prm.Parent() == d.invokeOuter)) {
					stored[fv] = true
				} else {
					ok = false
				}
			})
		}
		ok = ok && stored[c.M.TVal] && stored[c.M.TErr]
		c.Check(ok, "PAIR.invoke", f, "own slot", s.Pos(), "context, handler and request are read from, and result and error written to, the same task value",
			"the handler invocation does not read ctx/handler/request from, and write val/err to, one and the same task: a result could land in another member's slot")
		// guarded by t.err == nil in every context through which the site is reached
		guarded := c.P.AllContexts(s, nil, func(cs []ir.Cond) bool {
			for _, cd := range cs {
				if known, isNil := isErrNilOfTask(c, cd, nil); known && isNil {
					return true
				}
			}
			return false
		})
		if !guarded && task != nil {
			// or the task was picked on an earlier branch and put aside in a variable (the last
			// runnable one, run after the loop): every value that variable is given — other than
			// nil — is assigned on an err == nil edge
			guarded = assignedUnderErrNil(c, task)
		}
		c.Check(guarded, "PAIR.invoke", f, "only runnable tasks", s.Pos(), "invocation is reached only on the err == nil edge of the same task",
			"a task that already failed validation (err != nil) can reach the handler invocation")
		// the site's anchors in the dispatch closure: the instructions of the closure through
		// which it is reached (the call itself, a go statement, or a helper call)
		loopFn := taskLoopFunc(c, d)
		var anchors func(at ssa.Instruction, depth int)
		anchors = func(at ssa.Instruction, depth int) {
			if at.Parent() == loopFn {
				siteBlocks = append(siteBlocks, at.Block())
				return
			}
			if depth > 5 {
				return
			}
			for _, cs := range c.P.Callers(at.Parent()) {
				anchors(cs.Instr, depth+1)
			}
		}
		anchors(s, 0)
		if task != nil {
			taskDef = task
		}
	}
	// at most one invocation per iteration: any path from one anchor to another (or back to
	// itself) passes the header of the loop over the tasks
	_ = taskDef
	if len(siteBlocks) >= 1 {
		var hdr *ssa.BasicBlock
		for _, a := range siteBlocks {
			if h := loopHeaderOf(a); h != nil && hdr == nil {
				hdr = h
			}
		}
		excl := true
		for i, a := range siteBlocks {
			// an anchor on a path that leaves the loop (break) has no header of its own but must
			// still be inside the loop's dominance region
			if h := loopHeaderOf(a); (h != nil && h != hdr) || (h == nil && hdr != nil && !hdr.Dominates(a)) {
				// (two consecutive loops that share one index variable — the second goes on where
				// the first stopped — visit every task at most once between them)
				if !(h != nil && hdr != nil && (continuesIndex(hdr, h) || continuesIndex(h, hdr))) {
					excl = false
				}
			}
			ha := loopHeaderOf(a)
			if ha == nil {
				ha = hdr
			}
			for j, b := range siteBlocks {
				hb := loopHeaderOf(b)
				if hb == nil {
					hb = hdr
				}
				if i != j && (a == b || reachesAvoiding(a, b, ha, hb)) {
					excl = false
				}
			}
			if ha != nil && reachesWithout(a, a, ha) {
				excl = false
			}
		}
		// the task that is run on the dispatching goroutine itself is the last one to be
		// started: once a handler has been invoked synchronously no goroutine for another
		// task of the batch is started any more — unless the synchronous invocation is chosen
		// by a count or index test (it is then the last by that count), not by a flag
		if loopFn := taskLoopFunc(c, d); loopFn != nil {
			var syncBlocks, goBlocks []*ssa.BasicBlock
			for _, s := range d.invokeSites {
				var up func(at ssa.Instruction, depth int)
				up = func(at ssa.Instruction, depth int) {
					if at.Parent() == loopFn {
						if _, isGo := at.(*ssa.Go); isGo {
							goBlocks = append(goBlocks, at.Block())
						} else {
							syncBlocks = append(syncBlocks, at.Block())
						}
						return
					}
					if depth > 5 {
						return
					}
					for _, cs := range c.P.Callers(at.Parent()) {
						up(cs.Instr, depth+1)
					}
				}
				up(s, 0)
			}
			late := ""
			if os.Getenv("JRPCVET_DEBUG") != "" {
				fmt.Fprintf(os.Stderr, "GO.nowait last-started: loopFn=%s sync=%d go=%d\n", ir.Name(loopFn), len(syncBlocks), len(goBlocks))
			}
			for _, a := range syncBlocks {
				for _, b := range goBlocks {
					if a != b && !reachesWithout(a, b, nil) {
						continue
					}
					counted := false
					common := map[ir.Cond]bool{}
					for _, cd := range ir.NormConds(ir.CondsAt(b)) {
						common[ir.Cond{V: cd.V, Truth: cd.Truth}] = true
					}
					for _, cd := range ir.NormConds(ir.CondsAt(a)) {
						if common[ir.Cond{V: cd.V, Truth: cd.Truth}] {
							continue // (the loop's own bound, the err == nil test: shared with the go site)
						}
						if x, y, _, isRel := ir.Rel(cd); isRel {
							bx, okx := x.Type().Underlying().(*types.Basic)
							by, oky := y.Type().Underlying().(*types.Basic)
							if okx && oky && bx.Info()&types.IsInteger != 0 && by.Info()&types.IsInteger != 0 {
								counted = true
							}
						}
					}
					if !counted {
						late = c.P.Pos(a.Instrs[0].Pos())
					}
				}
			}
			c.Check(late == "", "GO.nowait", d.closure, "the task run in place is the last to be started", d.closure.Pos(), "no goroutine for another task is started after a handler was invoked synchronously (or the synchronous one is picked by a count)", "after the synchronous handler invocation at "+late+" the loop goes on to start other tasks of the batch: they are not started until that handler has returned, although slots are free — and a notification among them keeps the barrier raised for the whole duration")
		}
		c.Check(excl, "PAIR.invoke", d.closure, "at most one invocation per task", siteBlocks[0].Instrs[0].Pos(), fmt.Sprintf("the %d places from which a handler invocation is reached are mutually exclusive within one iteration of the task loop", len(siteBlocks)),
			"two handler invocations can be reached for the same task in one iteration")
	} else {
		c.Undecided("PAIR.invoke", d.closure, "at most one invocation per task", 0, "no invocation is reached from the dispatch closure")
	}
	c.Floor("PAIR.invoke", 3, "own slot, runnable, exclusivity (per invocation site)")
}

// C01-D1 (agreement): the counter that decides "last one runs inline" counts
// exactly the tasks with err == nil, and the notification count those that
// are additionally notifications.
func ruleNumToDo(c *chk.Ctx, d *dispatchModel) {
	f := d.numToDo
	// find increments: BinOp ADD with const 1 feeding a phi that reaches a Return
	type inc struct {
		b     *ssa.BinOp
		index int
	}
	var incs []inc
	resultIndex := func(v ssa.Value) int {
		// which result does v flow to (through phis / named result cells)?
		seen := map[ssa.Value]bool{}
		var walk func(x ssa.Value) int
		walk = func(x ssa.Value) int {
			if seen[x] || x.Referrers() == nil {
				return -1
			}
			seen[x] = true
			for _, r := range *x.Referrers() {
				switch y := r.(type) {
				case *ssa.Return:
					for i, res := range y.Results {
						if res == x {
							return i
						}
					}
				case *ssa.Phi:
					if k := walk(y); k >= 0 {
						return k
					}
				case *ssa.Store:
					if al, ok := y.Addr.(*ssa.Alloc); ok && y.Val == x {
						for _, ld := range ir.CellLoads(al) {
							if k := walk(ld); k >= 0 {
								return k
							}
						}
					}
					// a field of the result struct
					if fa, ok := y.Addr.(*ssa.FieldAddr); ok && y.Val == x {
						if _, isAl := fa.X.(*ssa.Alloc); isAl {
							return fa.Field
						}
					}
				}
			}
			return -1
		}
		return walk(v)
	}
	ir.Instrs(f, func(ins ssa.Instruction) {
		if b, ok := ins.(*ssa.BinOp); ok && b.Op == token.ADD {
			if k, isC := ir.ConstInt(b.Y); isC && k == 1 {
				if idx := resultIndex(b); idx >= 0 {
					incs = append(incs, inc{b, idx})
				}
			}
		}
	})
	got := map[int]bool{}
	for _, in := range incs {
		var kinds []string
		keep := func(cd ir.Cond) bool {
			if known, _ := isErrNilOfTask(c, cd, nil); known {
				return true
			}
			if call, ok := cd.V.(*ssa.Call); ok {
				if g := call.Call.StaticCallee(); g != nil && isRequestNotificationPred(c, g) {
					return true
				}
			}
			return false
		}
		conds := ir.CondsAt(in.b.Block())
		if alts := expandPredicateHelpersKeep(c, conds, 0, keep); len(alts) == 1 {
			conds = ir.NormConds(alts[0])
		}
		for _, cd := range conds {
			if known, isNil := isErrNilOfTask(c, cd, nil); known {
				if isNil {
					kinds = append(kinds, "err==nil")
				} else {
					kinds = append(kinds, "err!=nil")
				}
				continue
			}
			if call, ok := cd.V.(*ssa.Call); ok {
				if g := call.Call.StaticCallee(); g != nil && isRequestNotificationPred(c, g) {
					if cd.Truth {
						kinds = append(kinds, "notification")
					} else {
						kinds = append(kinds, "¬notification")
					}
					continue
				}
			}
			if _, ok := cd.V.(*ssa.BinOp); ok && isLoopCond(cd) {
				continue
			}
			kinds = append(kinds, "other")
		}
		pred := strings.Join(kinds, "∧")
		switch in.index {
		case 0:
			c.Check(pred == "err==nil", "TABLE.count", f, "runnable count predicate", in.b.Pos(), "first count incremented exactly when err == nil (the complement of the dispatcher's skip predicate)",
				"the count of tasks to run is incremented under ["+pred+"], not exactly err == nil: the dispatcher's inline/last decision disagrees with its skip test")
		case 1:
			ok := pred == "notification∧err==nil" || pred == "err==nil∧notification"
			c.Check(ok, "TABLE.count", f, "notification count predicate", in.b.Pos(), "second count incremented exactly when err == nil ∧ IsNotification()",
				"the notification count is incremented under ["+pred+"], not exactly err == nil ∧ notification: the barrier count would disagree with the handlers that signal it")
		}
		got[in.index] = true
	}
	if !got[0] || !got[1] {
		c.Undecided("TABLE.count", f, "count increments", f.Pos(), "could not find both counter increments")
	}
}

func isLoopCond(cd ir.Cond) bool {
	bo, ok := cd.V.(*ssa.BinOp)
	if !ok {
		return false
	}
	if bo.Op != token.LSS {
		return false
	}
	_, isLen := ir.LenOf(bo.Y)
	return isLen
}

// isRequestNotificationPred: (*Request).IsNotification-like: a Request method
// returning bool that reads the id field.
func isRequestNotificationPred(c *chk.Ctx, g *ssa.Function) bool {
	if ir.RecvNamed(g) != c.M.Request || g.Signature.Results().Len() != 1 || g.Signature.Params().Len() != 0 {
		return false
	}
	if g.Signature.Results().At(0).Type().String() != "bool" {
		return false
	}
	reads := false
	ir.Instrs(g, func(ins ssa.Instruction) {
		if fa, ok := ins.(*ssa.FieldAddr); ok && ir.FieldVar(fa) == c.M.QID {
			reads = true
		}
	})
	// directly or through a private predicate of the request (`!r.hasID()`): true exactly when the id is nil
	inExt := reads
	c.P.ExtInstrs(g, func(ins ssa.Instruction) {
		if fa, ok := ins.(*ssa.FieldAddr); ok && ir.FieldVar(fa) == c.M.QID {
			inExt = true
		}
	})
	if !inExt {
		return false
	}
	atom := func(v ssa.Value) (string, bool, bool) {
		if x, eq, ok := ir.NilCompare(v); ok && chk.LoadsField(ir.NormCell(x), c.M.QID) {
			return "idnil", !eq, true
		}
		return "", false, false
	}
	t, ok1 := c.P.EvalBool(g, atom, map[string]bool{"idnil": true})
	f, ok2 := c.P.EvalBool(g, atom, map[string]bool{"idnil": false})
	return ok1 && ok2 && t && !f
}

// C01-D3: barrier before reply; exactly one delivery.
func ruleDeliverAfterJoin(c *chk.Ctx, d *dispatchModel) {
	cl := d.closure
	// the WaitGroup waited before deliver
	var wait *ssa.Call
	c.P.ExtInstrs(cl, func(ins ssa.Instruction) {
		if call, ok := ins.(*ssa.Call); ok {
			// the batch's own group: a local, or a field of a per-batch helper value — anything
			// but the server's lifetime group and the notification barrier
			if id, ok := wgCall(call, "Wait"); ok && id != chk.PathOfVar(c.M.Server, c.M.SWg).String() && id != chk.PathOfVar(c.M.Server, c.M.SNbar).String() && c.P.IDominates(call, d.deliverCall) {
				wait = call
			}
		}
	})
	if wait == nil {
		c.Fail("PAIR.join", cl, "Wait before delivery", d.deliverCall.Pos(), "the delivery call is not dominated by a Wait on the batch's WaitGroup: the reply could be built while handlers are still running")
	} else {
		id, _ := wgCall(wait, "Wait")
		c.Pass("PAIR.join", cl, "Wait before delivery", d.deliverCall.Pos(), "delivery is dominated by %s.Wait() at %s", id, c.P.Pos(wait.Pos()))
		// every goroutine in the closure that invokes a handler is tracked by that WaitGroup
		for _, gc := range classifyGo(c) {
			if gc.g.Parent() != cl && !c.P.InExt(cl, gc.g.Parent()) {
				continue
			}
			invokes := false
			for _, s := range d.invokeSites {
				if gc.body != nil && c.P.InExt(gc.body, s.Parent()) && gc.body != d.closure {
					invokes = true
				}
			}
			if !invokes {
				continue
			}
			c.Check(gc.kind == "tracked" && gc.wg == id, "PAIR.join", cl, "handler goroutine joined before delivery", gc.g.Pos(),
				"the goroutine that runs the handler is registered with "+id+", which is waited on before delivery",
				"a goroutine that runs a handler is not registered with the WaitGroup waited on before delivery ("+gc.kind+" "+gc.wg+"): the batch's reply can be sent while that handler is still running")
		}
	}
	// exactly one delivery on every path
	n := 0
	ir.Calls(cl, func(ci ssa.CallInstruction) {
		if ci.Common().StaticCallee() == d.deliver {
			n++
		}
	})
	all := ir.AllReturnsDominatedBy(d.deliverCall)
	c.Check(n == 1 && all && !ir.InCycle(d.deliverCall.Block()), "PAIR.join", cl, "exactly one delivery", d.deliverCall.Pos(), "one delivery call, outside any loop, dominating every return",
		fmt.Sprintf("delivery happens %d time(s) / not on every path: a batch could be answered twice or not at all", n))
	// the delivered list is the response builder's result for the closure's task list
	arg := d.deliverCall.Common().Args[1]
	okProv := false
	if call, ok := arg.(*ssa.Call); ok && call.Call.StaticCallee() == d.responses {
		okProv = true
	}
	c.Check(okProv, "PROV.reply", cl, "delivered list", d.deliverCall.Pos(), "the delivered list is the response builder's result", "the delivered list is not the response builder's direct result")
	// the closure runs in a goroutine tracked by the lifetime group (C03-D4) — checked there
}

// C01-D4: reply construction.
func ruleResponses(c *chk.Ctx, d *dispatchModel) {
	f := d.responses
	// the appended message
	var appends []*ssa.Call
	c.P.ExtInstrs(f, func(ins ssa.Instruction) {
		if call, ok := ins.(*ssa.Call); ok {
			if b, isB := call.Call.Value.(*ssa.Builtin); isB && b.Name() == "append" && isJmessagesType(c, call.Type()) {
				appends = append(appends, call)
			}
		}
	})
	if len(appends) != 1 {
		c.Fail("PROV.reply", f, "one append per task", f.Pos(), "%d appends to the response list (want exactly 1, inside the loop)", len(appends))
		return
	}
	ap := appends[0]
	inLoop := false
	for _, a := range anchorsIn(c, ap, f) {
		if ir.InCycle(a.Block()) {
			inLoop = true
		}
	}
	c.Check(inLoop, "PROV.reply", f, "one append per task", ap.Pos(), "single append, inside the loop over tasks", "the append is not inside the loop over tasks")
	// what is appended: a slice literal holding one fresh jmessage
	var msg *ssa.Alloc
	for _, src := range c.P.Sources(ap.Call.Args[1]) {
		if sl, ok := src.(*ssa.Slice); ok {
			_ = sl
		}
	}
	// find the Alloc of jmessage in f (or a private helper of it)
	c.P.ExtInstrs(f, func(ins ssa.Instruction) {
		if al, ok := ins.(*ssa.Alloc); ok && al.Heap && types.Unalias(al.Type().(*types.Pointer).Elem()) == types.Type(c.M.Jmessage) {
			msg = al
		}
	})
	if msg == nil {
		c.Undecided("PROV.reply", f, "response message", f.Pos(), "no fresh response message allocated in the response builder")
		return
	}
	// stores into its fields
	var task ssa.Value
	check := func(field *types.Var, name string, accept func(v ssa.Value) (bool, string)) {
		n := 0
		for _, r := range *msg.Referrers() {
			fa, ok := r.(*ssa.FieldAddr)
			if !ok || ir.FieldVar(fa) != field {
				continue
			}
			for _, r2 := range *fa.Referrers() {
				st, ok := r2.(*ssa.Store)
				if !ok || st.Addr != ssa.Value(fa) {
					continue
				}
				n++
				ok2, why := accept(st.Val)
				c.Check(ok2, "PROV.reply", f, "response "+name, st.Pos(), why, "response field "+name+" is not taken from the iteration's own task ("+why+")")
			}
		}
		if n == 0 {
			c.Fail("PROV.reply", f, "response "+name, msg.Pos(), "response field %s is never set", name)
		}
	}
	fromTask := func(want ...*types.Var) func(v ssa.Value) (bool, string) {
		return func(v ssa.Value) (bool, string) {
			if k, ok := v.(*ssa.Const); ok && k.IsNil() {
				return true, "nil"
			}
			all := true
			var seen []string
			for _, src := range c.P.SourcesStop(v, func(x ssa.Value) bool {
				if _, _, ok := taskFieldLoad(c, x); ok {
					return true
				}
				return chk.LoadsField(x, c.M.QID)
			}) {
				t, fv, ok := taskFieldLoad(c, src)
				if !ok {
					// request id: load of Request.id from the task's request
					if u, isU := src.(*ssa.UnOp); isU {
						if fa, isFA := u.X.(*ssa.FieldAddr); isFA && ir.FieldVar(fa) == c.M.QID {
							if t2, fv2, ok2 := taskFieldLoad(c, fa.X); ok2 && fv2 == c.M.THreq {
								t, fv, ok = t2, c.M.QID, true
							}
						}
					}
				}
				if !ok {
					if k, isC := src.(*ssa.Const); isC && k.Value != nil && strings.Contains(k.Value.String(), "null") {
						seen = append(seen, "literal null")
						continue
					}
					if k, isC := src.(*ssa.Const); isC && k.IsNil() {
						continue // "no such member" from an outcome helper
					}
					all = false
					seen = append(seen, fmt.Sprintf("%T", src))
					continue
				}
				match := false
				for _, w := range want {
					if fv == w {
						match = true
					}
				}
				if !match {
					all = false
				}
				if task == nil {
					task = t
				} else if t != task {
					all = false
					seen = append(seen, "another task")
				}
				seen = append(seen, "task."+fv.Name())
			}
			return all, "sources: " + strings.Join(seen, ", ")
		}
	}
	check(c.M.JID, "id", fromTask(c.M.QID))
	check(c.M.JBatch, "batch flag", fromTask(c.M.TBatch))
	check(c.M.JR, "result", fromTask(c.M.TVal))
	// E: from task.err (type assertion) or a fresh Error built from it
	check(c.M.JE, "error", func(v ssa.Value) (bool, string) {
		for _, src := range c.P.SourcesStop(v, func(x ssa.Value) bool { _, _, ok := taskFieldLoad(c, x); return ok }) {
			if _, fv, ok := taskFieldLoad(c, src); ok && fv == c.M.TErr {
				continue
			}
			if al, ok := src.(*ssa.Alloc); ok && types.Unalias(al.Type().(*types.Pointer).Elem()) == types.Type(c.M.ErrorT) {
				continue
			}
			if k, isC := src.(*ssa.Const); isC && k.IsNil() {
				continue // "no error member" from an outcome helper
			}
			return false, fmt.Sprintf("unexpected source %T", src)
		}
		return true, "task.err by identity, or a fresh Error built from it"
	})
	// skip predicate: the paths that bypass the append within an iteration
	ruleSkipPredicate(c, f, ap)
}

// ruleSkipPredicate: in the response builder, an iteration bypasses the
// append exactly when id == nil ∧ code ∉ {ParseError, InvalidRequest}.
func ruleSkipPredicate(c *chk.Ctx, f *ssa.Function, ap *ssa.Call) {
	// loop header: the block with the rangeindex phi that dominates the append
	// (an append made by a helper — a builder type's method — is anchored at the helper's call
	// in the response builder)
	at := ssa.Instruction(ap)
	if ap.Parent() != f {
		if as := anchorsIn(c, ap, f); len(as) == 1 {
			at = as[0]
		}
	}
	var hdr *ssa.BasicBlock
	for b := at.Block(); b != nil; b = b.Idom() {
		if ir.InCycle(b) && len(b.Instrs) > 0 {
			if _, ok := b.Instrs[0].(*ssa.Phi); ok {
				hdr = b
			}
		}
	}
	if hdr == nil {
		c.Undecided("TABLE.skip", f, "skip predicate", ap.Pos(), "loop header not found")
		return
	}
	// the paths of one iteration that bypass the append (in the builder itself, or in the
	// helper whose result is appended), with the branch outcomes taken along each
	avoid := at.Block()
	raw, exits := ir.IterationPathsAvoiding(hdr, avoid)
	var alts [][]ir.Cond
	for _, p := range raw {
		alts = append(alts, expandPredicateHelpers(c, p, 0)...)
	}
	if len(alts) == 0 && exits == 0 && ap.Parent() != f {
		// the helper is called for every task and decides by itself whether to append: the
		// bypasses are its own paths that return without reaching the append
		for _, p := range ir.FunctionPathsAvoiding(ap.Parent(), ap.Block()) {
			alts = append(alts, expandPredicateHelpers(c, p, 0)...)
		}
	}
	if len(alts) != 1 || exits != 0 {
		c.Fail("TABLE.skip", f, "skip predicate", ap.Pos(), "%d paths bypass the append in an iteration and %d leave the loop early (want exactly one bypass: notifications without a reportable error)", len(alts), exits)
		return
	}
	var kinds []string
	for _, cd := range alts[0] {
		kinds = append(kinds, describeSkipCond(c, cd))
	}
	have := map[string]bool{}
	for _, k := range kinds {
		have[k] = true
	}
	ok := have["id==nil"] && have["code!=-32700"] && have["code!=-32600"]
	extra := 0
	for k := range have {
		if k != "id==nil" && k != "code!=-32700" && k != "code!=-32600" && k != "loop" {
			extra++
		}
	}
	c.Check(ok && extra == 0, "TABLE.skip", f, "skip predicate", ap.Pos(), "a task is skipped exactly when its id is absent ∧ ErrorCode ∉ {ParseError, InvalidRequest}",
		"a task is skipped under ["+strings.Join(kinds, " ∧ ")+"], not exactly id absent ∧ code ∉ {-32700, -32600}: notifications could be answered, or calls / invalid members silently dropped")
}

func describeSkipCond(c *chk.Ctx, cd ir.Cond) string {
	if isLoopCond(cd) {
		return "loop"
	}
	if x, eq, ok := ir.NilCompare(cd.V); ok {
		if u, isU := x.(*ssa.UnOp); isU {
			if fa, isFA := u.X.(*ssa.FieldAddr); isFA && ir.FieldVar(fa) == c.M.QID {
				if eq == cd.Truth {
					return "id==nil"
				}
				return "id!=nil"
			}
		}
	}
	if bo, ok := cd.V.(*ssa.BinOp); ok && (bo.Op == token.NEQ || bo.Op == token.EQL) {
		if k, isC := ir.ConstInt(bo.Y); isC {
			if call, isCall := bo.X.(*ssa.Call); isCall && call.Call.StaticCallee() != nil && ir.BaseName(call.Call.StaticCallee()) == "ErrorCode" {
				neq := (bo.Op == token.NEQ) == cd.Truth
				if neq {
					return fmt.Sprintf("code!=%d", k)
				}
				return fmt.Sprintf("code==%d", k)
			}
		}
	}
	return "other(" + cd.V.String() + ")"
}

// invOutcome is one way the invoke function hands back a handler's outcome:
// a (result bytes, error) pair returned to the caller that stores it into the
// task, or — when the invoke function is given the task — the pair it stores
// into the task's val/err itself. conds are the branch outcomes known there.
type invOutcome struct {
	val, err ssa.Value
	at       ssa.Instruction
	conds    []ir.Cond
	// for an outcome taken along one path: what each read of a result variable on that path
	// yielded (the value last stored before it)
	alias map[ssa.Value]ssa.Value
}

// as reports whether pred holds of v, or of what v (a read of a result variable
// on the outcome's path) stands for.
func (o invOutcome) as(v ssa.Value, pred func(ssa.Value) bool) bool {
	if pred(v) {
		return true
	}
	if a, ok := o.alias[v]; ok && a != nil {
		return pred(a)
	}
	return false
}

// outcomeRecord: f returns one struct made of the result bytes and the error
// (`type outcome struct{ val json.RawMessage; err error }`); the field indices.
func outcomeRecord(f *ssa.Function) (kv, ke int, ok bool) {
	if f.Signature.Results().Len() != 1 {
		return 0, 0, false
	}
	st, isSt := f.Signature.Results().At(0).Type().Underlying().(*types.Struct)
	if !isSt || st.NumFields() != 2 {
		return 0, 0, false
	}
	kv, ke = -1, -1
	for i := 0; i < 2; i++ {
		switch st.Field(i).Type().String() {
		case "encoding/json.RawMessage":
			kv = i
		case "error":
			ke = i
		}
	}
	return kv, ke, kv >= 0 && ke >= 0
}

// recordFieldReads lists the values that read field k of the struct a call
// returned: `call.k` directly, or through the local the result was assigned to.
func recordFieldReads(call *ssa.Call, k int) []ssa.Value {
	var out []ssa.Value
	for _, r := range *call.Referrers() {
		switch x := r.(type) {
		case *ssa.Field:
			if x.Field == k {
				out = append(out, x)
			}
		case *ssa.Store:
			al, isAl := x.Addr.(*ssa.Alloc)
			if !isAl || x.Val != ssa.Value(call) || len(ir.CellStores(al)) != 1 {
				continue
			}
			for _, r2 := range *al.Referrers() {
				if fa, isFA := r2.(*ssa.FieldAddr); isFA && fa.Field == k {
					for _, r3 := range *fa.Referrers() {
						if ld, isLd := r3.(*ssa.UnOp); isLd && ld.Op == token.MUL {
							out = append(out, ld)
						}
					}
				}
			}
		}
	}
	return out
}

func invokeOutcomes(c *chk.Ctx, d *dispatchModel) []invOutcome {
	f := d.invoke
	var raw, pathwise []invOutcome
	if f.Signature.Results().Len() == 2 {
		// (a `return h(...)` of a private helper stands for the helper's returns)
		for _, r := range effectiveReturns(c, f, 0) {
			if len(r.Results) != 2 {
				continue
			}
			if r.Parent().Recover != nil && r.Block() == r.Parent().Recover {
				continue // the exit taken after a recovered panic yields no outcome of the handler
			}
			// named results returned at a shared exit: one outcome per path into it, with the
			// values the result variables hold on that path and the branch outcomes along it
			cellOf := func(v ssa.Value) *ssa.Alloc {
				if u, ok := v.(*ssa.UnOp); ok && u.Op == token.MUL {
					if al, ok := u.X.(*ssa.Alloc); ok && len(ir.CellStores(al)) > 1 {
						return al
					}
				}
				return nil
			}
			vc, ec := cellOf(r.Results[0]), cellOf(r.Results[1])
			if vc != nil || ec != nil {
				if paths, ok := ir.PathsTo(r.Parent(), r.Block(), 64); ok && len(paths) > 0 {
					for _, path := range paths {
						o := invOutcome{val: r.Results[0], err: r.Results[1], at: r, conds: ir.NormConds(ir.PathConds(path)), alias: map[ssa.Value]ssa.Value{}}
						cur := map[*ssa.Alloc]ssa.Value{}
						for pi, pb := range path {
							for _, ins := range pb.Instrs {
								switch x := ins.(type) {
								case *ssa.Store:
									if al, ok := x.Addr.(*ssa.Alloc); ok && (al == vc || al == ec) {
										v := x.Val
										if a, isAlias := o.alias[v]; isAlias {
											v = a // `return val, err` writes the variables back to themselves
										}
										// a value chosen on the way into this block: the one of the path's edge
										if phi, isPhi := v.(*ssa.Phi); isPhi && phi.Block() == pb && pi > 0 {
											for k, pred := range pb.Preds {
												if pred == path[pi-1] {
													v = phi.Edges[k]
												}
											}
										}
										cur[al] = v
									}
								case *ssa.UnOp:
									if al, ok := x.X.(*ssa.Alloc); ok && x.Op == token.MUL && (al == vc || al == ec) {
										o.alias[x] = cur[al]
									}
								}
							}
						}
						nilOf := func(al *ssa.Alloc) ssa.Value {
							return ssa.NewConst(nil, al.Type().Underlying().(*types.Pointer).Elem())
						}
						if vc != nil {
							if o.val = cur[vc]; o.val == nil {
								o.val = nilOf(vc)
							}
						}
						if ec != nil {
							if o.err = cur[ec]; o.err == nil {
								o.err = nilOf(ec)
							}
						}
						pathwise = append(pathwise, o)
					}
					continue
				}
			}
			raw = append(raw, invOutcome{val: ir.ReturnResult(r, 0), err: ir.ReturnResult(r, 1), at: r})
		}
	} else if kv, ke, isRec := outcomeRecord(f); isRec {
		// one struct result carrying the bytes and the error
		vals, ok1 := ir.ResultFieldVals(f, 0, kv)
		errs, ok2 := ir.ResultFieldVals(f, 0, ke)
		if ok1 && ok2 && len(vals) == len(errs) {
			zero := func(t types.Type) ssa.Value { return ssa.NewConst(nil, t) }
			st := f.Signature.Results().At(0).Type().Underlying().(*types.Struct)
			for i := range vals {
				o := invOutcome{at: vals[i].Ret}
				if o.val = vals[i].Val; vals[i].Zero {
					o.val = zero(st.Field(kv).Type())
				}
				if o.err = errs[i].Val; errs[i].Zero {
					o.err = zero(st.Field(ke).Type())
				}
				raw = append(raw, o)
			}
		}
	} else {
		// stores into val/err of a task, paired per block
		type pair struct {
			val, err *ssa.Store
		}
		byBlock := map[*ssa.BasicBlock]*pair{}
		var order []*ssa.BasicBlock
		c.P.ExtInstrs(f, func(ins ssa.Instruction) {
			st, ok := ins.(*ssa.Store)
			if !ok {
				return
			}
			fa, ok := st.Addr.(*ssa.FieldAddr)
			if !ok || ir.FieldOwner(fa) != c.M.Task {
				return
			}
			fv := ir.FieldVar(fa)
			if fv != c.M.TVal && fv != c.M.TErr {
				return
			}
			pr := byBlock[st.Block()]
			if pr == nil {
				pr = &pair{}
				byBlock[st.Block()] = pr
				order = append(order, st.Block())
			}
			if fv == c.M.TVal {
				pr.val = st
			} else {
				pr.err = st
			}
		})
		for _, b := range order {
			pr := byBlock[b]
			o := invOutcome{}
			if pr.val != nil {
				o.val, o.at = pr.val.Val, pr.val
			}
			if pr.err != nil {
				o.err, o.at = pr.err.Val, pr.err
			}
			raw = append(raw, o)
		}
	}
	// an error chosen on the way into the block (a phi) is one outcome per way
	var out []invOutcome
	for _, o := range raw {
		blk := o.at.Block()
		if phi, ok := o.err.(*ssa.Phi); ok && phi.Block() == blk {
			for i, e := range phi.Edges {
				v := o.val
				if vp, ok := v.(*ssa.Phi); ok && vp.Block() == blk {
					v = vp.Edges[i]
				}
				out = append(out, invOutcome{val: v, err: e, at: o.at, conds: ir.EdgeConds(blk.Preds[i], blk)})
			}
			continue
		}
		o.conds = ir.CondsAt(blk)
		out = append(out, o)
	}
	return append(out, pathwise...)
}

// C01-D7: a notification handler's error never becomes a response.
func ruleNotificationErrorsDropped(c *chk.Ctx, d *dispatchModel) {
	f := d.invoke
	hcall, _ := d.handlerCall.(*ssa.Call)
	if hcall == nil {
		c.Undecided("PAIR.noteerr", nil, "ruleNotificationErrorsDropped: anchor", 0, "the code this rule is anchored in was not found (hcall == nil)")
		return
	}
	n := 0
	for _, r := range invokeOutcomes(c, d) {
		if r.err == nil {
			continue
		}
		ev := ir.NormCell(r.err)
		fromHandler := false
		for _, src := range c.P.SourcesStop(ev, func(x ssa.Value) bool { return ir.IsExtractOf(x, hcall, 1) }) {
			if ir.IsExtractOf(src, hcall, 1) {
				fromHandler = true
			}
		}
		if !fromHandler {
			continue
		}
		n++
		notNote := false
		for _, cd := range r.conds {
			if call, ok := cd.V.(*ssa.Call); ok && !cd.Truth {
				if g := call.Call.StaticCallee(); g != nil && isRequestNotificationPred(c, g) {
					notNote = true
				}
			}
		}
		c.Check(notNote, "PAIR.noteerr", f, "handler error returned", r.at.Pos(), "the handler's error is returned only on the ¬IsNotification edge",
			"the handler's error is returned also for notifications: a notification whose handler fails with a ParseError/InvalidRequest code would be answered")
	}
	if n == 0 {
		c.Undecided("PAIR.noteerr", f, "handler error returned", f.Pos(), "no return of the handler's error found")
	}
}

// ---------------------------------------------------------------------------
// C06: semaphore

func ruleSemaphore(c *chk.Ctx, d *dispatchModel) {
	f := d.invoke
	ops := semOps(c)
	if ops == nil {
		for _, pr := range c.M.Scoped {
			c.Undecided("ANCHOR", nil, pr, 0, "anchor resolution failed: %s", pr)
		}
		return
	}
	isSem := func(ci ssa.CallInstruction, m string) bool {
		_, ok := ops[m][ci]
		return ok
	}
	var acq *ssa.Call
	ir.Instrs(f, func(ins ssa.Instruction) {
		if call, ok := ins.(*ssa.Call); ok && isSem(call, "Acquire") {
			acq = call
		}
	})
	if acq == nil {
		c.Fail("PAIR.sem", f, "acquire", f.Pos(), "the function that calls handlers does not acquire the server's semaphore")
		return
	}
	sameErr := func(x ssa.Value) bool { return x == ssa.Value(acq) || ir.NormCell(x) == ssa.Value(acq) }
	okDom := ir.InstrDominates(acq, d.handlerCall) && ir.ProvesNil(ir.CondsAt(d.handlerCall.Block()), sameErr)
	c.Check(okDom, "PAIR.sem", f, "handler under a slot", d.handlerCall.Pos(), "the handler call is dominated by the err == nil edge of sem.Acquire", "the handler can run without a successfully acquired semaphore slot (also when the waiter was cancelled)")
	w := ops["Acquire"][acq]
	// every Release in the repository (a call of a one-line wrapper counts as the call it wraps)
	var releases []ssa.CallInstruction
	for ci := range ops["Release"] {
		releases = append(releases, ci)
	}
	sort.Slice(releases, func(i, j int) bool { return releases[i].Pos() < releases[j].Pos() })
	for _, r := range releases {
		g := r.Parent()
		okPlace := g == f
		if !okPlace && g.Parent() == f {
			// closure of f: acceptable only if it is deferred directly in f
			okPlace = true
			for _, s := range c.P.Callers(g) {
				if _, isDefer := s.Instr.(*ssa.Defer); !isDefer || s.Caller != f {
					okPlace = false
				}
			}
			if c.P.UsedAsValue(g) {
				okPlace = false
			}
		}
		wr := ops["Release"][r]
		c.Check(okPlace && wr == w, "PAIR.sem", g, "release site", r.Pos(), fmt.Sprintf("Release(%d) in the acquiring function (or a closure it defers)", wr),
			fmt.Sprintf("semaphore Release(%d) [acquire weight %d] outside the acquiring function's own control flow: the slot could be returned while the handler is still running, or with a different weight", wr, w))
	}
	// on the success edge, every path to the function's exit releases exactly once
	goal := func(i ssa.Instruction) bool {
		switch x := i.(type) {
		case *ssa.Call:
			return isSem(x, "Release")
		case *ssa.Defer:
			// once executed, a deferred Release runs at the function's exit on every path
			// (the defer statement may itself sit on the success branch)
			if isSem(x, "Release") {
				return true
			}
		case *ssa.RunDefers:
			ok := false
			ir.Instrs(f, func(i2 ssa.Instruction) {
				if dfr, isD := i2.(*ssa.Defer); isD && ir.InstrDominates(dfr, x) {
					if isSem(dfr, "Release") {
						ok = true
					}
					for _, g := range calleesOf(c, dfr) {
						ir.Calls(g, func(ci ssa.CallInstruction) {
							if isSem(ci, "Release") && ir.CondsAt(ci.Block()) == nil {
								ok = true
							}
						})
					}
				}
			})
			return ok
		}
		return false
	}
	// start from the first instruction of the success successor
	var succ *ssa.BasicBlock
	ir.Instrs(f, func(i2 ssa.Instruction) {
		iff, ok := i2.(*ssa.If)
		if !ok || succ != nil {
			return
		}
		x, eq, ok := ir.NilCompare(iff.Cond)
		if !ok || !sameErr(x) || !ir.InstrDominates(acq, iff) {
			return
		}
		if eq {
			succ = iff.Block().Succs[0]
		} else {
			succ = iff.Block().Succs[1]
		}
	})
	if succ == nil || len(succ.Instrs) == 0 {
		c.Undecided("PAIR.sem", f, "release on all paths", acq.Pos(), "cannot find the success edge of Acquire")
	} else {
		first := succ.Instrs[0]
		ok := goal(first)
		var at ssa.Instruction
		if !ok {
			ok, at = ir.PathQuery{Goal: goal, CountPanics: false}.MustReach(first)
		}
		where := ""
		if at != nil {
			where = c.P.Pos(at.Pos())
		}
		c.Check(ok, "PAIR.sem", f, "release on all paths", acq.Pos(), "from the success edge of Acquire every path to the function's exit passes a Release (deferred or explicit)",
			"a path from a successful Acquire leaves the function at "+where+" without releasing the slot: the limit shrinks permanently")
		// no release between acquire and the handler call
		early := false
		if ok2, _ := ir.Reaches(first, func(i ssa.Instruction) bool { return i == ssa.Instruction(d.handlerCall.(*ssa.Call)) }, func(i ssa.Instruction) bool {
			if call, isC := i.(*ssa.Call); isC && isSem(call, "Release") {
				early = true
				return true
			}
			return false
		}); !ok2 || early {
			c.Fail("PAIR.sem", f, "slot held during the handler", d.handlerCall.Pos(), "a Release can happen between Acquire and the handler call")
		} else {
			c.Pass("PAIR.sem", f, "slot held during the handler", d.handlerCall.Pos(), "no Release on any path between Acquire and the handler call")
		}
	}
	// D3: size
	ruleSemSize(c)
	c.Floor("PAIR.sem", 5, "handler under slot, release site, release on all paths, slot held, size")
}

func calleesOf(c *chk.Ctx, ci ssa.CallInstruction) []*ssa.Function {
	gs, _ := c.P.Callees(ci)
	return gs
}

// semOps lists the Acquire and Release operations on the server's semaphore
// with their weights (-1 when not constant). With the semaphore a field of
// Server these are the calls whose receiver is a load of that field; when it is
// kept inside a helper type instead, the root package must construct exactly
// one semaphore, and then every Acquire/Release in the package operates on it.
// A call of a wrapper — a function whose body performs exactly one such
// operation, unconditionally, and (for Acquire) returns its result — counts as
// the operation itself at the wrapper's call sites.
func semOps(c *chk.Ctx) map[string]map[ssa.CallInstruction]int64 {
	const wt = "(*golang.org/x/sync/semaphore.Weighted)."
	if c.M.SSem == nil && len(semConstructions(c)) != 1 {
		return nil
	}
	out := map[string]map[ssa.CallInstruction]int64{"Acquire": {}, "Release": {}}
	argIdx := map[string]int{"Acquire": 2, "Release": 1}
	for _, m := range []string{"Acquire", "Release"} {
		direct := map[*ssa.Function][]ssa.CallInstruction{}
		for _, g := range c.P.Funcs {
			if !inPkg(c, g, c.M.Pkg) {
				continue
			}
			ir.Calls(g, func(ci ssa.CallInstruction) {
				cc := ci.Common()
				if !ir.IsCallTo(cc, wt+m) || len(cc.Args) <= argIdx[m] {
					return
				}
				if c.M.SSem != nil && !chk.LoadsField(cc.Args[0], c.M.SSem) {
					return
				}
				direct[g] = append(direct[g], ci)
			})
		}
		// wrappers, innermost first (bounded nesting)
		type wrap struct {
			weight int64
			param  int // ≥ 0: the weight is this parameter
		}
		wrappers := map[*ssa.Function]wrap{}
		weightOf := func(ci ssa.CallInstruction) (int64, int) {
			cc := ci.Common()
			if g := cc.StaticCallee(); g != nil {
				if w, ok := wrappers[g]; ok {
					if w.param >= 0 && w.param < len(cc.Args) {
						if k, isC := ir.ConstInt(cc.Args[w.param]); isC {
							return k, -1
						}
						if par, isP := cc.Args[w.param].(*ssa.Parameter); isP {
							for i, q := range ci.Parent().Params {
								if q == par {
									return -1, i
								}
							}
						}
						return -1, -1
					}
					return w.weight, -1
				}
			}
			a := cc.Args[argIdx[m]]
			if k, isC := ir.ConstInt(a); isC {
				return k, -1
			}
			if par, isP := a.(*ssa.Parameter); isP {
				for i, q := range ci.Parent().Params {
					if q == par {
						return -1, i
					}
				}
			}
			return -1, -1
		}
		ops := map[*ssa.Function][]ssa.CallInstruction{}
		for g, cs := range direct {
			ops[g] = cs
		}
		for round := 0; round < 3; round++ {
			grew := false
			for g, cs := range ops {
				if _, done := wrappers[g]; done || len(cs) != 1 || g.Parent() != nil || len(g.Blocks) == 0 {
					continue
				}
				ci := cs[0]
				call, isCall := ci.(*ssa.Call)
				if !isCall || ci.Block() != g.Blocks[0] || len(c.P.Callers(g)) == 0 || c.P.UsedAsValue(g) {
					continue
				}
				// nothing else happens in g: every other call would make it more than a wrapper
				other := false
				ir.Calls(g, func(x ssa.CallInstruction) {
					if x != ci {
						other = true
					}
				})
				if other {
					continue
				}
				if m == "Acquire" {
					okRet := true
					for _, r := range ir.Returns(g) {
						if len(r.Results) != 1 || ir.NormCell(r.Results[0]) != ssa.Value(call) {
							okRet = false
						}
					}
					if !okRet {
						continue
					}
				}
				k, par := weightOf(ci)
				wrappers[g] = wrap{weight: k, param: par}
				for _, s := range c.P.Callers(g) {
					ops[s.Caller] = append(ops[s.Caller], s.Instr)
				}
				grew = true
			}
			if !grew {
				break
			}
		}
		for g, cs := range ops {
			for _, ci := range cs {
				if _, isWrapper := wrappers[g]; isWrapper && len(direct[g]) == 1 && direct[g][0] == ci {
					continue // the wrapped call itself: represented by the wrapper's call sites
				}
				if _, isWrapper := wrappers[g]; isWrapper {
					continue
				}
				k, _ := weightOf(ci)
				out[m][ci] = k
			}
		}
	}
	return out
}

// semConstructions returns the semaphore.NewWeighted calls of the root package.
func semConstructions(c *chk.Ctx) []*ssa.Call {
	var out []*ssa.Call
	for _, g := range c.P.Funcs {
		if !inPkg(c, g, c.M.Pkg) {
			continue
		}
		ir.Calls(g, func(ci ssa.CallInstruction) {
			if call, ok := ci.(*ssa.Call); ok && ir.IsCallTo(&call.Call, "golang.org/x/sync/semaphore.NewWeighted") {
				out = append(out, call)
			}
		})
	}
	return out
}

func ruleSemSize(c *chk.Ctx) {
	var nw *ssa.Call
	if c.M.SSem != nil {
		for _, st := range c.P.FieldStores(c.M.SSem) {
			if call, ok := st.Val.(*ssa.Call); ok && ir.IsCallTo(&call.Call, "golang.org/x/sync/semaphore.NewWeighted") {
				nw = call
			}
		}
	} else if cs := semConstructions(c); len(cs) == 1 {
		nw = cs[0]
	}
	if nw == nil {
		c.Undecided("PAIR.sem", nil, "semaphore size", 0, "semaphore construction not found")
		return
	}
	arg := c.P.Canon(nw.Call.Args[0])
	acc, ok := arg.(*ssa.Call)
	if !ok || acc.Call.StaticCallee() == nil || !c.P.InRepo[acc.Call.StaticCallee()] {
		c.Fail("PAIR.sem", nw.Parent(), "semaphore size", nw.Pos(), "the semaphore size is not the direct result of the options accessor")
		return
	}
	g := acc.Call.StaticCallee()
	allOK := true
	var why []string
	// every way the result is produced: a return's value, or — when one variable collects the
	// size and is converted at a single exit — each value flowing into it, with the outcomes
	// along its edge
	type sizeWay struct {
		v     ssa.Value
		conds []ir.Cond
		same  map[ssa.Value]bool // variables (phis) that hold v on this way
	}
	var ways []sizeWay
	var expand func(v ssa.Value, conds []ir.Cond, same map[ssa.Value]bool, depth int)
	expand = func(v ssa.Value, conds []ir.Cond, same map[ssa.Value]bool, depth int) {
		if cv, ok := v.(*ssa.Convert); ok {
			v = cv.X
		}
		if phi, isPhi := v.(*ssa.Phi); isPhi && depth < 4 {
			for i, e := range phi.Edges {
				pred := phi.Block().Preds[i]
				s2 := map[ssa.Value]bool{phi: true}
				for k := range same {
					s2[k] = true
				}
				cs := append(append(append([]ir.Cond{}, conds...), ir.CondsAt(pred)...), ir.EdgeConds(pred, phi.Block())...)
				expand(e, cs, s2, depth+1)
			}
			return
		}
		// a constant that the outcomes on this way rule out (the zero of an unset variable
		// under `n >= 1`) is not a way
		if k, isK := ir.ConstInt(v); isK {
			for _, cd := range conds {
				x, y, op, isRel := ir.Rel(cd)
				if !isRel || !same[x] {
					continue
				}
				if b, isB := ir.ConstInt(y); isB {
					holds := map[token.Token]bool{token.LSS: k < b, token.LEQ: k <= b, token.GTR: k > b, token.GEQ: k >= b, token.EQL: k == b, token.NEQ: k != b}[op]
					if !holds {
						return
					}
				}
			}
		}
		ways = append(ways, sizeWay{v, conds, same})
	}
	for _, r := range ir.Returns(g) {
		expand(ir.ReturnResult(r, 0), ir.CondsAt(r.Block()), nil, 0)
	}
	for _, w := range ways {
		v := w.v
		if call, ok := v.(*ssa.Call); ok && ir.IsCallTo(&call.Call, "runtime.NumCPU") {
			why = append(why, "NumCPU()")
			continue
		}
		if cv, ok := v.(*ssa.Convert); ok {
			if call, ok := cv.X.(*ssa.Call); ok && ir.IsCallTo(&call.Call, "runtime.NumCPU") {
				why = append(why, "NumCPU()")
				continue
			}
		}
		if u, ok := v.(*ssa.UnOp); ok && u.Op == token.MUL {
			if fa, ok := u.X.(*ssa.FieldAddr); ok {
				fv := ir.FieldVar(fa)
				// must be on the ≥ 1 edge
				// (the guard may sit in a private predicate helper; every alternative under which
				// the return is reached must establish it)
				ge1 := true
				alts := expandPredicateHelpers(c, w.conds, 0)
				if len(alts) == 0 {
					ge1 = false
				}
				for _, alt := range alts {
					found := false
					for _, cd := range alt {
						x, y, op, isRel := ir.Rel(cd)
						if !isRel {
							continue
						}
						if !w.same[x] {
							lu, ok := x.(*ssa.UnOp)
							if !ok {
								continue
							}
							lfa, ok := lu.X.(*ssa.FieldAddr)
							if !ok || ir.FieldVar(lfa) != fv {
								continue
							}
						}
						k, isC := ir.ConstInt(y)
						if !isC {
							continue
						}
						if (op == token.GEQ && k >= 1) || (op == token.GTR && k >= 0) {
							found = true
						}
					}
					if !found {
						ge1 = false
					}
				}
				if ge1 {
					why = append(why, "option "+fv.Name()+" on its ≥ 1 edge")
					continue
				}
				why = append(why, "option "+fv.Name()+" without a ≥ 1 guard")
				allOK = false
				continue
			}
		}
		why = append(why, fmt.Sprintf("unrecognised %T", v))
		allOK = false
	}
	c.Check(allOK, "PAIR.sem", g, "semaphore size", nw.Pos(), "size is "+strings.Join(why, " or ")+", with no arithmetic", "the semaphore size is not exactly the option (when ≥ 1) or NumCPU: "+strings.Join(why, "; "))
}

// ---------------------------------------------------------------------------
// C03: notification barrier

func ruleBarrier(c *chk.Ctx, d *dispatchModel) {
	nbar := chk.PathOfVar(c.M.Server, c.M.SNbar).String()
	// D2: inside the barrier function Wait precedes Add(n), n the parameter; no early return
	bf := d.barrier
	var wait, add *ssa.Call
	ir.Instrs(bf, func(ins ssa.Instruction) {
		if call, ok := ins.(*ssa.Call); ok {
			if id, ok := wgCall(call, "Wait"); ok && id == nbar {
				wait = call
			}
			if id, ok := wgCall(call, "Add"); ok && id == nbar {
				add = call
			}
		}
	})
	if wait == nil || add == nil {
		c.Fail("PAIR.barrier", bf, "wait then add", bf.Pos(), "the barrier function does not both Wait on and Add to the notification barrier")
	} else {
		_, isParam := add.Call.Args[1].(*ssa.Parameter)
		inline := bf == d.prepare
		okOrder := ir.InstrDominates(wait, add) && (isParam || (inline && isNotesCount(c, d, add.Call.Args[1])))
		allRet := ir.AllReturnsDominatedBy(wait) && ir.AllReturnsDominatedBy(add)
		c.Check(okOrder && allRet, "PAIR.barrier", bf, "wait then add", wait.Pos(), "every path through the barrier function waits for outstanding notifications, then adds its parameter",
			"some path through the barrier function skips the Wait (or the Add), or Add precedes Wait, or the amount added is not the parameter: a later request could start while an earlier notification is still running")
		// the lock is released across the wait
		st := c.F.At(wait)
		c.Check(st.Has(facts.NotHeld, ownerLock(c, "server")), "PAIR.barrier", bf, "lock released while waiting", wait.Pos(), "the server lock is definitely not held during Wait (handlers may call back into the server)",
			"the server lock may be held while waiting on the barrier: a notification handler that calls back into the server would deadlock")
	}
	// D2: prepare calls the barrier on every path to returning the closure, with the notification count
	var bcall ssa.CallInstruction
	ir.Calls(d.prepare, func(ci ssa.CallInstruction) {
		if ci.Common().StaticCallee() == bf {
			bcall = ci
		}
	})
	if bf == d.prepare && wait != nil && add != nil {
		// the barrier is taken inline in the prepare function: covered by "wait then add" above
		c.Pass("PAIR.barrier", d.prepare, "barrier taken synchronously", wait.Pos(), "the barrier is waited on and raised inline in the prepare function, on every path")
		c.Pass("PAIR.barrier", d.prepare, "barrier amount", wait.Pos(), "the amount added is the counting function's notification count")
	} else if bcall == nil {
		c.Fail("PAIR.barrier", d.prepare, "barrier taken synchronously", d.prepare.Pos(), "the function that prepares a batch does not call the barrier function")
	} else {
		_, isCall := bcall.(*ssa.Call)
		allRet := ir.AllReturnsDominatedBy(bcall)
		c.Check(isCall && allRet, "PAIR.barrier", d.prepare, "barrier taken synchronously", bcall.Pos(), "a plain call (not go/defer) dominating every return of the prepare function",
			"the barrier is not taken synchronously on every path before the batch's closure is handed out")
		amountIdx := 1
		if add != nil {
			if par, isPar := add.Call.Args[1].(*ssa.Parameter); isPar {
				for i, q := range bf.Params {
					if q == par {
						amountIdx = i
					}
				}
			}
		}
		if amountIdx >= len(bcall.Common().Args) {
			amountIdx = len(bcall.Common().Args) - 1
		}
		c.Check(isNotesCount(c, d, bcall.Common().Args[amountIdx]), "PAIR.barrier", d.prepare, "barrier amount", bcall.Pos(), "the amount added is the counting function's notification count (second result)", "the amount added to the barrier is not the notification count of the counting function: handlers' Done calls would not match")
	}
	// chain loop → dequeue → prepare has no go/defer in between: prepare is called by a plain call from the function that dequeues
	for _, s := range c.P.Callers(d.prepare) {
		_, isCall := s.Instr.(*ssa.Call)
		c.Check(isCall, "PAIR.barrier", s.Caller, "prepare called synchronously", s.Instr.Pos(), "plain call from the dispatcher", "the prepare function is started with go/defer: batches would no longer be prepared in arrival order")
	}
	// D3: each invoke site is followed by Done iff the same task's request is a notification
	for _, s := range d.invokeSites {
		f := s.Parent()
		// a Done "at" instruction a of f: the Done call itself, or the call of a private helper
		// (a barrier type's method) that performs it
		type doneAt struct {
			at ssa.Instruction
			dn *ssa.Call
		}
		var dones []doneAt
		for _, g := range pkgFuncs(c, c.M.Pkg) {
			ir.Instrs(g, func(ins ssa.Instruction) {
				call, ok := ins.(*ssa.Call)
				if !ok {
					return
				}
				if id, ok := wgCall(call, "Done"); !ok || id != nbar {
					return
				}
				if g == f {
					if ir.InstrDominates(s.(*ssa.Call), call) {
						dones = append(dones, doneAt{call, call})
					}
					return
				}
				if g.Parent() != nil {
					return // another closure's own Done
				}
				for _, a := range anchorsIn(c, call, f) {
					if ir.InstrDominates(s.(*ssa.Call), a) {
						dones = append(dones, doneAt{a, call})
					}
				}
			})
		}
		// choose the nearest: the one not behind another invocation site
		var mine *doneAt
		for i := range dones {
			dn := dones[i]
			other := false
			for _, s2 := range d.invokeSites {
				if s2 != s && s2.Parent() == f && ir.InstrDominates(s2.(*ssa.Call), dn.at) && ir.InstrDominates(s.(*ssa.Call), s2.(*ssa.Call)) {
					other = true
				}
			}
			if !other {
				mine = &dones[i]
			}
		}
		if mine == nil {
			c.Fail("PAIR.barrier", f, "Done after invoke", s.Pos(), "no barrier Done follows this handler invocation: the barrier would never open again after a notification")
			continue
		}
		// governed exactly by IsNotification() of the same task's request, evaluated after the invoke
		okGov := false
		conds := ir.CondsAt(mine.dn.Block())
		if mine.dn.Parent() != f {
			conds = c.P.CondsWithin(mine.dn, f)
		}
		before := map[ir.Cond]bool{}
		for _, cd := range ir.CondsAt(s.Block()) {
			before[cd] = true
		}
		extra := ""
		for _, cd := range conds {
			if before[cd] {
				continue
			}
			isVerdict := false
			{
				cv := cd.V
				if _, isCall := cv.(*ssa.Call); !isCall {
					cv = c.P.Canon(ir.NormCell(cv))
				}
				if call, ok := cv.(*ssa.Call); ok && call.Call.StaticCallee() != nil && isRequestNotificationPred(c, call.Call.StaticCallee()) {
					isVerdict = true
				}
			}
			if !isVerdict && extra == "" {
				extra = cd.V.String() + " at " + c.P.Pos(cd.V.Pos())
			}
		}
		c.Check(extra == "", "PAIR.barrier", f, "Done subject to nothing but the notification test", mine.at.Pos(), "between the handler's return and Done there is no test other than whether the request is a notification", "after the handler returns, Done is also subject to another test ("+extra+"): on its other outcome (e.g. an error from the invocation) a notification's unit of the barrier is never given back, and every later request waits forever")
		for _, cd := range conds {
			// (the verdict may have been taken before the call and handed to the goroutine as a
			// parameter: whether a request is a notification never changes)
			cv := cd.V
			if _, isCall := cv.(*ssa.Call); !isCall {
				cv = c.P.Canon(ir.NormCell(cv))
			}
			call, ok := cv.(*ssa.Call)
			if !ok || !cd.Truth {
				continue
			}
			g := call.Call.StaticCallee()
			if g == nil || !isRequestNotificationPred(c, g) {
				continue
			}
			subject := c.P.Canon(call.Call.Args[0])
			if par, isPar := ir.NormCell(call.Call.Args[0]).(*ssa.Parameter); isPar && call.Parent() != f {
				// the helper's parameter, read as the argument of this very call of the helper
				if ac, isCI := mine.at.(ssa.CallInstruction); isCI && ac.Common().StaticCallee() == par.Parent() {
					for i, q := range par.Parent().Params {
						if q == par && i < len(ac.Common().Args) {
							subject = ac.Common().Args[i]
						}
					}
				}
			}
			t, fv, ok := taskFieldLoad(c, subject)
			t0 := invokeSiteTask(c, s)
			if ok && fv == c.M.THreq && t0 != nil && t == t0 {
				okGov = true
			}
		}
		c.Check(okGov && !ir.InCycle(mine.at.Block()) || okGov && f == d.closure, "PAIR.barrier", f, "Done after invoke", mine.at.Pos(), "after the handler returns, Done is called exactly when the same task's request is a notification",
			"the Done after this invocation is not governed by IsNotification() of the same task: the barrier count would drift")
		// Done is not reachable twice
	}
	// total Done sites = invoke sites
	nd := 0
	for _, f := range pkgFuncs(c, c.M.Pkg) {
		ir.Calls(f, func(ci ssa.CallInstruction) {
			if id, ok := wgCall(ci, "Done"); ok && id == nbar {
				// a Done inside a helper counts once per call of the helper
				hasSite := false
				for _, s := range d.invokeSites {
					if s.Parent() == f {
						hasSite = true
					}
				}
				if !hasSite && f.Parent() == nil && len(c.P.Callers(f)) > 0 {
					nd += len(c.P.Callers(f))
				} else {
					nd++
				}
			}
			if id, ok := wgCall(ci, "Add"); ok && id == nbar && f != bf {
				c.Fail("PAIR.barrier", f, "barrier Add elsewhere", ci.Pos(), "the notification barrier is added to outside the barrier function")
			}
		})
	}
	c.Check(nd == len(d.invokeSites), "PAIR.barrier", d.closure, "one Done per invocation site", d.closure.Pos(), fmt.Sprintf("%d Done sites for %d invocation sites", nd, len(d.invokeSites)),
		fmt.Sprintf("%d Done sites for %d invocation sites", nd, len(d.invokeSites)))
	c.Floor("PAIR.barrier", 7, "wait-then-add, lock released, synchronous, amount, prepare call, Done per site, count")
}

// C03-D1: single in-order dispatcher.
func ruleSingleDispatcher(c *chk.Ctx, d *dispatchModel) {
	// FIFO pair only; inserts only in the reader and the stop function
	var pops []ssa.CallInstruction
	stop := stopFunc(c, "server")
	recvFn, _ := readerOf(c, "server")
	for _, f := range pkgFuncs(c, c.M.Pkg) {
		ir.Calls(f, func(ci ssa.CallInstruction) {
			cc := ci.Common()
			if len(cc.Args) == 0 || !chk.IsField(cc.Args[0], c.M.SInq) || cc.StaticCallee() == nil {
				return
			}
			switch ir.BaseName(cc.StaticCallee()) {
			case "Pop":
				pops = append(pops, ci)
			case "Add":
				ok := (recvFn != nil && c.P.InExt(recvFn, f)) || (stop != nil && c.P.InExt(stop, f))
				c.Check(ok, "WHO.queue", f, "queue insert site", ci.Pos(), "FIFO insert in the reader / the stop function's retain step", "the inbound queue is inserted into outside the reader and the stop function")
			case "Push", "PopLast", "Peek":
				c.Fail("WHO.queue", f, "non-FIFO queue operation", ci.Pos(), "%s breaks first-in-first-out processing of inbound messages", ir.BaseName(cc.StaticCallee()))
			}
		})
	}
	if len(pops) != 1 {
		c.Fail("WHO.queue", nil, "dequeue sites", 0, "%d dequeue sites (want exactly 1)", len(pops))
		return
	}
	pf := pops[0].Parent()
	gos, other := goRootsReaching(c, pf)
	ok := len(other) == 0 && len(gos) == 1 && !ir.InCycle(gos[0].Block()) && gos[0].Parent() == startFunc(c)
	c.Check(ok, "WHO.queue", pf, "single dispatcher", pops[0].Pos(), "one dequeue site, reachable only from one go statement (not in a loop) of the start function",
		fmt.Sprintf("the dequeue site is reachable from %d go statement(s) and %d other entries: batches could be prepared out of order", len(gos), len(other)))
	// prepare is called from the dequeuing function, after the Pop
	for _, s := range c.P.Callers(d.prepare) {
		after := s.Caller == pf && ir.InstrDominates(pops[0].(*ssa.Call), s.Instr)
		if !after {
			// the dequeue may sit in a private helper called just before
			for _, a := range anchorsIn(c, pops[0], s.Caller) {
				if ir.InstrDominates(a, s.Instr) {
					after = true
				}
			}
		}
		c.Check(after, "WHO.queue", s.Caller, "prepare follows dequeue", s.Instr.Pos(), "the prepare function is called right where the batch is dequeued", "the prepare function is called elsewhere than after the dequeue")
		// and every batch taken off the queue is prepared: no return between the dequeue and the call
		if after {
			var from []ssa.Instruction
			if s.Caller == pf {
				from = []ssa.Instruction{pops[0]}
			} else {
				from = anchorsIn(c, pops[0], s.Caller)
			}
			dropped := ""
			for _, a := range from {
				isPrep := func(i ssa.Instruction) bool {
					ci, ok := i.(ssa.CallInstruction)
					return ok && ci.Common().StaticCallee() == d.prepare
				}
				// when the dequeue sits in a helper that reports with a flag whether it took a batch,
				// only the flag's value on the helper's returns after the dequeue matters
				init := map[ssa.Value]bool{}
				if call, isCall := a.(*ssa.Call); isCall && a != ssa.Instruction(pops[0]) {
					if h := call.Call.StaticCallee(); h != nil {
						for j := 0; j < h.Signature.Results().Len(); j++ {
							if h.Signature.Results().At(j).Type().String() != "bool" {
								continue
							}
							var val *bool
							same := true
							for _, r := range ir.Returns(h) {
								reach := false
								for _, pa := range anchorsIn(c, pops[0], h) {
									if pa.Block() == r.Block() || blockReachesFrom(pa.Block(), r.Block()) {
										reach = true
									}
								}
								if !reach {
									continue
								}
								k, isK := ir.ReturnResult(r, j).(*ssa.Const)
								if !isK || k.Value == nil {
									same = false
									continue
								}
								t := k.Value.String() == "true"
								if val != nil && *val != t {
									same = false
								}
								val = &t
							}
							if val == nil || !same {
								continue
							}
							if h.Signature.Results().Len() == 1 {
								init[call] = *val
							} else {
								for _, ref := range *call.Referrers() {
									if e, isE := ref.(*ssa.Extract); isE && e.Index == j {
										init[e] = *val
									}
								}
							}
						}
					}
				}
				if hit, at := reachesKnowing(nil, a.Block(), a, func(i ssa.Instruction) bool { _, isRet := i.(*ssa.Return); return isRet }, isPrep, init); hit && dropped == "" {
					dropped = c.P.Pos(at.Pos())
				}
			}
			c.Check(dropped == "", "WHO.queue", s.Caller, "every dequeued batch is prepared", s.Instr.Pos(), "no return between the dequeue and the prepare call", "a batch taken off the queue can be dropped without being prepared (return at "+dropped+"): the notifications kept in the queue when the server stops would be drained but never handed to their handlers")
		}
	}
	// D4: the batch runner executes in a goroutine of its own, tracked by the lifetime group: the
	// nearest go statement above every call of the runner is tracked, and is not the dispatcher's
	// own goroutine (an inline call in the dispatcher would make a running call delay every later
	// request)
	dispGo := map[*ssa.Go]bool{}
	for _, g := range gos {
		dispGo[g] = true
	}
	rgos, _ := goRootsReaching(c, d.closure)
	for _, g := range rgos {
		gc := classifyOne(c, g)
		switch {
		case dispGo[g]:
			c.Fail("WHO.queue", g.Parent(), "batches run concurrently", g.Pos(), "the batch runner %s is called on the dispatcher's own goroutine: a running call would delay every later request", ir.Name(d.closure))
		default:
			c.Check(gc.kind == "tracked" && gc.wg == chk.PathOfVar(c.M.Server, c.M.SWg).String(), "WHO.queue", g.Parent(), "batches run concurrently", g.Pos(),
				"each batch's runner executes in its own goroutine registered with the lifetime group", "the batch goroutine is not registered with the server's lifetime WaitGroup")
		}
	}
	if len(rgos) == 0 {
		c.Fail("WHO.queue", d.closure, "batches run concurrently", d.closure.Pos(), "the batch runner is not run in its own goroutine: a running call would delay every later request")
	}
}

// resultOnlyReturnedTo: h is a private helper of top whose single result (a
// Handler) top only returns: `return s.builtinHandler(name)`.
func resultOnlyReturnedTo(c *chk.Ctx, h, top *ssa.Function) bool {
	sites := c.P.Callers(h)
	if len(sites) == 0 || c.P.UsedAsValue(h) || ir.Exported(h) {
		return false
	}
	for _, s := range sites {
		call, ok := s.Instr.(*ssa.Call)
		if !ok || (s.Caller != top && !c.P.InExt(top, s.Caller)) {
			return false
		}
		for _, r := range *call.Referrers() {
			switch x := r.(type) {
			case *ssa.Return, *ssa.DebugRef:
			case *ssa.Phi:
				for _, r2 := range *x.Referrers() {
					if _, isRet := r2.(*ssa.Return); !isRet {
						return false
					}
				}
			default:
				return false
			}
		}
	}
	return true
}

// ruleBuiltinThroughInvoke: built-in methods run only as Handler values (and so under
// the semaphore): the server-info function is called only from the closure the assign
// function returns (and from user code).
func ruleBuiltinThroughInvoke(c *chk.Ctx) {
	si := c.M.Func(c.M.Pkg, "(*Server).ServerInfo")
	if si == nil {
		c.Undecided("WHO.builtin", nil, "ServerInfo", 0, "not found")
		return
	}
	var assignFn *ssa.Function
	for _, f := range pkgFuncs(c, c.M.Pkg) {
		ir.Calls(f, func(ci ssa.CallInstruction) {
			cc := ci.Common()
			if cc.IsInvoke() && cc.Method.Name() == "Assign" && chk.LoadsField(cc.Value, c.M.SMux) {
				assignFn = f
			}
		})
	}
	n := 0
	for _, s := range c.P.Callers(si) {
		n++
		ok := assignFn != nil && isHandlerSig(c, s.Caller.Signature) && (s.Caller.Parent() == assignFn || (s.Caller.Parent() != nil && c.P.InExt(assignFn, s.Caller.Parent()) && resultOnlyReturnedTo(c, s.Caller.Parent(), assignFn)) || handlerValueOnlyFrom(c, s.Caller, assignFn))
		c.Check(ok, "WHO.builtin", s.Caller, "built-in method body", s.Instr.Pos(), "the built-in method's body is called only from the Handler closure the assign function returns, so it runs through the invoke function under a semaphore slot",
			"the built-in method's body is called directly from "+ir.Name(s.Caller)+", not through a Handler value: it would execute outside the concurrency limit")
	}
	if n == 0 {
		c.Undecided("WHO.builtin", si, "built-in method body", si.Pos(), "no library caller of the server-info function found")
	}
}

// nullNormaliser: the function that maps the token null to an absent id
// (returns its argument unless a null predicate holds, nil otherwise).
func isNullNormaliser(c *chk.Ctx, g *ssa.Function) bool {
	if g == nil || !c.P.InRepo[g] || g.Signature.Params().Len() != 1 || g.Signature.Results().Len() != 1 {
		return false
	}
	retParam, retNil := false, false
	for _, r := range ir.Returns(g) {
		v := ir.ReturnResult(r, 0)
		if _, isP := v.(*ssa.Parameter); isP {
			retParam = true
		}
		if ir.IsNilConst(v) {
			retNil = true
		}
	}
	return retParam && retNil
}

// ruleNullIsAbsent: in the check/assign function the Request's id and the
// reservation key both derive from the null-normalised inbound id.
func ruleNullIsAbsent(c *chk.Ctx, d *dispatchModel) {
	f := d.checkAssign
	var norm *ssa.Call
	// the Request literal's id
	okReq := false
	c.P.ExtInstrs(f, func(ins ssa.Instruction) {
		st, ok := ins.(*ssa.Store)
		if !ok || !chk.IsField(st.Addr, c.M.QID) {
			return
		}
		if call, ok := st.Val.(*ssa.Call); ok && isNullNormaliser(c, call.Call.StaticCallee()) && chk.LoadsField(call.Call.Args[0], c.M.JID) {
			okReq, norm = true, call
		}
	})
	c.Check(okReq, "PROV.nullid", f, "request id is null-normalised", f.Pos(), "the Request handed to dispatch gets its id from the null-normalising function applied to the inbound id: \"id\":null is a notification everywhere downstream", "the Request's id is not the null-normalised inbound id: a message with \"id\":null would be treated as a call by the barrier count, the response builder or IsNotification")
	// the key used for duplicate detection and reservation: the key of the store into the table
	var res *ssa.MapUpdate
	ir.Instrs(d.setContext, func(ins ssa.Instruction) {
		if mu, ok := ins.(*ssa.MapUpdate); ok && chk.LoadsField(mu.Map, c.M.SUsed) {
			res = mu
		}
	})
	okKey := false
	why := "reservation site not found"
	if res != nil && norm != nil {
		why = "the key does not derive from the normalised id"
		isNormKey := func(v ssa.Value) bool {
			cv, ok := v.(*ssa.Convert)
			if !ok {
				return false
			}
			if cv.X == ssa.Value(norm) {
				return true
			}
			// the Request's own id field (shown above to hold the normalised id)
			if okReq && chk.LoadsField(cv.X, c.M.QID) {
				return true
			}
			// another application of the normaliser to an inbound id
			call, ok := cv.X.(*ssa.Call)
			return ok && isNullNormaliser(c, call.Call.StaticCallee()) && chk.LoadsField(call.Call.Args[0], c.M.JID)
		}
		n, good := 0, 0
		for _, src := range c.P.SourcesStop(res.Key, isNormKey) {
			n++
			if isNormKey(src) {
				good++
			}
		}
		okKey = n > 0 && n == good
	}
	c.Check(okKey, "PROV.nullid", f, "reservation key is the normalised id", f.Pos(), "the key under which ids are looked up and reserved is string(normalised id): an explicit null is never reserved", "the reservation key is not derived from the null-normalised id ("+why+"): \"id\":null would be reserved under the text null and later notifications rejected as duplicates")
}

// ruleHandlerFromAssigner: the handler stored into a task is the assign function's
// result for that task's own context and method, obtained in the same iteration.
func ruleHandlerFromAssigner(c *chk.Ctx, d *dispatchModel) {
	f := d.checkAssign
	n := 0
	c.P.ExtInstrs(f, func(ins ssa.Instruction) {
		st, ok := ins.(*ssa.Store)
		if !ok {
			return
		}
		fa, ok := st.Addr.(*ssa.FieldAddr)
		if !ok || ir.FieldVar(fa) != c.M.TM || ir.FieldOwner(fa) != c.M.Task {
			return
		}
		n++
		task := c.P.Canon(fa.X)
		call, isCall := st.Val.(*ssa.Call)
		good := false
		if isCall && call.Call.StaticCallee() != nil && ir.RecvNamed(call.Call.StaticCallee()) == c.M.Server && len(call.Call.Args) == 3 {
			t1, f1, ok1 := taskFieldLoad(c, call.Call.Args[1])
			if !ok1 {
				// the very value that is stored into this task's context
				c.P.ExtInstrs(f, func(i2 ssa.Instruction) {
					if s2, isSt := i2.(*ssa.Store); isSt && chk.IsField(s2.Addr, c.M.TCtx) && ir.SameValue(s2.Val, call.Call.Args[1]) && c.P.Canon(s2.Addr.(*ssa.FieldAddr).X) == task {
						t1, f1, ok1 = task, c.M.TCtx, true
					}
				})
			}
			okM := false
			if b2, fv2, ok := ir.FieldRead(ir.NormCell(call.Call.Args[2])); ok && fv2 == c.M.QMethod {
				if t2, f2, ok2 := taskFieldLoad(c, b2); ok2 && f2 == c.M.THreq && t2 == task {
					okM = true
				}
			}
			good = ok1 && f1 == c.M.TCtx && t1 == task && okM
		}
		c.Check(good, "PROV.assign", f, "handler comes from the assigner for this very request", st.Pos(), "task.m ← assign(task.ctx, task.hreq.method) of the same task, in the same iteration", "the handler stored into a task is not the assign function's direct result for that task's own context and method (cached or shared): a request could be dispatched to the handler chosen for a different request, and the assigner would not see its InboundRequest")
	})
	if n == 0 {
		c.Undecided("PROV.assign", f, "handler assignment", f.Pos(), "no handler assignment found")
	}
}

// ruleBatchFlagChain: the "this message came in an array" flag is true exactly
// on the array branch of the envelope parser, is copied member → task in the
// check/assign function (task → response is checked by PROV.reply), and the
// list encoder's bare-object test reads it (TABLE.bare).
func ruleBatchFlagChain(c *chk.Ctx, d *dispatchModel) {
	// envelope parser: Store to jmessage.batch of a value that is a phi of constants,
	// true only from blocks on the "first byte is '['" branch
	var lp *ssa.Function
	for _, f := range pkgFuncs(c, c.M.Pkg) {
		if f.Parent() == nil && isListParser(c, f) {
			lp = f
		}
	}
	if lp == nil {
		c.Undecided("PROV.batchflag", nil, "envelope parser", 0, "message-list parser not resolved")
		return
	}
	n := 0
	c.P.ExtInstrs(lp, func(ins ssa.Instruction) {
		st, ok := ins.(*ssa.Store)
		if !ok || !chk.IsField(st.Addr, c.M.JBatch) {
			return
		}
		n++
		// (a flag handed to a private per-member helper is the argument at its call)
		val := c.P.Canon(st.Val)
		phi, isPhi := val.(*ssa.Phi)
		good := false
		why := "the flag is not a phi of constants"
		// the flag may be the comparison itself: firstByte(data) == '['
		if bo, ok := ir.NormCell(val).(*ssa.BinOp); ok && bo.Op == token.EQL {
			kk, isC := ir.ConstInt(bo.Y)
			other := bo.X
			if !isC {
				kk, isC = ir.ConstInt(bo.X)
				other = bo.Y
			}
			if isC && kk == '[' {
				if call, isCall := other.(*ssa.Call); isCall && call.Call.StaticCallee() != nil && c.P.InRepo[call.Call.StaticCallee()] {
					good, isPhi = true, false
				}
			}
		}
		// the flag may be one field of what a private envelope-splitting helper returns:
		// then every successful return of the helper sets it true exactly on its array branch
		if call, ri, fk, isRes := ir.StructFieldOrigin(val); isRes && !good {
			g := call.Call.StaticCallee()
			if g != nil && c.P.InRepo[g] && !ir.Exported(g) && len(g.Blocks) > 0 {
				if fvs, known := ir.ResultFieldVals(g, ri, fk); known {
					isPhi = false
					good = true
					nOK := 0
					for _, fv := range fvs {
						// (a return that also reports an error is not a successful one; the
						// caller must not use the flag of such a return)
						failed := false
						for j := range fv.Ret.Results {
							if j != ri && fv.Ret.Results[j].Type().String() == "error" && !ir.IsNilConst(ir.ReturnResult(fv.Ret, j)) {
								failed = true
							}
						}
						if failed {
							guarded := false
							// (outcomes known where the flag is stored, or — when it is handed to a
							// per-member helper — where it is read from the helper's result)
							gconds := append([]ir.Cond{}, c.P.CondsWithin(st, lp)...)
							if vi, isIns := val.(ssa.Instruction); isIns && vi.Block() != nil {
								gconds = append(gconds, ir.CondsAt(vi.Block())...)
							}
							for _, cd := range gconds {
								if x, eq, isN := ir.NilCompare(cd.V); isN && eq == cd.Truth {
									if e, isE := x.(*ssa.Extract); isE && e.Tuple == ssa.Value(call) {
										guarded = true
									}
								}
							}
							if !guarded {
								good, why = false, "the flag of a failed split is used"
							}
							continue
						}
						nOK++
						isTrue := false
						if !fv.Zero {
							k, isK := fv.Val.(*ssa.Const)
							if !isK || k.Value == nil {
								good, why = false, "a non-constant value flows into the flag"
								continue
							}
							isTrue = k.Value.String() == "true"
						}
						array := false
						for _, cd := range ir.CondsAt(fv.Ret.Block()) {
							if x, y, op, ok := ir.Rel(cd); ok && op == token.EQL {
								kk, isC := ir.ConstInt(y)
								if !isC {
									kk, isC = ir.ConstInt(x)
								}
								if isC && kk == '[' {
									array = true
								}
							}
						}
						if isTrue != array {
							good = false
							why = fmt.Sprintf("%s sets batch=%v on the %s branch", g.Name(), isTrue, map[bool]string{true: "array", false: "single-value"}[array])
						}
					}
					if nOK < 2 {
						good, why = false, "the splitting helper does not return both shapes"
					}
				}
			}
		}
		// the flag may travel in a field of a small record filled by the envelope splitter: every
		// store into that field is a constant, and true is stored only on the array branch (the
		// record starts out zero)
		if _, fv, isF := ir.FieldRead(ir.NormCell(val)); isF && fv != nil && fv != c.M.JBatch && !good && !isPhi {
			stores := c.P.FieldStores(fv)
			okAll, nTrue := len(stores) > 0, 0
			for _, fs := range stores {
				k, isK := fs.Val.(*ssa.Const)
				if !isK || k.Value == nil {
					okAll, why = false, "a non-constant value flows into the flag"
					continue
				}
				if k.Value.String() != "true" {
					continue
				}
				nTrue++
				array := false
				for _, cd := range ir.CondsAt(fs.Block()) {
					if x, y, op, ok := ir.Rel(cd); ok && op == token.EQL {
						kk, isC := ir.ConstInt(y)
						if !isC {
							kk, isC = ir.ConstInt(x)
						}
						if isC && kk == '[' {
							array = true
						}
					}
				}
				if !array {
					okAll, why = false, "the flag is set outside the array branch"
				}
			}
			if okAll && nTrue > 0 {
				good = true
			}
		}
		if isPhi {
			good = true
			for i, e := range phi.Edges {
				k, isK := e.(*ssa.Const)
				if !isK || k.Value == nil {
					good, why = false, "a non-constant value flows into the flag"
					break
				}
				isTrue := k.Value.String() == "true"
				// is this edge on the array branch? (first byte compared with '[')
				array := false
				for _, cd := range ir.EdgeConds(phi.Block().Preds[i], phi.Block()) {
					if x, y, op, ok := ir.Rel(cd); ok && op == token.EQL {
						kk, isC := ir.ConstInt(y)
						if !isC {
							kk, isC = ir.ConstInt(x)
						}
						if isC && kk == '[' {
							array = true
						}
					}
				}
				if isTrue != array {
					good = false
					why = fmt.Sprintf("edge %d sets batch=%v on the %s branch", i, isTrue, map[bool]string{true: "array", false: "single-value"}[array])
				}
			}
		}
		c.Check(good, "PROV.batchflag", lp, "batch flag set exactly on the array branch", st.Pos(), "members are flagged as batch members exactly when the message's first significant byte is '['", "the batch flag does not follow the array/single-value decision of the envelope parser ("+why+"): a single request could be answered with an array or an array request with a bare object")
	})
	if n == 0 {
		c.Undecided("PROV.batchflag", lp, "batch flag store", lp.Pos(), "the envelope parser does not set the batch flag")
	}
	// member → task
	ok := false
	c.P.ExtInstrs(d.checkAssign, func(ins ssa.Instruction) {
		st, isSt := ins.(*ssa.Store)
		if isSt && chk.IsField(st.Addr, c.M.TBatch) && chk.LoadsField(st.Val, c.M.JBatch) {
			ok = true
		}
	})
	c.Check(ok, "PROV.batchflag", d.checkAssign, "flag carried from member to task", d.checkAssign.Pos(), "task.batch ← member.batch", "the task's batch flag is not copied from the inbound member")
}

// ruleBatchOrder: C04-D5 (structural part): Batch builds request i from spec i,
// returns send's slice unchanged, and send creates one pending slot per
// id-carrying request in one pass, in order.
func ruleBatchOrder(c *chk.Ctx) {
	var batch, send *ssa.Function
	for _, f := range pkgFuncs(c, c.M.Pkg) {
		if f.Parent() != nil || ir.RecvNamed(f) != c.M.Client {
			continue
		}
		sig := f.Signature
		if ir.Exported(f) && sig.Params().Len() == 2 && sig.Results().Len() == 2 && strings.HasSuffix(sig.Params().At(1).Type().String(), "[]"+c.M.Pkg.Pkg.Path()+".Spec") {
			batch = f
		}
		if sig.Params().Len() == 2 && sig.Results().Len() == 2 && isJmessagesType(c, sig.Params().At(1).Type()) {
			send = f
		}
	}
	if batch == nil || send == nil {
		c.Undecided("PROV.order", nil, "Batch/send", 0, "Batch or send not resolved")
		return
	}
	// reqs[i] = req built from specs[i] (same index)
	okIdx := false
	c.P.ExtInstrs(batch, func(ins ssa.Instruction) {
		st, ok := ins.(*ssa.Store)
		if !ok {
			return
		}
		ia, ok := st.Addr.(*ssa.IndexAddr)
		if !ok || !isJmessagesType(c, ia.X.Type()) {
			return
		}
		// the value's sources: results of req/note calls whose method argument is a field of specs[same index]
		for _, src := range c.P.SourcesStop(st.Val, func(v ssa.Value) bool { _, isE := v.(*ssa.Extract); return isE }) {
			e, isE := src.(*ssa.Extract)
			if !isE {
				continue
			}
			call, isCall := e.Tuple.(*ssa.Call)
			if !isCall || len(call.Call.Args) < 3 {
				continue
			}
			for _, a := range call.Call.Args {
				// the spec itself (by value) taken from specs[index]
				if u, ok := ir.NormCell(a).(*ssa.UnOp); ok {
					if ia2, ok := u.X.(*ssa.IndexAddr); ok && ia2.Index == ia.Index {
						okIdx = true
					}
				}
			}
			if u, ok := call.Call.Args[2].(*ssa.UnOp); ok {
				if fa, ok := u.X.(*ssa.FieldAddr); ok {
					if ia2, ok := fa.X.(*ssa.IndexAddr); ok && ia2.Index == ia.Index {
						okIdx = true
					}
					if ld, ok := fa.X.(*ssa.Alloc); ok {
						// spec copied into a local: its store comes from specs[index]
						for _, cs := range ir.CellStores(ld) {
							if u2, ok := cs.Val.(*ssa.UnOp); ok {
								if ia2, ok := u2.X.(*ssa.IndexAddr); ok && ia2.Index == ia.Index {
									okIdx = true
								}
							}
						}
					}
				}
			}
		}
	})
	c.Check(okIdx, "PROV.order", batch, "request i is built from spec i", batch.Pos(), "reqs[i] is the request built from specs[i] (same index)", "Batch does not build request i from spec i")
	okRet := false
	for _, r := range ir.Returns(batch) {
		if e, ok := ir.ReturnResult(r, 0).(*ssa.Extract); ok && e.Index == 0 {
			if call, ok := e.Tuple.(*ssa.Call); ok && call.Call.StaticCallee() == send {
				okRet = true
			}
		}
	}
	c.Check(okRet, "PROV.order", batch, "responses returned in send's order", batch.Pos(), "Batch returns the slice send produced, unchanged", "Batch does not return send's response slice unchanged")
	// send: pending slots are collected by appends inside loops; exactly one of these appends is
	// the filter (governed by id != ""), any other merely copies, unconditionally, what the
	// filter collected
	holdsResponse := func(t types.Type) bool {
		sl, ok := t.Underlying().(*types.Slice)
		if !ok {
			return false
		}
		el := sl.Elem()
		if strings.HasSuffix(el.String(), "*"+c.M.Pkg.Pkg.Path()+".Response") {
			return true
		}
		if st, ok := el.Underlying().(*types.Struct); ok {
			for i := 0; i < st.NumFields(); i++ {
				if strings.HasSuffix(st.Field(i).Type().String(), "*"+c.M.Pkg.Pkg.Path()+".Response") {
					return true
				}
			}
		}
		return false
	}
	var apps []*ssa.Call
	c.P.ExtInstrs(send, func(ins ssa.Instruction) {
		if call, ok := ins.(*ssa.Call); ok {
			if b, isB := call.Call.Value.(*ssa.Builtin); isB && b.Name() == "append" && holdsResponse(call.Type()) {
				apps = append(apps, call)
			}
		}
	})
	filters, okApp := 0, len(apps) >= 1
	var filterBlock *ssa.BasicBlock
	inLoop := func(ins ssa.Instruction) bool {
		for depth := 0; depth < 5; depth++ {
			if ir.InCycle(ins.Block()) {
				return true
			}
			f := ins.Parent()
			if f == send {
				return false
			}
			site, ok := c.P.SoleCaller(f)
			if !ok {
				return false
			}
			ins = site.Instr
		}
		return false
	}
	var filterAnchor ssa.Instruction
	for _, ap := range apps {
		if !inLoop(ap) {
			okApp = false
		}
		gov, other := false, false
		for _, cd := range c.P.CondsWithin(ap, send) {
			if x, y, op, ok := ir.Rel(cd); ok {
				sx, isX := constString(x)
				sy, isY := constString(y)
				if ((isY && sy == "") || (isX && sx == "")) && op == token.NEQ {
					gov = true
					continue
				}
			}
			if isLoopCond(cd) || isLenCond(cd) {
				continue
			}
			// an error check passed on the way (Send succeeded, client still running) does not
			// select among the requests
			if x, _, ok := ir.NilCompare(cd.V); ok && (x.Type().String() == "error" || chk.LoadsField(x, c.M.CCh) || chk.LoadsField(x, c.M.CErr)) {
				continue
			}
			if call, ok := cd.V.(*ssa.Call); ok && call.Common().Value != nil {
				if _, isNext := call.Common().Value.(*ssa.Builtin); isNext {
					continue
				}
			}
			other = true
		}
		if gov {
			// several collections filled in lock step (same block, or the same helper call) count
			// as one filter
			anchor := ssa.Instruction(ap)
			for depth := 0; depth < 5 && anchor.Parent() != send; depth++ {
				site, ok := c.P.SoleCaller(anchor.Parent())
				if !ok {
					break
				}
				anchor = site.Instr
			}
			if filterBlock == nil || (filterBlock != ap.Block() && filterAnchor != anchor) {
				filters++
			}
			filterBlock, filterAnchor = ap.Block(), anchor
		} else if other {
			okApp = false
		}
	}
	okApp = okApp && filters == 1
	c.Check(okApp, "PROV.order", send, "one slot per id-carrying request, in order", send.Pos(), "a single append inside the loop over the requests, governed by id != \"\"", "pending slots are not created one per id-carrying request in a single in-order pass")
}

// handlerValueOnlyFrom: method h (with the Handler signature) is never called directly and its
// method value is taken only inside fn (so it runs only as a Handler value fn hands out).
func handlerValueOnlyFrom(c *chk.Ctx, h, fn *ssa.Function) bool {
	// the method must never be called directly (calls through a function value are the
	// Handler-value calls we want; bound-method wrappers are synthetic)
	for _, s := range c.P.Callers(h) {
		if s.Caller.Synthetic == "" && s.Instr.Common().StaticCallee() == h {
			return false
		}
	}
	found := false
	ok := true
	for _, f := range c.P.Funcs {
		ir.Instrs(f, func(ins ssa.Instruction) {
			mc, isMC := ins.(*ssa.MakeClosure)
			if !isMC {
				return
			}
			g := mc.Fn.(*ssa.Function)
			if g.Synthetic == "" || !strings.Contains(g.Name(), h.Name()+"$bound") {
				return
			}
			found = true
			if f != fn && !c.P.InExt(fn, f) {
				// made by a caller of the assign function only to be handed to it (the value the
				// assign function returns for the built-in name)
				handed := len(*mc.Referrers()) > 0
				for _, ref := range *mc.Referrers() {
					call, isCall := ref.(ssa.CallInstruction)
					if !isCall {
						handed = false
						continue
					}
					callee := call.Common().StaticCallee()
					isArg := false
					for _, a := range call.Common().Args {
						if a == ssa.Value(mc) {
							isArg = true
						}
					}
					if callee == nil || !isArg || (callee != fn && !c.P.InExt(fn, callee)) {
						handed = false
					}
				}
				if !handed {
					ok = false
				}
			}
		})
	}
	return found && ok
}

// invokeTaskArg returns the argument of an invoke call site that is the task
// itself (when the invoke function takes the task rather than its fields).
func invokeTaskArg(c *chk.Ctx, s ssa.CallInstruction) ssa.Value {
	for _, a := range s.Common().Args {
		if pt, ok := a.Type().(*types.Pointer); ok && types.Unalias(pt.Elem()) == types.Type(c.M.Task) {
			return a
		}
	}
	return nil
}

// invokeSiteTask returns the (canonical) task whose handler an invoke call site runs.
func invokeSiteTask(c *chk.Ctx, s ssa.CallInstruction) ssa.Value {
	if a := invokeTaskArg(c, s); a != nil {
		return c.P.Canon(a)
	}
	for _, a := range s.Common().Args {
		if t, _, ok := taskFieldLoad(c, a); ok {
			return t
		}
	}
	return nil
}

// isNotesCount: v is the counting function's notification count: its second
// result, or the second field of its result struct.
func isNotesCount(c *chk.Ctx, d *dispatchModel, v ssa.Value) bool {
	if e, ok := v.(*ssa.Extract); ok && e.Index == 1 {
		if call, ok := e.Tuple.(*ssa.Call); ok && call.Call.StaticCallee() == d.numToDo {
			return true
		}
	}
	if base, fv, ok := projection(v); ok && fv != nil {
		b := ir.NormCell(base)
		if al, isAl := b.(*ssa.Alloc); isAl {
			if sts := ir.CellStores(al); len(sts) == 1 {
				b = ir.NormCell(sts[0].Val)
			}
		}
		if call, isCall := b.(*ssa.Call); isCall && call.Call.StaticCallee() == d.numToDo {
			if st, isSt := call.Type().Underlying().(*types.Struct); isSt && st.NumFields() == 2 && st.Field(1) == fv {
				return true
			}
		}
	}
	return false
}

// assignedUnderErrNil: v is a variable holding a task (a phi, or a local with
// several assignments) and every non-nil value it is given is assigned where
// the err == nil test of a task has succeeded.
func assignedUnderErrNil(c *chk.Ctx, v ssa.Value) bool {
	okConds := func(cs []ir.Cond) bool {
		for _, cd := range cs {
			if known, isNil := isErrNilOfTask(c, cd, nil); known && isNil {
				return true
			}
		}
		return false
	}
	seen := map[ssa.Value]bool{}
	n := 0
	var walk func(x ssa.Value, depth int) bool
	walk = func(x ssa.Value, depth int) bool {
		if depth > 6 {
			return false
		}
		if seen[x] {
			return true
		}
		seen[x] = true
		switch y := x.(type) {
		case *ssa.Phi:
			for i, e := range y.Edges {
				if ir.IsNilConst(e) || seen[e] {
					continue
				}
				if _, isPhi := e.(*ssa.Phi); isPhi {
					if !walk(e, depth+1) {
						return false
					}
					continue
				}
				n++
				if !okConds(ir.EdgeConds(y.Block().Preds[i], y.Block())) {
					return false
				}
			}
			return true
		case *ssa.Alloc:
			for _, st := range ir.CellStores(y) {
				if ir.IsNilConst(st.Val) {
					continue
				}
				n++
				if !okConds(ir.CondsAt(st.Block())) {
					return false
				}
			}
			return true
		case *ssa.UnOp:
			if al, ok := y.X.(*ssa.Alloc); ok {
				return walk(al, depth+1)
			}
			// an element of a list prepared beforehand (`ready = append(ready, t)` on the
			// err == nil edge, then a loop over ready): every element put into the list
			if ia, ok := y.X.(*ssa.IndexAddr); ok && y.Op == token.MUL {
				elems, known := c.P.ElementValues(ia.X)
				if !known || len(elems) == 0 {
					return false
				}
				for _, e := range elems {
					put := false
					if refs := e.Referrers(); refs != nil {
						for _, r := range *refs {
							st, isSt := r.(*ssa.Store)
							if !isSt || st.Val != e {
								continue
							}
							if _, intoElem := st.Addr.(*ssa.IndexAddr); !intoElem {
								continue
							}
							put = true
							n++
							if !okConds(ir.CondsAt(st.Block())) {
								return false
							}
						}
					}
					if !put {
						return false
					}
				}
				return true
			}
		}
		return false
	}
	return walk(ir.NormCell(v), 0) && n > 0
}

// continuesIndex: the loop headed by second goes on with the index variable of
// the loop headed by first: an index phi of second takes, on its entry edge,
// the index phi of first, and first is not reachable again from second.
func continuesIndex(first, second *ssa.BasicBlock) bool {
	if first == second || reachesWithout(second, first, nil) {
		return false
	}
	indexPhis := func(h *ssa.BasicBlock) map[*ssa.Phi]bool {
		out := map[*ssa.Phi]bool{}
		for _, ins := range h.Instrs {
			phi, ok := ins.(*ssa.Phi)
			if !ok {
				break
			}
			if refs := phi.Referrers(); refs != nil {
				for _, r := range *refs {
					if ia, isIA := r.(*ssa.IndexAddr); isIA && ia.Index == ssa.Value(phi) {
						out[phi] = true
					}
				}
			}
		}
		return out
	}
	a, b := indexPhis(first), indexPhis(second)
	for pb := range b {
		for _, e := range pb.Edges {
			if pa, ok := e.(*ssa.Phi); ok && a[pa] {
				return true
			}
		}
	}
	return false
}

// reachesAvoiding: can from reach to (forward) without entering any of avoid?
func reachesAvoiding(from, to *ssa.BasicBlock, avoid ...*ssa.BasicBlock) bool {
	skip := map[*ssa.BasicBlock]bool{}
	for _, a := range avoid {
		if a != nil {
			skip[a] = true
		}
	}
	seen := map[*ssa.BasicBlock]bool{}
	stack := []*ssa.BasicBlock{from}
	for len(stack) > 0 {
		b := stack[len(stack)-1]
		stack = stack[:len(stack)-1]
		if seen[b] {
			continue
		}
		seen[b] = true
		for _, s := range b.Succs {
			if s == to {
				return true
			}
			if !skip[s] {
				stack = append(stack, s)
			}
		}
	}
	return false
}
